# C14 — iovector: model coq/C14, harness harness/C14 (ASan, exact-size buffers), engine E1.
#
# Case line:  <V|O> <cap> <rf> <chunk> <shape> ; <op> ; <op> ...
#   V = iovector_view over an exact-size iovec array, O = owning iovector (new_iovector(cap, rf))
#   whose allocator hands out at most <chunk> bytes per call.  shape = element sizes ('-' = none).
# Output: one record per op  r=<ret> p=<ptr> v=<triples> w=<begin>,<nbases> a=<out-view triples>
#   f=<flat of the vector> g=<flat of the out view> d=<destination buffers id:hex/...>
# joined by " | ", then " # " and the dump of every buffer.
#
# The ORACLE below is the property itself — every operation equals its effect on the flat byte
# string — written on python bytes, independent of the Coq model: it only uses the records the
# implementation printed (previous flat string, element lengths, returned values, destinations).
import re
from vlib import *

SIZE_MAX = (1 << 64) - 1
NA = -2

def pattern(id, n):
    return bytes(((id * 37 + i * 11 + 5) % 251) for i in range(n))
def unhex(s):
    return b'' if s == '-' else bytes.fromhex(s)
def parse_triples(s):
    s = s[1:-1]
    return [tuple(int(x) for x in t.split(',')) for t in s.split(';')] if s else []
def parse_shape(s):
    return [] if s == '-' else [int(x) for x in s.split(',')]
def shape_s(sh):
    return ','.join(map(str, sh)) if sh else '-'
def parse_rec(r):
    d = dict(kv.split('=', 1) for kv in r.strip().split(' '))
    d['r'] = int(d['r'])
    d['v'] = parse_triples(d['v']); d['a'] = parse_triples(d['a'])
    b, nb = d['w'].split(','); d['beg'] = int(b); d['nb'] = int(nb)
    d['f'] = unhex(d['f']); d['g'] = unhex(d['g'])
    dst = []
    if d['d'] != '-':
        for item in d['d'].split('/'):
            i, h = item.split(':', 1)
            dst.append((i, unhex(h)))
    d['dst'] = dst
    return d
def parse_case(case):
    parts = [p.strip() for p in case.split(';')]
    k, cap, rf, chunk, sh = parts[0].split()
    ops = [p.split() for p in parts[1:] if p]
    return k, int(cap), int(rf), int(chunk), parse_shape(sh), ops

ONE_ARG = ['shrink', 'xf', 'xfb', 'xfc', 'xb', 'xbb', 'xbc', 'mto', 'mfrom', 'pto']
ALLOC_ARG = ('xfb', 'xbb', 'mto', 'mfrom', 'pto', 'trunc', 'pushb', 'pushf', 'pushba', 'pushfa')   # argument is also a buffer size: keep small

class Check(DiffCheck):
    id = 'C14'
    coq_dirs = ['C14']
    coq_targets = ['C14/C14_Lib.vo', 'C14/C14_Proofs.vo', 'C14/C14_Copy.vo', 'C14/C14_Alloc.vo', 'C14/C14_Seq.vo']
    properties_v = 'C14/C14_Properties.v'
    extract_v = 'C14/C14_Extract.v'
    runner_ml = 'ocaml/C14_run.ml'
    model_module = 'C14_model'
    rule = ('cases: corpus; exhaustive: every shape with <= 4 elements of sizes 0..3 x every operation x every byte count 0..sum+2 '
            '(x every offset 0..sum+1 and out-slot count for slice, x a family of destination shapes for view->view memcpy/pipe), '
            'as iovector_view and as owning iovector; PRNG: shapes up to capacity 32 with sizes 0..9, and operation sequences of '
            'length <= 12 on one vector (small capacities / small allocator chunks included). non-trivial = the vector has >= 2 '
            'elements or a zero-length element and the operation takes a byte count')
    assumptions = ['elements lie inside their buffers and (for writes into the vector) do not overlap; slice offset >= 0',
                   'model follows the FIXED iov_iterator constructor (repo_patches/C14-fix-iov-iterator-empty.diff)',
                   'model follows the FIXED extract_front/back(bytes, iovector*) (repo_patches/C14-fix-extract-into-iovector-capacity.diff)']
    trusted_base = ['harness allocator (min(size.max, chunk) bytes per call) stands for IOAlloc', 'ASan+UBSan (minus null/alignment/vptr) on harness + common/iovector.cpp', 'harness/C14/alog_stub.cpp replaces common/alog.cpp (logging disabled)']
    case_timeout = 900

    def build_impl(self):
        # common/iovector.cpp is compiled into the harness with ASan+UBSan.  The three alog symbols it needs are
        # defined in harness/C14/alog_stub.cpp, so libphoton is not linked (no photon build, no global lock).
        # (-fsanitize=null/alignment ODR-use constexpr static members of alog.h that have no definition under
        #  C++14 -> link error; every other UBSan check is on)
        exe, log = cxx_build(self.id, ['harness/C14/harness.cpp', 'harness/C14/alog_stub.cpp', os.path.join(REPO, 'common/iovector.cpp')],
                             extra='-fno-sanitize=null,alignment,vptr', asan=True, libphoton=False)
        if not exe: raise RuntimeError(log[-3000:])
        return exe

    def impl_env(self):
        # symbolize=0: a sanitizer report costs milliseconds instead of seconds, so a defect that makes tens of
        # thousands of cases trap still finishes (the replay file names the case; re-run it by hand for a symbolized trace)
        e = dict(os.environ)
        e['ASAN_OPTIONS'] = 'detect_leaks=0:abort_on_error=0:exitcode=99:symbolize=0:fast_unwind_on_fatal=1'
        e['UBSAN_OPTIONS'] = 'print_stacktrace=0:halt_on_error=1:symbolize=0'
        return e

    # ------------------------------------------------------------------ generation
    def gen_cases(self, tier, rng):
        cs = []
        cp = os.path.join(VERIF, 'replay', 'corpus', 'C14.cases')
        if os.path.exists(cp):
            cs += [l.strip() for l in open(cp) if l.strip() and not l.startswith('#')]
        quick = (tier != 'thorough')
        shapes = [[]]
        for k in range(1, 5):
            lim = 4
            def rec(pre, k):
                if k == 0: shapes.append(pre); return
                for s in range(lim): rec(pre + [s], k - 1)
            rec([], k)
        dshapes = [[], [0], [1], [3], [1, 1], [2, 0, 1], [0, 2], [1, 0, 0, 2], [5]]
        def heads(sh):
            hs = ['V 0 0 1 %s' % shape_s(sh)]
            if not quick or len(sh) <= 3 or sum(sh) <= 4:
                hs.append('O 8 2 64 %s' % shape_s(sh))
            return hs
        for sh in shapes:
            S = sum(sh)
            for h in heads(sh):
                own = h[0] == 'O'
                cs.append(h + ' ; sum')
                for n in range(S + 3):
                    for op in ONE_ARG:
                        cs.append('%s ; %s %d' % (h, op, n))
                    cs.append('%s ; %s %d' % (h, 'trunc' if own else 'shrinklt', n))
                    if own:
                        L = len(sh)
                        for (c2, rf2) in sorted(set([(L, 0), (L + 3, 2), (L + 1, 2), (max(L - 1, 0), 0), (8, 0)])):
                            cs.append('%s ; xfo %d %d %d' % (h, n, c2, rf2)); cs.append('%s ; xbo %d %d %d' % (h, n, c2, rf2))
                    for N in sorted(set([0, 1, 2, len(sh), len(sh) + 1])):
                        if quick and N == 2 and len(sh) != 2 and len(sh) != 3: continue
                        cs.append('%s ; xfv %d %d' % (h, n, N))
                        cs.append('%s ; xbv %d %d' % (h, n, N))
                    for off in range(S + 2):
                        for N in sorted(set([0, 1, len(sh), max(1, len(sh) - 1)])):
                            if quick and len(sh) == 4 and (n + off) % 2 == 1 and N not in (len(sh),): continue
                            cs.append('%s ; slice %d %d %d' % (h, n, off, N))
                for ds in dshapes:
                    T = sum(ds)
                    for n in sorted(set(list(range(min(S, T) + 3)) + [SIZE_MAX])):
                        if quick and len(sh) == 4 and len(ds) > 2 and n not in (min(S, T), SIZE_MAX): continue
                        for op in ('mtov', 'mfromv', 'ptov', 'pfromv'):
                            cs.append('%s ; %s %s %d' % (h, op, shape_s(ds), n))
                if own:
                    for op in ('popf', 'popb', 'clear', 'pushb 2', 'pushf 2', 'pushb 0', 'pushba 3', 'pushfa 3', 'xfo 18446744073709551615 8 0', 'xbo 18446744073709551615 9 1'):
                        cs.append('%s ; %s' % (h, op))
        # small capacity / small allocator chunk: the allocating paths and their failure branches
        for sh in shapes:
            if len(sh) > 3: continue
            S = sum(sh)
            for (cap, rf, chunk) in ((4, 1, 2), (3, 0, 1), (5, 2, 48)):
                if not quick or (cap, rf, chunk) == (4, 1, 2) or len(sh) <= 2:
                    h = 'O %d %d %d %s' % (cap, rf, chunk, shape_s(sh))
                    for n in range(S + 6):
                        cs.append('%s ; trunc %d' % (h, n))
                        cs.append('%s ; xfc %d' % (h, n)); cs.append('%s ; xbc %d' % (h, n))
                    for k in range(6):
                        cs.append('%s ; pushba %d' % (h, k)); cs.append('%s ; pushfa %d' % (h, k))
                        cs.append('%s ; pushb %d ; pushb 1 ; pushf %d ; pushf 1 ; sum' % (h, k, k))
                    for n in (0, 1, S, S + 1):
                        cs.append('%s ; xfv %d 0' % (h, n)); cs.append('%s ; xbv %d 0' % (h, n)); cs.append('%s ; slice %d 0 0' % (h, n))
                    cs.append('%s ; pushba 4 ; pushfa 3 ; trunc %d ; xfc %d ; xbc 1 ; trunc 0 ; trunc 3' % (h, S + 3, min(S, 2)))
        # big byte counts on a few shapes
        for sh in ([], [0], [2, 0, 3], [1, 2, 3, 0]):
            for h in ('V 0 0 1 %s' % shape_s(sh), 'O 32 4 4096 %s' % shape_s(sh)):
                for op in ('shrink', 'xf', 'xb', 'xfc', 'xbc'):
                    for n in (SIZE_MAX, SIZE_MAX - 1, 1 << 63, (1 << 31) + 1):
                        cs.append('%s ; %s %d' % (h, op, n))
                for n in (SIZE_MAX, 1 << 63):
                    cs.append('%s ; xfv %d 8' % (h, n)); cs.append('%s ; xbv %d 8' % (h, n)); cs.append('%s ; slice %d 1 8' % (h, n))
        # allocating operations with counts beyond INT_MAX (new_iovec clamps to INT_MAX; the loop stops at capacity)
        for sh in ([], [2, 1], [0, 3, 0]):
            for (cap, rf, chunk) in ((6, 2, 3), (32, 4, 2), (4, 4, 5)):
                h = 'O %d %d %d %s' % (cap, rf, chunk, shape_s(sh))
                for n in (SIZE_MAX, 1 << 63, 1 << 32, 1 << 31, (1 << 31) - 1, (1 << 31) + 7):
                    cs.append('%s ; trunc %d' % (h, n)); cs.append('%s ; pushba %d' % (h, n)); cs.append('%s ; pushfa %d' % (h, n))
        # random shapes up to the default capacity (IOVector = IOVectorEntity<32, 4>) and random sequences
        nrand = 2500 if quick else 60000
        for _ in range(nrand):
            cs.append(self._random_case(rng, single=True))
        for _ in range(nrand):
            cs.append(self._random_case(rng, single=False))
        return list(dict.fromkeys(cs))

    def _rand_shape(self, rng, maxn, maxsz):
        n = rng.choice([0, 1, 2, 3, 4, 5, 8, maxn, rng.randrange(0, maxn + 1)])
        n = min(n, maxn)
        zb = rng.random()
        return [0 if rng.random() < 0.25 * zb else rng.randrange(0, maxsz + 1) for _ in range(n)]

    def _random_case(self, rng, single):
        own = rng.random() < 0.6
        if own:
            cap = rng.choice([32, 32, 32, 4, 6, 9, 16]); rf = rng.choice([4, 4, 0, 1, 2]); rf = min(rf, cap)
            chunk = rng.choice([1, 2, 3, 5, 8, 64, 600, 4096])
            sh = self._rand_shape(rng, cap - rf if single else max(0, min(cap - rf, 6)), 9 if single else 5)
            head = 'O %d %d %d %s' % (cap, rf, chunk, shape_s(sh))
        else:
            sh = self._rand_shape(rng, 32 if single else 6, 9 if single else 5)
            head = 'V 0 0 1 %s' % shape_s(sh)
        S = sum(sh)
        nops = 1 if single else rng.randrange(2, 13)
        ops = []
        for _ in range(nops):
            ops.append(self._rand_op(rng, own, S if single else max(S, 6), len(sh)))
        return head + ' ; ' + ' ; '.join(ops)

    def _rand_count(self, rng, S, small):
        c = rng.random()
        if c < 0.55: return rng.randrange(0, S + 3)
        if c < 0.75: return rng.choice([0, 1, S, S + 1, max(0, S - 1)])
        if c < 0.9 or small: return rng.randrange(0, 2 * S + 4)
        return rng.choice([SIZE_MAX, SIZE_MAX - 1, 1 << 63, 1 << 32])

    def _rand_op(self, rng, own, S, ne):
        names = ['sum', 'shrink', 'xf', 'xfb', 'xfv', 'xfc', 'xb', 'xbb', 'xbv', 'xbc', 'slice', 'mto', 'mfrom',
                 'mtov', 'mfromv', 'pto', 'ptov', 'pfromv', 'xf', 'xb', 'slice', 'ptov', 'mfromv']
        names += ['trunc', 'pushb', 'pushf', 'pushba', 'pushfa', 'popf', 'popb', 'clear', 'pushb', 'pushba', 'trunc', 'xfo', 'xbo'] if own else ['shrinklt']
        op = rng.choice(names)
        if op in ('sum', 'popf', 'popb', 'clear'): return op
        if op in ('xfv', 'xbv'):
            return '%s %d %d' % (op, self._rand_count(rng, S, False), rng.choice([0, 0, 1, 2, ne, ne + 1, rng.randrange(0, 8)]))
        if op in ('xfo', 'xbo'):
            c2 = rng.choice([0, 1, 2, 3, 4, 6, 8, 36, ne, ne + 1, max(ne - 1, 0)]); rf2 = rng.choice([0, 0, 1, 2, 4])
            return '%s %d %d %d' % (op, self._rand_count(rng, S, False), max(c2, rf2), rf2)
        if op == 'slice':
            return 'slice %d %d %d' % (self._rand_count(rng, S, False), rng.randrange(0, S + 3), rng.choice([0, 0, 1, 2, ne, ne + 1, rng.randrange(0, 8)]))
        if op in ('mtov', 'mfromv', 'ptov', 'pfromv'):
            ds = self._rand_shape(rng, 6, 6)
            return '%s %s %d' % (op, shape_s(ds), self._rand_count(rng, min(S, sum(ds)), False))
        return '%s %d' % (op, self._rand_count(rng, S, op in ALLOC_ARG))

    # ------------------------------------------------------------------ bookkeeping
    def nontrivial(self, case):
        k, cap, rf, chunk, sh, ops = parse_case(case)
        return (len(sh) >= 2 or 0 in sh) and any(len(o) > 1 for o in ops)

    def category(self, case):
        k, cap, rf, chunk, sh, ops = parse_case(case)
        if len(ops) != 1: return k + ':sequence'
        return k + ':' + ops[0][0]

    def known_class(self, case):
        return None          # F2 is delivered as a fix (repo_patches/C14-fix-iov-iterator-empty.diff), nothing is suppressed

    def neighbours(self, case, rng):
        k, cap, rf, chunk, sh, ops = parse_case(case)
        out = []
        head = case.split(';')[0].strip()
        for i, o in enumerate(ops):
            for j in range(1, len(o)):
                if ',' in o[j] or o[j] == '-': continue
                for d in (-1, 1):
                    x = int(o[j]) + d
                    if 0 <= x <= SIZE_MAX and not (o[0] in ALLOC_ARG and x > 64):
                        o2 = list(o); o2[j] = str(x)
                        out.append(head + ' ; ' + ' ; '.join(' '.join(q) for q in (ops[:i] + [o2])))
            out.append(head + ' ; ' + ' ; '.join(' '.join(q) for q in ops[:i + 1]))
        return out[:60]

    # ------------------------------------------------------------------ the property oracle
    def oracle(self, case, out):
        try:
            k, cap, rf, chunk, sh, ops = parse_case(case)
        except Exception:
            return None
        if out.startswith('CRASH') or 'CRASH(' in out:
            return 'implementation crashed (out-of-bounds access / sanitizer): ' + out[:300]
        if out == 'BADCASE': return None
        try:
            body, dump = out.split(' #')
            recs = [parse_rec(r) for r in body.split(' | ')]
            bufs = {}
            for item in [x for x in dump.strip().split(',') if x]:
                i, h = item.split(':', 1)
                bufs[int(i)] = ('@', int(h[1:])) if h.startswith('@') else ('b', unhex(h))
        except Exception as e:
            return 'unparsable output: %r' % out[:200]
        if len(recs) != len(ops): return 'expected %d records, got %d' % (len(ops), len(recs))
        own = (k == 'O')
        # initial state
        F = b''.join(pattern(i, n) for i, n in enumerate(sh))
        lens = list(sh)
        if own: lens = lens[:max(0, cap - rf)]; F = b''.join(pattern(i, n) for i, n in enumerate(sh[:max(0, cap - rf)]))
        beg, nb = (rf, 0) if own else (0, 0)
        for idx, (o, r) in enumerate(zip(ops, recs)):
            msg = self._check_op(o, r, F, lens, own, cap, chunk, beg, nb)
            if msg: return 'op #%d (%s): %s' % (idx + 1, ' '.join(o), msg)
            # elements must lie inside their buffers
            for (i, off, ln) in r['v'] + [t for t in r['a'] if t[0] != -1 or t[2] != 0]:
                if i not in bufs: return 'op #%d: element (%d,%d,%d) is in no buffer' % (idx + 1, i, off, ln)
                size = bufs[i][1] if bufs[i][0] == '@' else len(bufs[i][1])
                if off < 0 or off + ln > size: return 'op #%d: element (%d,%d,%d) leaves its %d-byte buffer' % (idx + 1, i, off, ln, size)
            if sum(t[2] for t in r['v']) != len(r['f']): return 'op #%d: element lengths do not add up to the flat length' % (idx + 1)
            F = r['f']; lens = [t[2] for t in r['v']]; beg, nb = r['beg'], r['nb']
            if own and not (0 <= beg and beg + len(lens) <= cap): return 'op #%d: window [%d,%d) outside capacity %d' % (idx + 1, beg, beg + len(lens), cap)
        # final flat recomputed from the final element list and the final memory
        last = recs[-1]
        try:
            ff = b''.join(bufs[i][1][off:off + ln] for (i, off, ln) in last['v'] if ln)
            if ff != last['f']: return 'final element list does not denote the reported flat string'
        except Exception:
            return 'final element list refers to a non-byte buffer'
        return None

    def _check_op(self, o, r, F, lens, own, cap, chunk, beg, nb):
        op = o[0]; S = len(F); ret = r['r']; F2 = r['f']; G = r['g']
        args = o[1:]
        n = int(args[0]) if args and op not in ('mtov', 'mfromv', 'ptov', 'pfromv') else None
        ne = len(lens)
        alloc_ok = lambda size: nb < cap and size <= chunk
        def dst_flat(): return b''.join(b for (_, b) in r['dst'])
        def dst_orig():
            return b''.join(pattern(int(i), len(b)) for (i, b) in r['dst'])
        if op in ('trunc', 'pushb', 'pushf', 'pushba', 'pushfa', 'popf', 'popb', 'clear', 'xfo', 'xbo') and not own:
            return None if (ret == NA and F2 == F) else 'not-applicable operation changed something'
        if op == 'shrinklt' and own:
            return None if (ret == NA and F2 == F) else 'not-applicable operation changed something'
        if op == 'sum':
            if ret != S or F2 != F: return 'sum returned %d for %d bytes' % (ret, S)
        elif op == 'shrink':
            k = min(n, S)
            if ret != k: return 'returned %d, flat string gives %d' % (ret, k)
            if F2 != F[:k]: return 'vector does not denote the first %d bytes' % k
        elif op == 'shrinklt':
            if not F.startswith(F2): return 'result is not a prefix'
            if n == 0:
                if F2 != b'' or ret != (lens[0] if lens else 0): return 'size 0: expected empty vector and first element length'
            elif n > S:
                if F2 != F or ret != 0: return 'size beyond content must leave the vector unchanged and return 0'
            else:
                acc = 0; want = None
                for l in lens:
                    acc += l
                    if acc >= n: want = acc; break
                if len(F2) != want or ret != want - n: return 'expected cut at element boundary %s (excess %s), got length %d ret %d' % (want, want - n, len(F2), ret)
        elif op == 'trunc':
            k = min(n, S)
            if F2[:k] != F[:k]: return 'kept bytes differ'
            if len(F2) != ret: return 'returned %d but vector has %d bytes' % (ret, len(F2))
            if n <= S and ret != n: return 'shrinking truncate returned %d' % ret
            if n > S and not (S <= ret <= n): return 'growing truncate returned %d' % ret
            if n > S and beg + ne < cap and nb < cap and ret == S: return 'growing truncate added nothing although a slot and an allocation were available'
        elif op in ('xf', 'xfb', 'pto'):
            k = min(n, S)
            if ret != k: return 'returned %d, flat string gives %d' % (ret, k)
            if F2 != F[k:]: return 'vector does not denote the remaining bytes'
            if op != 'xf':
                if dst_flat() != F[:k] + dst_orig()[k:]: return 'destination bytes differ from the first %d bytes (or bytes beyond were written)' % k
        elif op in ('xb', 'xbb'):
            k = min(n, S)
            if ret != k: return 'returned %d, flat string gives %d' % (ret, k)
            if F2 != F[:S - k]: return 'vector does not denote the remaining bytes'
            if op == 'xbb':
                if dst_flat() != dst_orig()[:n - k] + F[S - k:]: return 'destination is not buf[n-k..n) = last %d bytes' % k
        elif op in ('xfv', 'xbv'):
            N = int(args[1]); front = (op == 'xfv')
            if own and n == 0:
                if ret != 0 or F2 != F: return 'bytes == 0 must return 0 and change nothing'
                return None
            # Slots a correct extraction of n bytes needs (common/iovector.cpp do_extract_front/back as shipped): one per
            # element of the extracted RANGE = the shortest run of elements from that end whose lengths add up to >= n
            # (all elements if n > sum), zero-length elements inside the range included (each is handed to the callback as
            # a whole element), elements beyond the boundary NOT included (a request that ends exactly on an element
            # boundary stops there).  n == 0 needs none.  The flat string does not know the element list, so this is
            # computed from the element lengths the implementation printed for the previous state.
            order = lens if front else lens[::-1]
            need = 0
            if n > 0:
                need, acc = len(order), 0
                for j, l in enumerate(order):
                    if n - acc <= l: need = j + 1; break
                    acc += l
            slots = N
            if own and N == 0:
                # the owning wrapper allocates iovcnt() slots (do_malloc) when the out view has none; iovcnt() >= need
                if ret == -1 and not alloc_ok(16 * ne):
                    if F2 != F or G != b'' or r['a']: return '-1 from a failed slot allocation must leave both vectors untouched'
                    return None
                if ret == -1: return '-1 although the slot array could be allocated'
                slots = ne
            if ret == -1:
                if slots >= need:
                    return ('-1 although the out view has %d slots and the extracted range (%d bytes from the %s of elements %s) needs %d'
                            % (slots, min(n, S), 'front' if front else 'back', shape_s(lens), need))
                # too few slots: the shipped code has then moved exactly `slots` whole elements into the out view
                moved = sum(order[:slots])
                if front:
                    if G != F[:moved] or F2 != F[moved:]: return 'after -1 the out view / the vector are not the first %d whole elements / the rest' % slots
                else:
                    if G != F[S - moved:] or F2 != F[:S - moved]: return 'after -1 the out view / the vector are not the last %d whole elements / the rest' % slots
                if len(r['a']) != slots: return 'after -1 the out view has %d elements, %d slots were given' % (len(r['a']), slots)
                return None
            k = min(n, S)
            if ret != k: return 'returned %d, flat string gives %d' % (ret, k)
            if front:
                if G != F[:k] or F2 != F[k:]: return 'extracted / remaining bytes differ from take/drop %d' % k
            else:
                if G != F[S - k:] or F2 != F[:S - k]: return 'extracted / remaining bytes differ from the last / first bytes'
            if len(r['a']) > slots: return 'out view has %d elements but only %d slots were given' % (len(r['a']), slots)
        elif op in ('xfo', 'xbo'):
            k = min(n, S)
            room = int(args[1]) - int(args[2])           # free iovs[] slots of the destination vector
            if ret == -1:
                if n == 0 or room >= ne: return '-1 although the destination vector has a slot for every element'
                if F2 != F or G != b'': return '-1 must leave both vectors untouched'
                return None
            if n > 0 and room < ne: return 'destination has %d slots for %d elements: expected -1, got %d' % (room, ne, ret)
            if ret != k: return 'returned %d, flat string gives %d' % (ret, k)
            if op == 'xfo':
                if G != F[:k] or F2 != F[k:]: return 'destination / remaining bytes differ from take/drop %d' % k
            else:
                if G != F[S - k:] or F2 != F[:S - k]: return 'destination / remaining bytes differ from the last / first bytes'
        elif op in ('xfc', 'xbc'):
            front = (op == 'xfc')
            if ret == 0:
                if F2 != F: return 'null returned but the vector changed'
                if ne > 0 and (lens[0] if front else lens[-1]) >= n: return 'null although the end element holds %d bytes' % n
                if own and n <= S and alloc_ok(n): return 'null although the bytes exist and the copy buffer could be allocated'
                return None
            if n > S: return 'non-null for %d bytes out of %d' % (n, S)
            got = r['dst'][0][1] if r['dst'] else b''
            if front:
                if got != F[:n] or F2 != F[n:]: return 'returned bytes / remaining bytes differ from take/drop %d' % n
            else:
                if got != F[S - n:] or F2 != F[:S - n]: return 'returned bytes / remaining bytes differ'
        elif op == 'slice':
            count, off, N = int(args[0]), int(args[1]), int(args[2])
            if F2 != F: return 'slice changed the vector'
            want = F[off:off + count]
            if own and count == 0: return None if ret == 0 else 'empty slice returned %d' % ret
            slots = N
            if own and N == 0:
                if not alloc_ok(16 * ne):
                    return None if ret in (0, -1) else 'allocation cannot succeed but slice returned %d' % ret
                slots = ne
            if slots == 0: return None if ret == -1 else 'no out slots: expected -1, got %d' % ret
            if ret < 0: return 'returned %d with %d out slots' % (ret, slots)
            if ret != len(G): return 'returned %d but the out view has %d bytes' % (ret, len(G))
            if not want.startswith(G): return 'out view is not a prefix of the requested byte range'
            # slots the byte range needs (slice() as shipped): one per element from the one that holds byte `off` up to the
            # one in which the range ends (or the last one), zero-length elements in between included, none before/after
            pos, i = 0, 0
            while i < ne and pos + lens[i] <= off: pos += lens[i]; i += 1
            pieces = ([lens[i] - (off - pos)] + lens[i + 1:]) if i < ne else []
            need, rem = len(pieces), count
            for j, p in enumerate(pieces):
                if rem <= p: need = j + 1; break
                rem -= p
            if slots >= need and G != want:
                return 'out view differs from bytes [%d, %d+%d) although it has %d slots and the range needs %d (elements %s)' % (off, off, count, slots, need, shape_s(lens))
            if len(r['a']) > slots: return 'out view has %d elements but only %d slots were given' % (len(r['a']), slots)
        elif op in ('mto', 'mtov', 'ptov'):
            nn = n if op == 'mto' else int(args[1])
            T = len(dst_flat())
            k = min(nn, S, T)
            if ret != k: return 'returned %d, flat strings give %d' % (ret, k)
            if dst_flat() != F[:k] + dst_orig()[k:]: return 'destination differs from the first %d source bytes (or bytes beyond were written)' % k
            if F2 != (F[k:] if op == 'ptov' else F): return 'source vector wrong after the copy'
        elif op in ('mfrom', 'mfromv', 'pfromv'):
            nn = n if op == 'mfrom' else int(args[1])
            src = dst_orig()
            if dst_flat() != src: return 'source buffers were modified'
            k = min(nn, S, len(src))
            if ret != k: return 'returned %d, flat strings give %d' % (ret, k)
            if F2 != src[:k] + F[k:]: return 'vector does not hold the %d copied bytes followed by its old tail' % k
            if op == 'pfromv' and G != src[k:]: return 'argument view does not denote its remaining bytes'
        elif op in ('pushb', 'pushf'):
            room = (beg + ne < cap) if op == 'pushb' else (beg > 0)
            if not room:
                if ret != 0 or F2 != F: return 'push without a free slot must return 0 and change nothing'
            else:
                if ret != n: return 'push returned %d' % ret
                new = F2[S:] if op == 'pushb' else F2[:len(F2) - S]
                old = F2[:S] if op == 'pushb' else F2[len(F2) - S:]
                if old != F or len(new) != n: return 'vector is not old bytes plus the %d pushed bytes' % n
        elif op in ('pushba', 'pushfa'):
            if not (0 <= ret <= n): return 'returned %d' % ret
            old = F2[:S] if op == 'pushba' else F2[len(F2) - S:]
            if old != F or len(F2) != S + ret: return 'vector is not old bytes plus %d new bytes' % ret
            room = (beg + ne < cap) if op == 'pushba' else (beg > 0)
            if n > 0 and room and nb < cap and ret == 0: return 'nothing pushed although a slot and an allocation were available'
        elif op == 'popf':
            k = lens[0] if lens else 0
            if ret != k or F2 != F[k:]: return 'pop_front wrong'
        elif op == 'popb':
            k = lens[-1] if lens else 0
            if ret != k or F2 != F[:S - k]: return 'pop_back wrong'
        elif op == 'clear':
            if F2 != b'': return 'clear left bytes'
        else:
            return 'unknown op'
        return None
