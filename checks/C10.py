# C10 — socket streams over the event engine.
#   D-cases (part 1, engine E1): KernelSocketStream read/readv/write/writev/recv/send/sendfile over a scripted
#           kernel (interposed recv/send/recvmsg/sendmsg/sendfile + scripted MasterEventEngine) vs coq/C10/C10_Model.v
#   E-cases (part 2, engine E5): io/epoll.cpp over an interposed epoll kernel vs coq/C10/C10_Engine.v
#   N-cases (part 2b, engine E5): io/epoll-ng.cpp over the same interposed kernel (four interest lists, nested epoll) vs
#           coq/C10/C10_EngineNG.v
#   R-cases (part 3): real-kernel socket run (search oracle only; the model side echoes nothing)
import re, itertools
from vlib import *

STRIDE = 4096
FILL = 0xEE
LOOPOPS = ('read', 'write', 'readv', 'writev', 'sendfile')
ONCEOPS = ('recv', 'send', 'recvv', 'sendv')
SENDING = ('write', 'writev', 'send', 'sendv', 'sendfile')


def src_byte(j): return (j * 37 + 11) % 256
def content(a): return (a * 131 + (a // STRIDE) * 17 + 7) % 256


def compositions(t):
    """all ordered splits of t into positive parts"""
    if t == 0:
        yield []
        return
    for first in range(1, t + 1):
        for rest in compositions(t - first):
            yield [first] + rest


def shapes(maxn, maxtotal):
    out = [[]]
    for n in range(1, maxn + 1):
        for ls in itertools.product(range(0, maxtotal + 1), repeat=n):
            if sum(ls) <= maxtotal:
                out.append(list(ls))
    return out


def dcase(op, tmo, flags, lens, sys, wt):
    return 'D %s %s %d %s %s %s' % (op, 'inf' if tmo is None else str(tmo), flags,
                                    ','.join(map(str, lens)) or '-', ','.join(sys) or '-', ','.join(wt) or '-')


FAULTS = ['again-ready', 'again-timeout', 'again-intr', 'eintr', 'eof', 'error', 'again-late', 'again-never-inf']


def inject(chunks, pos, fault, rng):
    """kernel answers for `chunks` with one fault inserted before chunk `pos`; returns (sys, wt, tmo)"""
    sys = ['r%d' % c for c in chunks]
    wt = []
    tmo = None
    if fault == 'again-ready':
        sys.insert(pos, 'e11'); wt = ['w%d' % rng.randrange(0, 50)]
        tmo = rng.choice([None, 1000])
    elif fault == 'again-timeout':
        sys.insert(pos, 'e11'); wt = ['n']; tmo = rng.choice([0, 1, 700])
    elif fault == 'again-late':
        sys.insert(pos, 'e11'); tmo = rng.choice([1, 30, 700]); wt = ['w%d' % (tmo + rng.randrange(0, 2))]
    elif fault == 'again-never-inf':
        sys.insert(pos, 'e11'); wt = ['n']; tmo = None
    elif fault == 'again-intr':
        sys.insert(pos, 'e11'); wt = ['x%d:%d' % (rng.randrange(0, 20), rng.choice([4, 125, 110, 6]))]
        tmo = rng.choice([None, 1000])
    elif fault == 'eintr':
        sys.insert(pos, 'e4')
    elif fault == 'eof':
        sys.insert(pos, 'r0')
    elif fault == 'error':
        sys.insert(pos, 'e%d' % rng.choice([104, 32, 9, 107]))
    return sys, wt, tmo


class Check(DiffCheck):
    id = 'C10'
    coq_dirs = ['Base', 'C10']
    coq_targets = ['C10/C10_Proofs.vo', 'C10/C10_ProofsLoop.vo', 'C10/C10_ProofsTop.vo', 'C10/C10_ProofsEngine.vo', 'C10/C10_ProofsRearm.vo', 'C10/C10_ProofsAgree.vo', 'C10/C10_ProofsAgree2.vo', 'C10/C10_ProofsAgree3.vo', 'C10/C10_EngineNG.vo', 'C10/C10_ProofsNG.vo', 'C10/C10_ProofsNG2.vo']
    properties_v = 'C10/C10_Properties.v'
    extract_v = 'C10/C10_Extract.v'
    runner_ml = 'ocaml/C10_run.ml'
    model_module = 'C10_model'
    rule = ('D-cases: every iovec shape of <=3 elements with <=6 bytes in total (zero-length elements included) x every split of the '
            'bytes into kernel answers, for readv/writev (and read/write on one buffer), clean and with one fault '
            '(EAGAIN+ready / EAGAIN+timeout / EAGAIN+late event / EAGAIN+interrupt / EINTR / EOF / error) at a position; recv/send/'
            'recv(iov)/send(iov)/sendfile small exhaustive; PRNG longer scripts (<=6 iovecs x <=300 bytes, random faults and deadlines). '
            'non-trivial = a partial transfer, an EAGAIN/EINTR, or a zero-length iovec.  E-/N-cases: scripts of wait_for_fd threads, '
            'readiness changes, polls, interrupts, virtual-time sleeps, cancel_wait, close over the interposed epoll kernel for '
            'io/epoll.cpp (E) and io/epoll-ng.cpp (N): hand-made families (every direction pair on one descriptor x readiness mask x '
            'event/timeout/interrupt order; the reap->notify window; >16 ready descriptors) plus PRNG scripts; non-trivial = shared '
            'descriptor, >16 waiters, or a timeout/interrupt after a poll')
    assumptions = ['the kernel is an oracle: each data syscall returns min(n, requested) for some n>=0, or -1 with an errno; each wait '
                   'returns ready / timeout / interrupted; data syscalls take no time',
                   'Timeout arithmetic does not saturate (m_timeout < 2^63 or exactly -1 = never)']
    partial_note = ''

    known_hits = {}
    known_first = {}

    def build_impl(self):
        exe, log = cxx_build(self.id, ['harness/C10/harness.cpp'], extra='-rdynamic', libphoton=True)
        if not exe: raise RuntimeError(log)
        return exe

    # ------------------------------------------------------------------ generation
    def gen_cases(self, tier, rng):
        cs = []
        cp = os.path.join(VERIF, 'replay', 'corpus', 'C10.cases')
        if os.path.exists(cp):
            cs += [l.strip() for l in open(cp) if l.strip() and not l.startswith('#')]
        cs += self.gen_D(tier, rng)
        cs += self.gen_E(tier, rng)
        cs += self.gen_N(tier, rng)
        cs += self.gen_R(tier, rng)
        return list(dict.fromkeys(cs))

    def gen_D(self, tier, rng):
        cs = []
        quick = (tier == 'quick')
        shp = shapes(3, 6)
        for lens in shp:
            total = sum(lens)
            for chunks in compositions(total):
                tail = [] if rng.random() < 0.5 else ['r%d' % rng.randrange(0, 9)]
                for op in ('readv', 'writev'):
                    cs.append(dcase(op, None, 0, lens, ['r%d' % c for c in chunks] + ['r3'], []))
                    # the kernel offers more than what is left on the last answer
                    if chunks:
                        cs.append(dcase(op, None, 0, lens, ['r%d' % c for c in chunks[:-1]] + ['r%d' % (chunks[-1] + rng.randrange(1, 5))] + tail, []))
                    combos = [(p, f) for p in range(len(chunks) + 1) for f in FAULTS]
                    if quick:
                        combos = rng.sample(combos, min(2, len(combos)))
                    for p, f in combos:
                        sys, wt, tmo = inject(chunks, p, f, rng)
                        cs.append(dcase(op, tmo, 0, lens, sys + ['r2'], wt))
        for count in range(0, 7):
            for chunks in compositions(count):
                for op in ('read', 'write'):
                    cs.append(dcase(op, None, 0, [count], ['r%d' % c for c in chunks] + ['r1'], []))
                    for p in range(len(chunks) + 1):
                        for f in FAULTS:
                            sys, wt, tmo = inject(chunks, p, f, rng)
                            cs.append(dcase(op, tmo, 0, [count], sys + ['r2'], wt))
        # one-shot calls
        for lens in shapes(3, 4):
            for n in range(0, 7):
                for op in (('recv', 'send') if len(lens) == 1 else ('recvv', 'sendv')):
                    fl = rng.choice([0, 0, 2, 64])
                    cs.append(dcase(op, None, fl, lens, ['r%d' % n], []))
                    f = rng.choice(FAULTS)
                    sys, wt, tmo = inject([n], rng.randrange(0, 2), f, rng)
                    cs.append(dcase(op, tmo, fl, lens, sys + ['r1'], wt))
        # sendfile_n
        for count in range(0, 6):
            for chunks in compositions(count):
                off = rng.choice([0, 10, 4000])
                cs.append(dcase('sendfile', None, 0, [off, count], ['r%d' % c for c in chunks] + ['r1'], []))
                p = rng.randrange(0, len(chunks) + 1); f = rng.choice([x for x in FAULTS if x not in ('again-timeout', 'again-late')])
                sys, wt, tmo = inject(chunks, p, f, rng)
                cs.append(dcase('sendfile', None, 0, [off, count], sys + ['r1'], wt))
        # random longer scripts
        nrand = 1500 if quick else 60000
        for _ in range(nrand):
            op = rng.choice(['readv', 'writev', 'readv', 'writev', 'read', 'write', 'recvv', 'sendv', 'recv', 'send', 'sendfile'])
            if op in ('read', 'write', 'recv', 'send'):
                lens = [rng.choice([0, 1, 2, 7, rng.randrange(0, 300)])]
            elif op == 'sendfile':
                lens = [rng.randrange(0, 3000), rng.randrange(0, 300)]
            else:
                n = rng.randrange(0, 7)
                lens = [rng.choice([0, 0, 1, 2, rng.randrange(0, 40), rng.randrange(0, 300)]) for _ in range(n)]
            total = lens[1] if op == 'sendfile' else sum(lens)
            tmo = rng.choice([None, None, 0, 1, 50, 1000, 10 ** 6])
            if op == 'sendfile': tmo = None
            sys, wt = [], []
            left = total
            style = rng.randrange(4)
            for _k in range(rng.randrange(1, 30)):
                x = rng.random()
                if x < (0.15 if style else 0.4):
                    sys.append('e11')
                    y = rng.random()
                    if y < 0.75: wt.append('w%d' % rng.choice([0, 1, rng.randrange(0, 60), rng.randrange(0, 1200)]))
                    elif y < 0.88: wt.append('n' if tmo is not None else 'w0')
                    else: wt.append('x%d:%d' % (rng.randrange(0, 100), rng.choice([4, 125, 110, 6, 11])))
                elif x < 0.5: sys.append('e4')
                elif x < 0.54: sys.append('r0')
                elif x < 0.58: sys.append('e%d' % rng.choice([104, 32, 9, 107, 110]))
                else:
                    c = {0: 1, 1: rng.randrange(1, 4), 2: rng.randrange(1, 40), 3: rng.randrange(1, 400)}[style]
                    if rng.random() < 0.1 and lens:   # exactly up to an iovec boundary
                        c = max(1, rng.choice(lens))
                    sys.append('r%d' % c); left -= c
                if left <= 0 and rng.random() < 0.7: break
            if rng.random() < 0.8: sys.append('r%d' % max(1, left))
            cs.append(dcase(op, tmo, rng.choice([0, 0, 2, 64]) if op in ONCEOPS else 0, lens, sys, wt))
        return cs


    # ------------------------------------------------------------------ part 2: engine scripts
    MASKS = [0, 1, 4, 5, 8, 16, 8192, 1 | 16, 4 | 8, 1 | 8192, 1 | 4 | 8 | 16]

    def gen_E(self, tier, rng):
        cs = []
        # hand-made families: the MOD-after-one-shot case in every order, both directions of one fd
        for d1, d2 in ((1, 2), (2, 1), (1, 4), (4, 2)):
            for m in (1, 4, 5, 8, 16, 8192):
                cs.append('E w1:5:%d:inf,w2:5:%d:inf,r5:%d,p,r5:%d,p,r5:13,p' % (d1, d2, m, m ^ 5))
                cs.append('E w1:5:%d:7,w2:5:%d:inf,t10,r5:%d,p,r5:5,p' % (d1, d2, m))
                cs.append('E w1:5:%d:inf,w2:5:%d:9,r5:%d,p,t10,r5:5,p,p' % (d1, d2, m))
                cs.append('E w1:5:%d:inf,w2:5:%d:inf,i1:4,r5:%d,p,w3:5:%d:inf,r5:0,p,r5:5,p' % (d1, d2, m, d1))
                cs.append('E w1:5:%d:5,t6,r5:%d,p,w2:5:%d:inf,p,w3:5:%d:inf,p,r5:0,p' % (d1, m, d2, d1))
        # the 16-event batch: more ready descriptors than one epoll_wait returns
        for n in (15, 16, 17, 20, 33):
            st = ['w%d:%d:%d:inf' % (i + 1, 10 + i, 1 + (i % 2)) for i in range(n)]
            st += ['r%d:5' % (10 + i) for i in range(n)]
            cs.append('E ' + ','.join(st + ['p', 'p', 'p']))
            cs.append('E ' + ','.join(st + ['k', 'p', 'i1:4', 'p', 'p']))
        nrand = 700 if tier == 'quick' else 20000
        for _ in range(nrand):
            cs.append(self.rand_EM(rng))
        for _ in range(nrand // 3):
            cs.append(self.rand_EC(rng))
        return cs

    def rand_EM(self, rng):
        fds = rng.sample(range(3, 12), rng.randrange(1, 4))
        now = 1000; used = set(); nt = 0; waiting = {}
        steps = []
        for _ in range(rng.randrange(3, 26)):
            x = rng.random()
            if x < 0.30 and nt < 9:
                nt += 1
                fd = rng.choice(fds); d = rng.choice([1, 1, 2, 2, 4])
                y = rng.random()
                if y < 0.04: d = rng.choice([0, 3, 6])
                if y > 0.98: fd = -1
                if rng.random() < 0.45: tmo = 'inf'
                else:
                    tmo = rng.choice([0, 1, 3, 5, 7, 9, 11, 21, 35])
                    while tmo and (now + tmo) in used: tmo += 2
                    if tmo: used.add(now + tmo)
                steps.append('w%d:%d:%d:%s' % (nt, fd, d, tmo)); waiting[nt] = 1
            elif x < 0.55:
                steps.append('r%d:%d' % (rng.choice(fds), rng.choice(self.MASKS)))
            elif x < 0.78: steps.append('p')
            elif x < 0.84 and nt:
                steps.append('i%d:%d' % (rng.randrange(1, nt + 1), rng.choice([4, 125, 110, 11])))
            elif x < 0.94:
                d = rng.choice([2, 4, 6, 10, 20, 40]); now += d; steps.append('t%d' % d)
            elif x < 0.97: steps.append('k')
            else: steps.append('x%d' % rng.choice(fds))
        return 'E ' + ','.join(steps)

    def rand_EC(self, rng):
        fds = rng.sample(range(3, 30), rng.randrange(1, 9))
        steps = []
        oneshot = 32768 if rng.random() < 0.3 else 0
        for _ in range(rng.randrange(3, 24)):
            x = rng.random()
            if x < 0.3:
                steps.append('a%d:%d:%d' % (rng.choice(fds), rng.choice([1, 2, 3, 4, 1, 2, 7]) | oneshot, rng.choice([2001, 2002, 2003, 2004])))
            elif x < 0.4:
                steps.append('d%d:%d:%d' % (rng.choice(fds), rng.choice([1, 2, 3, 4, 7]) | rng.choice([0, oneshot]), 0))
            elif x < 0.7:
                steps.append('r%d:%d' % (rng.choice(fds), rng.choice(self.MASKS)))
            elif x < 0.97:
                steps.append('c%d:%d' % (rng.choice([0, 2, 3, 4, 6, 16, 48, 64]), rng.choice([2, 10])))
            else: steps.append('x%d' % rng.choice(fds))
        return 'E ' + ','.join(steps)


    # ------------------------------------------------------------------ part 2b: epoll-ng scripts
    def gen_N(self, tier, rng):
        cs = []
        dirs = (1, 2, 4)
        # one waiter, every direction (and every multi-direction mask) x every readiness mask; the event is reaped by one
        # poll and delivered by the next; the same with the waiter timing out / being interrupted / another waiter timing
        # out BETWEEN reap and notify (the stale-pointer window)
        for d in (1, 2, 4, 3, 5, 6, 7):
            for m in (1, 4, 5, 8, 16, 8192, 29):
                cs.append('N w1:5:%d:inf,r5:%d,p,p,p' % (d, m))
                cs.append('N w1:5:%d:7,r5:%d,p,t10,p,p' % (d, m))
                cs.append('N w1:5:%d:inf,r5:%d,p,i1:4,p,p' % (d, m))
                cs.append('N w1:5:%d:inf,w2:6:1:7,r5:%d,p,t10,p' % (d, m))
                cs.append('N w1:5:%d:inf,r5:%d,p,w2:6:2:0,p' % (d, m))
                cs.append('N w1:5:%d:9,r5:%d,t10,p,p' % (d, m))
        # two waiters on one descriptor, every pair of directions (same direction = EEXIST), every order of events
        for d1 in (1, 2, 4, 3, 6):
            for d2 in (1, 2, 4, 5):
                for m in (1, 4, 5, 8, 16):
                    cs.append('N w1:5:%d:inf,w2:5:%d:inf,r5:%d,p,p,r5:%d,p,p,r5:13,p,p' % (d1, d2, m, m ^ 5))
                    cs.append('N w1:5:%d:7,w2:5:%d:inf,t10,r5:%d,p,p,r5:5,p,p' % (d1, d2, m))
                    cs.append('N w1:5:%d:inf,w2:5:%d:9,r5:%d,p,t10,r5:5,p,p' % (d1, d2, m))
                    cs.append('N w1:5:%d:inf,w2:5:%d:inf,i1:4,r5:%d,p,w3:5:%d:inf,p,r5:0,p,r5:5,p,p' % (d1, d2, m, d1))
        # three waiters: reader + writer + a second waiter in one direction (the roll-back of a failed add_interest)
        for d1, d2, d3 in ((1, 2, 2), (1, 2, 4), (1, 4, 4), (2, 4, 4), (1, 2, 1), (2, 1, 1), (4, 1, 1), (3, 4, 4), (1, 6, 2), (1, 6, 4), (5, 2, 2)):
            for m in (1, 4, 5, 8):
                cs.append('N w1:5:%d:inf,w2:5:%d:inf,w3:5:%d:inf,r5:%d,p,p,r5:13,p,p' % (d1, d2, d3, m))
                cs.append('N w1:5:%d:21,w2:5:%d:inf,w3:5:%d:3,r5:%d,p,p,t30,p' % (d1, d2, d3, m))
        # more ready descriptors than one epoll_wait returns (16 slots per poller)
        for n in (15, 16, 17, 20, 33):
            st = ['w%d:%d:%d:inf' % (i + 1, 10 + i, 1 + (i % 2)) for i in range(n)]
            st += ['r%d:5' % (10 + i) for i in range(n)]
            cs.append('N ' + ','.join(st + ['p', 'p', 'p', 'p', 'p', 'p']))
            st = ['w%d:%d:1:%s' % (i + 1, 10 + i, 'inf' if i % 3 else str(5 + 2 * i)) for i in range(n)]
            st += ['r%d:1' % (10 + i) for i in range(n)]
            cs.append('N ' + ','.join(st + ['p', 't40', 'p', 'k', 'p', 'i1:4', 'p', 'p', 'p']))
        nrand = 900 if tier == 'quick' else 25000
        for _ in range(nrand):
            cs.append(self.rand_N(rng))
        return cs

    def rand_N(self, rng):
        fds = rng.sample(range(3, 12), rng.randrange(1, 4))
        now = 1000; used = set(); nt = 0
        steps = []
        style = rng.randrange(3)          # 0: single directions, 1: some multi-direction waiters, 2: heavy sharing of one fd
        if style == 2: fds = fds[:1]
        for _ in range(rng.randrange(3, 28)):
            x = rng.random()
            if x < 0.30 and nt < 9:
                nt += 1
                fd = rng.choice(fds); d = rng.choice([1, 1, 2, 2, 4])
                y = rng.random()
                if style == 1 and y < 0.4: d = rng.choice([3, 5, 6, 7])
                if y < 0.03: d = rng.choice([0, 8])
                if y > 0.985: fd = -1
                if rng.random() < 0.45: tmo = 'inf'
                else:
                    tmo = rng.choice([0, 1, 3, 5, 7, 9, 11, 21, 35])
                    while tmo and (now + tmo) in used: tmo += 2
                    if tmo: used.add(now + tmo)
                steps.append('w%d:%d:%d:%s' % (nt, fd, d, tmo))
            elif x < 0.52:
                steps.append('r%d:%d' % (rng.choice(fds), rng.choice(self.MASKS)))
            elif x < 0.78: steps.append('p')
            elif x < 0.84 and nt:
                steps.append('i%d:%d' % (rng.randrange(1, nt + 1), rng.choice([4, 125, 110, 11])))
            elif x < 0.95:
                d = rng.choice([2, 4, 6, 10, 20, 40]); now += d; steps.append('t%d' % d)
            elif x < 0.98: steps.append('k')
            else: steps.append('x%d' % rng.choice(fds))
        return 'N ' + ','.join(steps)

    # ------------------------------------------------------------------ part 3: real kernel sockets (search oracle only)
    def gen_R(self, tier, rng):
        cs = []
        n = 10 if tier == 'quick' else 120
        for i in range(n):
            eng = 'epoll' if i % 3 != 2 else 'epollng'
            tr = 'u' if i % 2 == 0 else 't'
            total = rng.choice([0, 1, 5000, 40000, 150000, 300000]) if tier == 'quick' else rng.choice([0, 1, 5000, 40000, 300000, 2000000])
            shut = -1 if rng.random() < 0.5 else rng.randrange(0, total + 1)
            cs.append('R %s %s %d %d %d %d %d %d' % (eng, tr, rng.randrange(1 << 30), rng.choice([1, 2, 3]), total,
                                                     rng.choice([1024, 2048, 4096, 16384]), shut, 1 if i % 4 == 0 else 0))
        return cs

    # ------------------------------------------------------------------ parsing
    def _parse_D(self, case):
        f = case.split(' ')
        op = f[1]; tmo = None if f[2] == 'inf' else int(f[2]); flags = int(f[3])
        lens = [] if f[4] == '-' else [int(x) for x in f[4].split(',')]
        sys = [] if f[5] == '-' else f[5].split(',')
        wt = [] if f[6] == '-' else f[6].split(',')
        return op, tmo, flags, lens, sys, wt

    def nontrivial(self, case):
        if case[0] == 'D':
            op, tmo, flags, lens, sys, wt = self._parse_D(case)
            total = lens[1] if op == 'sendfile' else sum(lens)
            if any(s in ('e11', 'e4') for s in sys): return True
            if op != 'sendfile' and any(l == 0 for l in lens) and total > 0: return True
            first = next((int(s[1:]) for s in sys if s[0] == 'r'), None)
            return first is not None and 0 < first < total
        if case[0] == 'E':
            st = case.split(' ')[1].split(',')
            ws = [x[1:].split(':') for x in st if x[0] == 'w']
            fds = [w[1] for w in ws]
            return len(set(fds)) < len(fds) or sum(1 for x in st if x[0] == 'r') > 16 or any(x[0] == 'c' for x in st)
        if case[0] == 'N':
            st = case.split(' ')[1].split(',')
            ws = [x[1:].split(':') for x in st if x[0] == 'w']
            fds = [w[1] for w in ws]
            if len(set(fds)) < len(fds) or len(ws) > 16: return True
            # a timeout / interrupt after a poll: the window between reap and notify
            seen_p = False
            for x in st:
                if x[0] == 'p': seen_p = True
                elif x[0] in 'ti' and seen_p: return True
            return False
        return True

    def category(self, case):
        if case[0] == 'D':
            op, tmo, flags, lens, sys, wt = self._parse_D(case)
            tags = [op]
            if op != 'sendfile' and any(l == 0 for l in lens): tags.append('empty-iov')
            if 'e11' in sys: tags.append('eagain')
            if 'e4' in sys: tags.append('eintr')
            if 'r0' in sys: tags.append('eof')
            if tmo is not None: tags.append('deadline')
            return 'D:' + '+'.join(tags)
        if case[0] == 'E':
            st = case.split(' ')[1].split(',')
            if any(x[0] in 'adc' for x in st): return 'E:cascading' + ('+oneshot' if any(x[0] == 'a' and int(x.split(':')[1]) & 32768 for x in st) else '')
            ws = [x[1:].split(':') for x in st if x[0] == 'w']
            tags = ['E:master']
            if len(set((w[1]) for w in ws)) < len(ws): tags.append('shared-fd')
            if any(w[3] != 'inf' for w in ws): tags.append('timeout')
            if any(x[0] == 'i' for x in st): tags.append('interrupt')
            if len(ws) > 16: tags.append('batch>16')
            return '+'.join(tags)
        if case[0] == 'N':
            st = case.split(' ')[1].split(',')
            ws = [x[1:].split(':') for x in st if x[0] == 'w']
            tags = ['N:epoll-ng']
            if len(set((w[1]) for w in ws)) < len(ws): tags.append('shared-fd')
            if any(int(w[2]) not in (0, 1, 2, 4, 8) for w in ws): tags.append('multi-dir')
            if any(w[3] != 'inf' for w in ws): tags.append('timeout')
            if any(x[0] == 'i' for x in st): tags.append('interrupt')
            if len(ws) > 16: tags.append('batch>16')
            return '+'.join(tags)
        return case.split(' ', 1)[0]

    def known_class(self, case):
        return None

    def extra(self, ctx):
        # known finding F32 is recognised by its exact pattern inside oracle_E (not by a case class), so that any other
        # violation in the same case is still reported
        self.extra_coverage = dict(known_finding_hits=dict(self.known_hits), known_finding_first_case=dict(self.known_first))
        # (the KNOWN-FINDING line is printed by DiffCheck from known_findings.json, entry F32)
        return []

    # ------------------------------------------------------------------ the property, on the implementation's output
    def oracle(self, case, out):
        if out.startswith('CRASH'): return 'implementation crashed: ' + out
        if case[0] == 'D': return self.oracle_D(case, out)
        if case[0] == 'E': return self.oracle_E(case, out)
        if case[0] == 'N': return self.oracle_N(case, out)
        if case[0] == 'R': return None if out == 'R ok' else 'real-kernel socket run: ' + out
        return None

    def oracle_D(self, case, out):
        op, tmo, flags, lens, sys, wt = self._parse_D(case)
        if out == 'SCRIPTEND': return None
        if out == 'HANG':
            if tmo is None and 'n' in wt: return None
            return 'the call blocks forever although the stream has a timeout / an event was scripted'
        m = re.match(r'ret=(-?\d+) errno=(\d+) el=(\d+) log=(\S*) data=(\S*) wire=(\S*) guard=(\d) iovkept=(\d)$', out)
        if not m: return 'unparsable output: %r' % out[:200]
        ret, err, el = int(m.group(1)), int(m.group(2)), int(m.group(3))
        log = [e for e in m.group(4).split(';') if e]
        data, wire_hex = m.group(5), m.group(6)
        if m.group(7) != '1': return 'memory outside the requested buffers was modified'
        if m.group(8) != '1': return "the caller's iovec array was modified"
        if op == 'sendfile':
            req = list(range(lens[0], lens[0] + lens[1]))
        elif op in ('read', 'write', 'recv', 'send'):
            req = list(range(0, lens[0] if lens else 0))
        else:
            req = [i * STRIDE + o for i, l in enumerate(lens) for o in range(l)]
        total = len(req)
        moved = []
        last = None          # ('sys', r) / ('wait', a)
        elapsed = 0
        nsys_ok = 0
        nwait = 0
        for ev in log:
            if ev[0] == 'S':
                head, r = ev[1:].rsplit('=', 1); r = int(r)
                kind, fl, vs = head.split(',', 2)
                view = []
                for p in vs.split('/'):
                    if p:
                        b, l = p.split('+'); view.append((int(b), int(l)))
                addrs = [b + o for b, l in view for o in range(l)]
                if op in LOOPOPS:
                    if addrs != req[len(moved):len(moved) + len(addrs)] or (len(moved) + len(addrs) > total):
                        return 'syscall asked for bytes that are not the next un-moved bytes of the request: view %s after %d bytes' % (view, len(moved))
                    if len(moved) == total and total > 0:
                        return 'a syscall was issued after the full count had been moved'
                    if len(addrs) == 0 and total - len(moved) > 0:
                        return 'zero-length syscall while %d bytes remain (indistinguishable from EOF)' % (total - len(moved))
                    if op in ('readv', 'writev') and len(addrs) != total - len(moved):
                        return 'vector syscall does not offer all remaining bytes'
                else:
                    if addrs != req: return 'one-shot call passed a different buffer list to the kernel'
                if r >= 0:
                    if r > len(addrs): return 'harness error: kernel moved more than requested'
                    moved += addrs[:r]; nsys_ok += 1
                last = ('sys', r, len(addrs))
            else:
                head, a = ev[1:].rsplit('=', 1); a = int(a)
                kind, rem = head.split(',')
                rem = int(rem)
                if tmo is None or op == 'sendfile':
                    if rem != -1: return 'wait with a finite timeout although the stream has none'
                else:
                    if rem != max(0, tmo - elapsed):
                        return 'wait was given timeout %d, but %d of the stream timeout %d had already elapsed (deadline not fixed per call)' % (rem, elapsed, tmo)
                wk = 2 if op in SENDING else 1
                if int(kind) != wk: return 'waited for the wrong direction'
                w = wt[nwait] if nwait < len(wt) else 'n'; nwait += 1
                if a == 1: elapsed += max(rem, 0)
                elif w[0] in 'wx': elapsed += int(w[1:].split(':')[0])
                last = ('wait', a)
        if moved != req[:len(moved)]: return 'bytes moved are not a prefix of the request in order'
        n = len(moved)
        # timeouts
        if tmo is not None and op != 'sendfile' and el > tmo:
            return 'blocked for %d > stream timeout %d' % (el, tmo)
        # data really moved
        if op in SENDING:
            exp = ''.join('%02x' % content(a) for a in moved)
            if wire_hex != exp: return 'bytes handed to the kernel differ from the request prefix (dup/loss/reorder)'
        else:
            flat = data.replace('/', '')
            exp = ''.join('%02x' % src_byte(j) for j in range(n)) + ('%02x' % FILL) * (total - n)
            if flat != exp: return 'receive buffers do not hold the peer stream prefix exactly once in order'
        # return value
        if last is None: return 'no syscall was made'
        if last[0] == 'wait':
            if last[1] == 0: return 'returned right after a successful wait without retrying'
            want_errno = 110 if last[1] == 1 else None
            if ret != -1: return 'timeout/interrupt during the call but return value is %d, not -1' % ret
            if want_errno and err != want_errno: return 'timeout but errno=%d' % err
            if last[1] == 2:
                we = [w for w in wt if w[0] == 'x']
                if not any(int(w.split(':')[1]) == err for w in we): return "interrupted but errno=%d is not the interrupter's" % err
            return None
        r, asked = last[1], last[2]
        if r < 0:
            if -r in (4, 11): return 'returned after EINTR/EAGAIN without retry/wait'
            if ret != -1 or err != -r: return 'kernel error %d but ret=%d errno=%d' % (-r, ret, err)
            return None
        if op in LOOPOPS:
            if r == 0 and asked > 0:
                if ret != n: return 'EOF after %d bytes but ret=%d' % (n, ret)
                return None
            if n != total: return 'returned %d with only %d of %d bytes moved and no EOF/error/timeout' % (ret, n, total)
            if ret != total: return 'all %d bytes moved but ret=%d' % (total, ret)
            return None
        # recv/send: at most requested, at least one unless EOF
        if ret != r: return 'recv/send returned %d, kernel moved %d' % (ret, r)
        if ret > total: return 'recv/send returned more than requested'
        if nsys_ok != 1: return 'recv/send made %d successful syscalls' % nsys_ok
        return None


    # part 2: a specification-level reference of "who must wake with what", evaluated on the implementation's log,
    # plus the kernel arming reconstructed from the logged epoll_ctl / epoll_wait calls
    RB, WB, EB = 8217, 28, 8
    def oracle_E(self, case, out):
        if out.startswith('HARNESS-BAD'): return 'harness invariant broken: ' + out[:200]
        m = re.match(r'log=(\S*) tab=(\S*) size=(\d+) kern=(\S*) batch=(\S*) blocked=(\S*) now=(\d+)$', out)
        if not m: return 'unparsable output: %r' % out[:200]
        steps = case.split(' ')[1].split(',')
        self._pend = []          # cascading: kernel events fetched by the engine and not yet handed out, [(fd, events)] in kernel order
        chunks = m.group(1).split('|')
        init, chunks = chunks[0], chunks[1:]
        if len(chunks) != len(steps): return 'log has %d step sections for %d steps' % (len(chunks), len(steps))
        dirbits = {1: self.RB, 2: self.WB, 4: self.EB}
        evbits = {1: 1 | 8192, 2: 4, 4: 8}
        now = 1000
        ready = {}            # fd -> mask
        wait = {}             # t -> dict(fd, d, dl, orphan)
        kern = {}             # fd -> [events, armed]   reconstructed from the log
        reg = {}              # cascading: (fd, bit) -> data
        seen = set()
        tainted = set()
        def apply_kernel(ev):
            if ev.startswith('C'):
                head, res = ev[1:].split('='); op, fd, e = [int(x) for x in head.split(',')]
                if int(res) == 0:
                    if op in (1, 3): kern[fd] = [e, True]
                    elif op == 2: kern.pop(fd, None)
            elif ev.startswith('P['):
                for it in ev[2:-1].split(','):
                    if it:
                        fd, e = [int(x) for x in it.split(':')]
                        if fd in kern and (kern[fd][0] & ((1 << 30) | (1 << 31))): kern[fd][1] = False
        for ev in [e for e in init.split(';') if e]: apply_kernel(ev)
        for tok, chunk in zip(steps, chunks):
            evs = [e for e in chunk.split(';') if e]
            readable = any(k[1] and (ready.get(fd, 0) & ((k[0] & (1 | 4 | 8192)) | 8 | 16)) for fd, k in kern.items())
            res = {}
            reported = {}
            for ev in evs:
                apply_kernel(ev)
                if ev[0] == 'T':
                    t, r = ev[1:].split('='); ret, err = r.split('/')
                    if int(t) in res: return 'thread %s returned twice' % t
                    res[int(t)] = (int(ret), int(err))
                elif ev.startswith('P['):
                    for it in ev[2:-1].split(','):
                        if it:
                            fd, e = [int(x) for x in it.split(':')]; reported[fd] = reported.get(fd, 0) | e
            c = tok[0]; a = tok[1:].split(':') if len(tok) > 1 else []
            A = lambda i: -1 if a[i] == 'inf' else int(a[i])
            expect = {}           # t -> (ret, errno) that MUST be returned in this step
            may = {}              # t -> allowed alternative
            if c == 'w':
                t, fd, d, tmo = A(0), A(1), A(2), A(3)
                seen.add(t)
                dl = None if tmo < 0 else now + tmo
                if fd < 0 or (d & (d - 1)): expect[t] = (-1, 22)
                elif fd in tainted:
                    if t in res: expect[t] = res[t]
                    else: wait[t] = dict(fd=fd, d=d, dl=dl, orphan=True, held=True)
                elif d == 0:
                    if t not in res: return 'wait_for_fd(fd, 0) did not return'
                    for w in wait.values():
                        if w['fd'] == fd: w['orphan'] = True; tainted.add(fd)    # interests removed under a waiter: outside the domain
                    expect[t] = res[t]
                elif any(w['fd'] == fd and w['d'] == d and w['held'] for w in wait.values()):
                    expect[t] = (-1, 114)
                elif tmo == 0: expect[t] = (-1, 110)
                else: wait[t] = dict(fd=fd, d=d, dl=dl, orphan=False, held=True)
            elif c == 'r': ready[A(0)] = A(1)
            elif c == 'x':
                fd = A(0); ready[fd] = 0; kern.pop(fd, None)
                for w in wait.values():
                    if w['fd'] == fd: w['orphan'] = True; tainted.add(fd)    # closed under a waiter: outside the property's domain
            elif c == 'p':
                self._pend = []       # wait_and_fire_events (fdcb == true) hands out every fetched event
                should = [t for t, w in wait.items() if not w['orphan'] and (ready.get(w['fd'], 0) & dirbits[w['d']])]
                nfd = len(set(wait[t]['fd'] for t in should))
                for t, (ret, err) in res.items():
                    if ret == 0:
                        w = wait.get(t)
                        if w is None: return 'thread %d woken but it was not waiting' % t
                        if w['fd'] in tainted: continue
                        if not (reported.get(w['fd'], 0) & dirbits[w['d']]):
                            return 'thread %d (fd %d dir %d) woken by an event that is not for its descriptor/direction (kernel reported %s)' % (t, w['fd'], w['d'], reported)
                        if not (ready.get(w['fd'], 0) & dirbits[w['d']]) and not w['orphan']:
                            return 'thread %d woken although its descriptor is not ready in its direction' % t
                if nfd <= 15:
                    for t in should: expect[t] = (0, 0)
                else:
                    if not any(t in res for t in should): return 'no waiter woken although %d descriptors are ready' % nfd
                for t in list(res):
                    if res[t][0] == 0 and t in wait and t not in expect: expect[t] = (0, 0)   # orphan woken legitimately (checked above)
            elif c == 'i':
                t, e = A(0), A(1)
                if t in wait: expect[t] = (-1, e)
            elif c == 't':
                now += A(0)
                for t, w in wait.items():
                    if w['dl'] is not None and w['dl'] <= now: expect[t] = (-1, 110)
            elif c in 'adc':
                if c == 'c' and not readable: now += A(1)      # the epoll fd was not readable: the call timed out
                r = self._oracle_EC_step(c, a, evs, reg, readable)
                if r: return r
            if c in 'wpitkxr':
                for t, e in expect.items():
                    if t not in res: return 'step %s: thread %d should have returned %s but stays blocked (lost event/timeout)' % (tok, t, e)
                    if res[t] != e: return 'step %s: thread %d returned %s, expected %s' % (tok, t, res[t], e)
                for t in res:
                    if t not in expect: return 'step %s: thread %d returned %s although nothing happened for it (cross-talk)' % (tok, t, res[t])
                for t in res: wait.pop(t, None)
                # engine_kernel_agree / no_cross_talk: every remaining (non-orphan) waiter is armed in the kernel
                for t, w in wait.items():
                    if w['orphan']: continue
                    k = kern.get(w['fd'])
                    rep = reported.get(w['fd'], 0)
                    if w['d'] == 4 and k is not None and not k[1] and (rep & 16) and not (rep & 8):
                        # known finding F32: EPOLLHUP (always reported by the kernel) consumes the one-shot arming of an
                        # EVENT_ERROR waiter without waking it (HUP is not in ERRBIT) and nothing re-arms the descriptor
                        w['orphan'] = True
                        self.known_hits['F32'] = self.known_hits.get('F32', 0) + 1
                        self.known_first.setdefault('F32', case)
                        continue
                    if k is None or not k[1] or (k[0] & evbits[w['d']]) != evbits[w['d']] or not (k[0] & (1 << 30)):
                        return 'after step %s: thread %d waits for fd %d dir %d but the kernel entry is %s (not armed for it)' % (tok, t, w['fd'], w['d'], k)
        blocked = sorted(int(x) for x in m.group(6).split(',') if x)
        if blocked != sorted(wait): return 'threads blocked at the end %s, expected %s' % (blocked, sorted(wait))
        if int(m.group(7)) != now: return 'virtual clock ended at %s, expected %d' % (m.group(7), now)
        if any(c[0] in 'wpit' for c in steps) and m.group(5): return '_events_remain not drained by wait_and_fire_events'
        if any(c[0] == 'c' for c in steps):
            # batch_boundary_leftover_kept: what was fetched and not handed out is still there, unchanged and in order
            want = ','.join('%d:%d' % fe for fe in self._pend)
            if m.group(5) != want: return 'events left in the batch at the end are [%s], the logged epoll_wait / wait_for_events calls imply [%s]' % (m.group(5), want)
        if any(c[0] in 'adc' for c in steps) and not any(c[0] == 'w' for c in steps):
            # the engine's table holds exactly the registrations the (fd, direction)-keyed reference holds
            tab = {}
            for it in [x for x in m.group(2).split(',') if x]:
                fd, ints, rd, wd, ed = [int(x) for x in it.split(':')]
                for b, d in ((1, rd), (2, wd), (4, ed)):
                    if ints & b: tab[(fd, b)] = (d, bool(ints & 32768))
                    elif d: return 'table entry of fd %d keeps data %d for direction %d which is not registered' % (fd, d, b)
            if tab != reg: return 'registrations at the end are %s, the successful add_interest / rm_interest calls and the deliveries imply %s' % (sorted(tab.items()), sorted(reg.items()))
        return None


    # part 2b: epoll-ng.  Specification-level reference evaluated on the implementation's log: who may / must return
    # with what, and the four kernel interest lists reconstructed from the logged epoll_ctl / epoll_wait calls.
    NDIR = {1: 1, 2: 2, 3: 4}                                  # poller index -> photon direction bit
    NBITS = {1: 8217, 2: 28, 3: 24}                            # what may be reported through poller p: READBITS, WRITEBITS, ERR|HUP
    NEV = {1: 1 | 8192, 2: 4, 3: 8}                            # the epoll events a registration in poller p must request
    def oracle_N(self, case, out):
        if out.startswith('HARNESS-BAD'): return 'harness invariant broken: ' + out[:200]
        m = re.match(r'log=(\S*) k0=(\S*) k1=(\S*) k2=(\S*) k3=(\S*) rem=(\S*) blocked=(\S*) now=(\d+) stale=(\d)$', out)
        if not m: return 'unparsable output: %r' % out[:200]
        if m.group(9) != '0': return 'the kernel handed out the Event pointer of a waiter that had already returned (stale waiter access)'
        steps = case.split(' ')[1].split(',')
        chunks = m.group(1).split('|')
        init, chunks = chunks[0], chunks[1:]
        if len(chunks) != len(steps): return 'log has %d step sections for %d steps' % (len(chunks), len(steps))
        now = 1000
        ready = {}
        wait = {}                         # t -> dict(fd, ints, dl, orphan)
        kern = {0: {}, 1: {}, 2: {}, 3: {}}   # p -> fd -> [events, armed, data]
        pending = {1: [], 2: [], 3: []}   # reaped by poller p, not yet delivered
        reported = {}                     # t -> set of pollers that reported it while it waited
        tainted = set()
        order = {0: [], 1: [], 2: [], 3: []}
        def apply_ctl(ev):
            head, res = ev[1:].split('='); p, op, fd, e, d = [int(x) for x in head.split(',')]
            if int(res) == 0:
                if op == 1: kern[p][fd] = [e, True, d]; order[p].append(fd)
                elif op == 3: kern[p][fd] = [e, True, d]
                elif op == 2:
                    kern[p].pop(fd, None)
                    if fd in order[p]: order[p].remove(fd)
            return p, op, fd, e, d, int(res)
        for ev in [e for e in init.split(';') if e]:
            if ev[0] == 'K': apply_ctl(ev)
        want0 = {911: [1, True, 1], 912: [1, True, 2], 913: [1, True, 3], 901: [1, True, 4]}
        if kern[0] != want0: return 'init() did not register the three sub-pollers and the eventfd in the engine poller: %s' % kern[0]
        for si, (tok, chunk) in enumerate(zip(steps, chunks)):
            evs = [e for e in chunk.split(';') if e]
            c = tok[0]; a = tok[1:].split(':') if len(tok) > 1 else []
            A = lambda i: -1 if a[i] == 'inf' else int(a[i])
            expect = {}            # t -> (ret, errno|None) that MUST be returned in this step
            engine_call = (c == 'p')
            newt = None
            if c == 'w':
                t, fd, d, tmo = A(0), A(1), A(2), A(3)
                newt = t
                if t in wait or t in reported: return 'harness/generator error: thread id %d reused' % t
                dl = None if tmo < 0 else now + tmo
                if d == 0: expect[t] = (0, 0)
                elif fd < 0: expect[t] = (-1, 22)
                else:
                    confl = [u for u, w in wait.items() if w['fd'] == fd and (w['ints'] & d & 7)]
                    if any(not wait[u]['orphan'] for u in confl) and fd not in tainted: expect[t] = (-1, None)
                    elif confl or fd in tainted:
                        wait[t] = dict(fd=fd, ints=d, dl=dl, orphan=True)         # may or may not have been registered
                        tainted.add(fd)
                    else:
                        wait[t] = dict(fd=fd, ints=d, dl=dl, orphan=False)
                        if tmo == 0: expect[t] = (-1, 110); engine_call = True
            elif c == 'r': ready[A(0)] = A(1)
            elif c == 'x':
                fd = A(0); ready[fd] = 0
                for p in range(4):
                    kern[p].pop(fd, None)
                    if fd in order[p]: order[p].remove(fd)
                for w in wait.values():
                    if w['fd'] == fd: w['orphan'] = True
                tainted.add(fd)                                               # closed under a waiter: outside the property's domain
            elif c == 'i':
                t, e = A(0), A(1)
                if t in wait: expect[t] = (-1, e); engine_call = True
            elif c == 't':
                now += A(0)
                for t, w in wait.items():
                    if w['dl'] is not None and w['dl'] <= now: expect[t] = (-1, 110); engine_call = True
            old_pending = set(t for p in pending for t in pending[p])
            returned = {}
            polled = False
            # ---- walk through the step's log in order
            for i, ev in enumerate(evs):
                if ev[0] == 'K':
                    p, op, fd, e, d, res = apply_ctl(ev)
                    if p == 0: return 'epoll_ctl on the engine poller after init: %s' % ev
                    if op == 1 and res == 0:
                        if d != newt: return 'a registration was added with data of thread %s during step %s' % (d, tok)
                        if c != 'w' or fd != A(1) or not (A(2) & self.NDIR[p]):
                            return 'step %s: thread %s registered fd %d in poller %d which is not what it asked for' % (tok, d, fd, p)
                        if (e & self.NEV[p]) != self.NEV[p] or not (e & (1 << 30)) or (e & 0x3fffffff & ~(self.NEV[p])):
                            return 'step %s: registration in poller %d with events %#x' % (tok, p, e)
                elif ev[0] == 'Q':
                    p = int(ev[1]); items = [x for x in ev[3:-1].split(',') if x]
                    rep = [[int(y) for y in x.split(':')] for x in items]
                    if p == 0:
                        polled = True
                        if any(pending[q] for q in pending):
                            return 'step %s: the engine polled the kernel while reaped events were still undelivered: %s' % (tok, pending)
                        # the thread whose failure tail makes this call (if any) has already removed its registrations
                        tail = None
                        if c != 'p':
                            for ev2 in evs[i + 1:]:
                                if ev2[0] == 'T' and ev2.split('=')[1].startswith('-1'): tail = int(ev2[1:].split('=')[0]); break
                        subs = set(fd - 910 for fd, e, d in rep if 911 <= fd <= 913)
                        self._n_should = {}
                        for q in (1, 2, 3):
                            sh = [t for t, w in wait.items() if t != tail and t not in returned and not w['orphan'] and w['fd'] not in tainted
                                  and (w['ints'] & self.NDIR[q]) and (ready.get(w['fd'], 0) & self.NBITS[q])]
                            self._n_should[q] = sh
                            if sh and q not in subs:
                                return 'step %s: threads %s wait for a ready descriptor in direction %d but the engine poller does not report poller %d (lost event)' % (tok, sh, self.NDIR[q], q)
                        self._n_subs = subs
                        for fd, e, d in rep:
                            if fd == 901: continue
                            if not (911 <= fd <= 913) or d != fd - 910: return 'engine poller reported %s' % ev
                    else:
                        if p not in getattr(self, '_n_subs', set()): return 'step %s: poller %d reaped although the engine poller did not report it' % (tok, p)
                        got = [d for fd, e, d in rep]
                        for fd, e, d in rep:
                            w = wait.get(d)
                            k = kern[p].get(fd)
                            if k: k[1] = False                                    # EPOLLONESHOT: disarmed by the report
                            if fd in tainted: continue
                            if w is None or d in returned: return 'step %s: poller %d reported data of thread %s which is not waiting (stale waiter)' % (tok, p, d)
                            if w['fd'] != fd or not (w['ints'] & self.NDIR[p]):
                                return 'step %s: poller %d reported fd %d for thread %d which waits for fd %d interests %d' % (tok, p, fd, d, w['fd'], w['ints'])
                            if not (e & self.NBITS[p]) or (e & ~ready.get(fd, 0)): return 'step %s: poller %d reported events %d, readiness is %d' % (tok, p, e, ready.get(fd, 0))
                            reported.setdefault(d, set()).add(p)
                        sh = self._n_should.get(p, [])
                        miss = [t for t in sh if t not in got]
                        if miss and len(got) < 16:
                            return 'step %s: thread(s) %s wait for a ready descriptor (direction %d) but poller %d did not report them: registration lost' % (tok, miss, self.NDIR[p], p)
                        pending[p] += got
                elif ev[0] == 'T':
                    t, r = ev[1:].split('='); t = int(t); ret, err = [int(x) for x in r.split('/')]
                    if t in returned: return 'thread %d returned twice' % t
                    returned[t] = (ret, err)
                    w = wait.get(t)
                    for p in pending: pending[p] = [x for x in pending[p] if x != t]
                    if t in expect and (ret, err) == (expect[t][0], err if expect[t][1] is None else expect[t][1]):
                        continue
                    if w is not None and t == newt and w['orphan']: continue      # a waiter on a descriptor outside the domain
                    if ret == 0 and w is not None:
                        if w['orphan'] or w['fd'] in tainted: continue
                        if not reported.get(t):
                            return 'step %s: thread %d (fd %d interests %d) returned 0 although the kernel never reported an event for it (cross-talk)' % (tok, t, w['fd'], w['ints'])
                        continue
                    if t in expect: return 'step %s: thread %d returned %s, expected %s' % (tok, t, (ret, err), expect[t])
                    return 'step %s: thread %d returned %s although nothing happened for it (cross-talk)' % (tok, t, (ret, err))
                elif ev[0] == 'N':
                    pass
                elif ev[0] == 'U': return 'engine caught an unknown event: ' + ev
            for t, e in expect.items():
                if t not in returned: return 'step %s: thread %d should have returned %s but stays blocked (lost event/timeout)' % (tok, t, e)
            for t in returned: wait.pop(t, None)
            # every event that had been reaped before this step is delivered by the first engine call after it
            if engine_call:
                late = [t for p in pending for t in pending[p] if t in old_pending]
                if late: return 'step %s: thread(s) %s had their event reaped earlier but were not notified by this wait_and_fire_events' % (tok, late)
                if c == 'p' and not polled and not any(r[0] == 0 for r in returned.values()):
                    return 'step %s: wait_and_fire_events neither delivered nor polled' % tok
            # known finding F40: the roll-back of a FAILED add_interest deletes the registration of ANOTHER waiter in a
            # direction the failing call never added (DEFER `if (ret < 0) rpoller.rm(...)` declared unconditionally)
            if c == 'w' and newt in returned and returned[newt][0] == -1 and A(1) >= 0:
                failed = None
                for ev in evs:
                    if ev[0] != 'K': continue
                    head, res = ev[1:].split('='); p, op, fd, e, d = [int(x) for x in head.split(',')]
                    if op == 1 and int(res) != 0: failed = p
                    elif op == 2 and int(res) == 0 and failed is not None and p < failed and not (A(2) & self.NDIR[p]) and fd == A(1):
                        hit = False
                        for u, w in wait.items():
                            if w['fd'] == fd and (w['ints'] & self.NDIR[p]) and not w['orphan']:
                                w['orphan'] = True; hit = True
                        if hit:
                            self.known_hits['F40'] = self.known_hits.get('F40', 0) + 1
                            self.known_first.setdefault('F40', case)
            # no_cross_talk / engine_kernel_agree: every remaining waiter still has ITS registration, armed or reaped
            for t, w in wait.items():
                if w['orphan'] or w['fd'] in tainted: continue
                for p in (1, 2, 3):
                    if not (w['ints'] & self.NDIR[p]): continue
                    k = kern[p].get(w['fd'])
                    if k is None or k[2] != t or (k[0] & self.NEV[p]) != self.NEV[p] or not (k[0] & (1 << 30)):
                        return 'after step %s: thread %d waits for fd %d direction %d but the kernel entry in poller %d is %s (registration lost or not its own)' % (tok, t, w['fd'], self.NDIR[p], p, k)
                    if not k[1] and t not in pending[p]:
                        return 'after step %s: thread %d waits for fd %d direction %d, its entry is disarmed and no event is pending for it' % (tok, t, w['fd'], self.NDIR[p])
        blocked = sorted(int(x) for x in m.group(7).split(',') if x)
        if blocked != sorted(wait): return 'threads blocked at the end %s, expected %s' % (blocked, sorted(wait))
        if int(m.group(8)) != now: return 'virtual clock ended at %s, expected %d' % (m.group(8), now)
        rem = m.group(6).split('/')
        if rem[0]: return 'engine poller has undelivered entries at the end'
        if not tainted:
            for p in (1, 2, 3):
                got = [int(x) for x in rem[p].split(',') if x]
                if sorted(got) != sorted(pending[p]): return 'poller %d holds reaped events %s, the log implies %s' % (p, got, pending[p])
                fin = [x for x in m.group(2 + p).split(',') if x]
                want = ['%d:%d:%d:%d' % (fd, kern[p][fd][0], int(kern[p][fd][1]), kern[p][fd][2]) for fd in order[p]]
                if fin != want: return 'final interest list of poller %d is %s, the logged epoll_ctl/epoll_wait calls imply %s' % (p, fin, want)
        return None

    # Cascading API (add_interest / rm_interest / wait_for_events(data, count, timeout)): an exact event-level reference.
    # The bookkeeping is keyed by (fd, direction) -- NOT by the user `data`, which callers may register on several
    # descriptors / directions at once -- and by the kernel events the engine has fetched but not yet handed out
    # (`self._pend`, the logged `P[...]` of the last epoll_wait in kernel order; the engine takes them from the END):
    #   * a call that finds the epoll descriptor not readable times out: no poll, nothing delivered (leftovers stay);
    #   * otherwise leftovers are handed out BEFORE the kernel is polled again (batch_boundary_leftover_kept), and the
    #     kernel is polled exactly once iff there are none;
    #   * events are consumed while >= 3 slots are free (a descriptor gets all its directions in one call); what ONE
    #     consumed event delivers is exactly the data registered -- at the time it is handed out -- on THAT descriptor in
    #     the directions whose bits intersect the event as the kernel reported it, ERROR / READ / WRITE in that order
    #     (fire_only_registered);
    #   * a one-shot descriptor loses exactly the directions that fired (unless the re-arming EPOLL_CTL_MOD failed
    #     because the descriptor was closed behind the engine's back: rm_interest then leaves the entry untouched).
    def _oracle_EC_step(self, c, a, evs, reg, readable):
        A = lambda i: int(a[i])
        dirbits = {1: self.RB, 2: self.WB, 4: self.EB}
        call = [e for e in evs if e[0] in 'ADV']
        if len(call) != 1: return 'cascading call did not return exactly once'
        call = call[0]
        if c == 'a':
            if call == 'A=0':
                for b in (1, 2, 4):
                    if A(1) & b: reg[(A(0), b)] = (A(2), bool(A(1) & 32768))
        elif c == 'd':
            if call == 'D=0':
                for b in (1, 2, 4):
                    if A(1) & b: reg.pop((A(0), b), None)
                if A(1) & 32768:        # rm_interest with ONE_SHOT in the mask strips the one-shot mode of what remains on the fd
                    for key in list(reg):
                        if key[0] == A(0): reg[key] = (reg[key][0], False)
        else:
            mm = re.match(r'V=(-?\d+)\[(.*)\]$', call)
            n = int(mm.group(1)); out = [int(x) for x in mm.group(2).split(',') if x]
            if n != len(out): return 'wait_for_events returned %d but wrote %d data' % (n, len(out))
            if n > A(0): return 'wait_for_events wrote %d data into %d slots' % (n, A(0))
            pend = self._pend
            polls = [[tuple(int(x) for x in it.split(':')) for it in e[2:-1].split(',') if it] for e in evs if e.startswith('P[')]
            modfail = set()
            for e in evs:
                if e[0] == 'C':
                    head, res = e[1:].split('='); op, fd, _ = [int(x) for x in head.split(',')]
                    if op == 3 and int(res) != 0: modfail.add(fd)
            if not readable:
                if polls: return 'wait_for_events polled the kernel although its wait for the epoll descriptor timed out'
                if out: return 'wait_for_events delivered %s although its wait for the epoll descriptor timed out' % out
                return None
            if pend:
                if polls:
                    return 'wait_for_events polled the kernel while %d fetched event(s) %s were still undelivered (leftover of the batch lost)' % (len(pend), pend)
            else:
                if len(polls) != 1: return 'wait_for_events polled the kernel %d times (epoll descriptor readable, no leftover)' % len(polls)
                if len(polls[0]) > 16: return 'epoll_wait returned more than 16 events'
                pend[:] = polls[0]
            exp = []; used = []
            while pend and A(0) - len(exp) >= 3:
                fd, e = pend.pop()
                if fd == 901: continue                       # the engine's own eventfd (cancel_wait)
                fired = [b for b in (4, 1, 2) if (e & dirbits[b]) and (fd, b) in reg]
                exp += [reg[(fd, b)][0] for b in fired]
                used.append('%d:%d->%s' % (fd, e, [reg[(fd, b)][0] for b in fired]))
                if fired and any(os for (f, b), (d, os) in reg.items() if f == fd) and fd not in modfail:
                    for b in fired: reg.pop((fd, b))         # one-shot interests are consumed by delivery
            if out != exp:
                for d in out:
                    if d not in exp: return 'wait_for_events delivered data %d which has no ready registered interest (delivered %s; the consumed kernel events imply %s)' % (d, out, used)
                return ('wait_for_events(count=%d) delivered %s, but the kernel events it has to consume (from the end of the fetched batch, while >= 3 slots are free) '
                        'and the registrations imply %s = %s' % (A(0), out, used, exp))
        return None

    def neighbours(self, case, rng):
        out = []
        if case[0] == 'D':
            op, tmo, flags, lens, sys, wt = self._parse_D(case)
            for i in range(len(sys)):
                out.append(dcase(op, tmo, flags, lens, sys[:i] + sys[i + 1:], wt))
            for i in range(len(lens)):
                if lens[i] > 0:
                    l2 = list(lens); l2[i] -= 1; out.append(dcase(op, tmo, flags, l2, sys, wt))
        return out


if __name__ == '__main__':
    sys.exit(Check().main(sys.argv[1:]))
