# C07 — lock-free ring queues and RingChannel: models coq/C07, harness harness/C07, engine E3
# (lock-step atomic-step replay: the real header, every std::atomic access instrumented, run under a
# token-passing controller on a schedule; the Coq step model replays the same schedule; logs compared).
import re, itertools
from vlib import *

W = 1 << 64
DIG = '0123456789abcdefghijklmnopqrstuvwxyz'

def capof(c):
    return 2 if c <= 1 else 1 << ((c - 1).bit_length())

def val(p, j):
    return (p + 1) * 100 + j + 1

def mk_scripts(spec):
    """spec: list of per-participant op-kind strings, e.g. ['uu','s','oro'] -> script strings with unique values"""
    out = []
    for p, ks in enumerate(spec):
        ops = []; j = 0
        for k in ks:
            if k in 'us':
                ops.append('%s%d' % (k, val(p, j))); j += 1
            elif k in 'or':
                ops.append(k)
            elif k in 'BCD':            # push_batch of 2/3/4 values
                n = {'B': 2, 'C': 3, 'D': 4}[k]
                ops.append('U' + ','.join(str(val(p, j + i)) for i in range(n))); j += n
            elif k in '1234':           # pop_batch n
                ops.append('O' + k)
        out.append(' '.join(ops) if ops else '-')
    return out

def mk_case(kind, capreq, start, bound, spec, sched, flags='-'):
    return '%s %d %d %d %s | %s | %s' % (kind, capreq, start, bound, flags, ' | '.join(mk_scripts(spec)), sched)

def parse_case(case):
    f = [x.strip() for x in case.split('|')]
    kind, capreq, start, bound, flags = f[0].split()
    scripts = []
    for s in f[1:-1]:
        ops = []
        for tok in s.split():
            if tok == '-': continue
            k = tok[0]
            if k == 'U': ops.append((k, [int(x) for x in tok[1:].split(',') if x]))
            elif k in 'us': ops.append((k, [int(tok[1:])]))
            elif k == 'O': ops.append((k, int(tok[1:])))
            else: ops.append((k, None))
        scripts.append(ops)
    return dict(kind=kind, capreq=int(capreq), start=int(start), bound=int(bound), flags=flags, scripts=scripts, sched=f[-1])

def parse_out(line):
    m = re.match(r'cap=(\d+) steps=(\d+) (ok|livelock) log=([0-9a-f]+) res=(\S*) final=(\S+)', line)
    if m and m.group(6).startswith('q='):
        return dict(cap=int(m.group(1)), steps=int(m.group(2)), status=m.group(3), fin={}, res=[(re.findall(r'[^,]+', r.rstrip('*')), r.endswith('*')) for r in m.group(5).split('|')])
    if not m: return None
    res = []
    for r in m.group(5).split('|'):
        unfinished = r.endswith('*')
        r = r.rstrip('*')
        items = re.findall(r'\[[^\]]*\]|[^,]+', r)
        res.append((items, unfinished))
    fin = {}
    for kv in re.findall(r'([a-z]+)=([0-9,]*?)(?=,[a-z]+=|$)', m.group(6)):
        fin[kv[0]] = [int(x) for x in kv[1].split(',') if x != '']
    return dict(cap=int(m.group(1)), steps=int(m.group(2)), status=m.group(3), res=res, fin=fin)


class Check(DiffCheck):
    id = 'C07'
    coq_dirs = ['Base', 'E3', 'C07']
    coq_targets = ['C07/C07_Arith.vo', 'C07/C07_Lists.vo', 'C07/C07_SPSC_Proofs.vo', 'C07/C07_MPMC_Proofs.vo', 'C07/C07_Chan_Proofs.vo', 'C07/C07_Chan_Inv.vo', 'C07/C07_Chan_InvS.vo', 'C07/C07_Batch_Proofs.vo', 'C07/C07_Proofs.vo', 'C07/C07_MPMC_Report.vo', 'C07/C07_MPMC_Linear.vo', 'C07/C07_Batch_Fifo.vo', 'C07/C07_ChanQ_Proofs.vo', 'C07/C07_ChanQ_Thm.vo']
    properties_v = 'C07/C07_Properties.v'
    extract_v = 'C07/C07_Extract.v'
    runner_ml = 'ocaml/C07_run.ml'
    model_module = 'C07_model'
    rule = ('E3 lock-step replay. cases: corpus; exhaustive schedule prefixes (every word of length L over the participants, then '
            'round-robin) for tiny configurations of each queue kind at capacities 2 and 4 (requested 1..4); PRNG: up to 3+3 '
            'participants, bursty schedules with one participant stalled between claim and publish while the ring wraps; start '
            'indices 0 and just below 2^64. non-trivial = at least two participants touch the same slot or the ring wraps '
            '(more successful pushes than capacity, or start index within capacity of 2^64)')
    assumptions = ['sequential consistency only: E3 serialises the participants, so every replayed execution is SC by construction '
                   '(DESIGN.md 4.4); acquire/release annotations are not checked',
                   'MPMC theorems guard: fewer than 2^64 claims (no index wrap); at the wrap a capacity>=4 MPMC queue stops accepting pushes (note N1)']
    trusted_base = ['E3 controller (harness/E3/e3.h): all shared accesses of the header under test go through std::atomic '
                    '(checked: every schedule is run twice, logs must be identical)']
    partial_note = ('proved: SPSC (all), MPMC CAS+ticket (safety, below the 2^64 wrap), MPMC emptiness/fullness reporting (a failing pop/push saw the queue '
                    'empty/full at an instant inside the call), MPMC push/pop linearisable w.r.t. the atomic bounded FIFO (LP inside every completed call), '
                    'batch MPMC (bounded/no-overwrite, values, disjoint claims, per-thread FIFO and exactly-once over completed results), RingChannel '
                    'no-lost-wake-up for consumers AND senders over an atomic FIFO + counter semaphores (tied to the real send/recv/notify code by E3) AND over '
                    'the fine-grained MPMC queue (product model, refinement with a prophecy on the schedule; proof-level model, not replayed). '
                    'Not covered: MPMC/batch across the 2^64 index wrap (N1); yield_timeout expiry; SC only.')
    case_timeout = 900

    def build_impl(self):
        exe, log = cxx_build(self.id, ['harness/C07/harness.cpp'])
        if not exe: raise RuntimeError(log)
        return exe

    # ------------------------------------------------------------------ generation
    def gen_cases(self, tier, rng):
        cs = []
        cp = os.path.join(VERIF, 'replay', 'corpus', 'C07.cases')
        if os.path.exists(cp):
            cs += [l.strip() for l in open(cp) if l.strip() and not l.startswith('#')]
        quick = tier == 'quick'
        # ---- exhaustive schedule prefixes, tiny configurations
        def words(n, L):
            for w in itertools.product(range(n), repeat=L):
                yield ''.join(DIG[x] for x in w)
        ex = [
            ('mpmc', 2, ['uu', 'u', 'ooo'], 6 if quick else 10),
            ('mpmc', 1, ['u', 'uu', 'oo'], 5 if quick else 9),
            ('mpmc', 2, ['ss', 's', 'rrr'], 5 if quick else 9),
            ('mpmc', 2, ['us', 'su', 'oro'], 5 if quick else 9),
            ('mpmc', 4, ['uuu', 'uu', 'oor'], 5 if quick else 8),
            ('bmpmc', 2, ['uB', 'u', 'o2o'], 5 if quick else 9),
            ('bmpmc', 4, ['CB', 'Bu', '3o2'], 5 if quick else 8),
            ('spsc', 2, ['uuu', 'ooo'], 7 if quick else 13),
            ('spsc', 2, ['uBu', 'o2o'], 7 if quick else 12),
            ('spsc', 3, ['CuC', '3o4'], 7 if quick else 12),
        ]
        ex = [e for e in ex if e[0] in self.kinds()]
        # RingChannel protocol (real send/recv/notify code over an atomic abstract FIFO + counter semaphores):
        # exhaustive schedule words; 'start' field = yield_turn
        if 'chan' in self.kinds():
            for capreq, Y, spec, L in [(2, 0, ['s', 'r'], 8 if quick else 14), (2, 0, ['ss', 'r', 'r'], 6 if quick else 10),
                                       (2, 1, ['s', 's', 'rr'], 5 if quick else 9), (2, 0, ['sss', 'r'], 7 if quick else 12),
                                       (2, 0, ['s', 's', 'r', 'r'], 5 if quick else 8)]:
                for w in words(len(spec), L):
                    cs.append(mk_case('chan', capreq, Y, 300, spec, w, 'full'))
        for kind, capreq, spec, L in ex:
            for w in words(len(spec), L):
                cs.append(mk_case(kind, capreq, 0, 400, spec, w))
        # ---- random
        nrand = 1500 if quick else 60000
        for _ in range(nrand):
            cs.append(self.random_case(rng))
        return list(dict.fromkeys(cs))

    def kinds(self):
        return ['spsc', 'mpmc', 'bmpmc', 'chan']

    def random_chan(self, rng):
        np_, nc = rng.randrange(1, 4), rng.randrange(1, 4)
        spec = ['s' * rng.randrange(1, 6) for _ in range(np_)] + ['r' * rng.randrange(1, 5) for _ in range(nc)]
        n = len(spec)
        sched = []
        for _ in range(rng.randrange(0, 80)):
            p = rng.randrange(n)
            burst = rng.choice([1, 1, 2, 3, 6, 12])
            fl = 1 if rng.random() < 0.08 else 0          # flavor 1: a timed semaphore wait times out
            sched += [p + n * fl] * burst
        w = ''.join(DIG[x] for x in sched[:90])
        return mk_case('chan', rng.choice([1, 2, 2, 3]), rng.choice([0, 0, 1, 2]), 400, spec, w, 'full')

    def random_case(self, rng):
        kind = rng.choice(self.kinds() + ['mpmc'])
        if kind == 'chan': return self.random_chan(rng)
        capreq = rng.choice([1, 2, 2, 3, 4, 4])
        cap = capof(capreq)
        if kind == 'spsc':
            np_, nc = 1, 1
            prod = ''.join(rng.choice('uuuBC' + ('D' if cap >= 4 else '')) for _ in range(rng.randrange(2, 7)))
            cons = ''.join(rng.choice('ooo12' + ('34' if cap >= 4 else '')) for _ in range(rng.randrange(2, 8)))
            spec = [prod, cons]
        elif kind == 'bmpmc':
            np_, nc = rng.randrange(1, 4), rng.randrange(1, 4)
            spec = [''.join(rng.choice('uuBC' + ('D' if cap >= 4 else '')) for _ in range(rng.randrange(1, 5))) for _ in range(np_)]
            spec += [''.join(rng.choice('oo12' + ('34' if cap >= 4 else '')) for _ in range(rng.randrange(1, 6))) for _ in range(nc)]
        else:
            np_, nc = rng.randrange(1, 4), rng.randrange(1, 4)
            mode = rng.choice(['cas', 'cas', 'ticket', 'mixed'])
            pk = {'cas': 'u', 'ticket': 's', 'mixed': 'us'}[mode]
            ck = {'cas': 'o', 'ticket': 'r', 'mixed': 'or'}[mode]
            spec = [''.join(rng.choice(pk) for _ in range(rng.randrange(1, 6))) for _ in range(np_)]
            spec += [''.join(rng.choice(ck) for _ in range(rng.randrange(1, 6))) for _ in range(nc)]
        n = len(spec)
        start = 0
        r = rng.random()
        if r < 0.15: start = W - rng.randrange(1, 2 * cap + 2)
        elif r < 0.3: start = rng.randrange(0, 4 * cap)
        elif r < 0.35: start = rng.randrange(W)
        # schedule: bursts; optionally one victim is run exactly up to a claim and then stalled for a long time
        L = rng.randrange(0, 70)
        sched = []
        victim = rng.randrange(n) if rng.random() < 0.6 else None
        stall_at = rng.randrange(1, 5)
        stall_len = rng.randrange(10, 50)
        vsteps = 0; stalled = 0
        while len(sched) < L:
            p = rng.randrange(n)
            burst = rng.choice([1, 1, 1, 2, 3, 5, 8])
            for _ in range(burst):
                if p == victim and vsteps >= stall_at and stalled < stall_len:
                    break
                sched.append(p)
                if p == victim: vsteps += 1
            if victim is not None and vsteps >= stall_at: stalled += burst
        w = ''.join(DIG[x] for x in sched[:L])
        return mk_case(kind, capreq, start, 500, spec, w)

    # ------------------------------------------------------------------ classification
    def category(self, case):
        c = parse_case(case)
        cap = capof(c['capreq'])
        if c['kind'] == 'chan': return 'chan:cap%d:yield%d:%dp' % (cap, c['start'], len(c['scripts']))
        return '%s:cap%d:%s%s' % (c['kind'], cap, '%dp' % len(c['scripts']), ':nearwrap' if c['start'] + 4 * cap >= W else '')

    def nontrivial(self, case):
        c = parse_case(case)
        cap = capof(c['capreq'])
        npush = sum(len(a) if k == 'U' else 1 for s in c['scripts'] for (k, a) in s if k in 'usU')
        return len([s for s in c['scripts'] if s]) >= 2 and (npush >= 2 or c['start'] + cap >= W)

    def legal(self, c):
        """configuration inside the queue's contract (SPSC: one producer thread, one consumer thread)"""
        if c['kind'] == 'spsc':
            prods = [i for i, s in enumerate(c['scripts']) if any(k in 'usU' for k, _ in s)]
            cons = [i for i, s in enumerate(c['scripts']) if any(k in 'orO' for k, _ in s)]
            return len(prods) <= 1 and len(cons) <= 1
        return True

    def known_class(self, case):
        return None

    # ------------------------------------------------------------------ the property, on the implementation's output
    def oracle(self, case, out):
        c = parse_case(case)
        if out.startswith('CRASH'): return 'implementation crashed: ' + out
        if out.startswith('E3ERROR'): return 'E3 harness error: ' + out
        o = parse_out(out)
        if o is None: return 'unparsable output %r' % out[:200]
        if not self.legal(c): return None
        if c['kind'] == 'chan': return self.oracle_chan(c, o, out)
        cap = capof(c['capreq'])
        if o['cap'] != cap: return 'capacity %d, expected %d' % (o['cap'], cap)
        pushed, maybe, popped = [], [], []            # (value) lists; popped per consumer in order
        for p, (script, (items, unfinished)) in enumerate(zip(c['scripts'], o['res'])):
            if len(items) > len(script): return 'more results than ops'
            got = []
            for (k, a), r in zip(script, items):
                if k == 'u':
                    if r == '1': pushed.append(a[0])
                    elif r != '0': return 'bad push result %r' % r
                elif k == 's':
                    if r != 's': return 'bad send result %r' % r
                    pushed.append(a[0])
                elif k == 'U':
                    n = int(r)
                    if n > len(a): return 'push_batch returned %d > %d' % (n, len(a))
                    pushed += a[:n]
                elif k in 'or':
                    if r != '-': got.append(int(r))
                    elif k == 'r': return 'recv returned nothing'
                elif k == 'O':
                    vs = [int(x) for x in r[1:-1].split(',') if x]
                    if len(vs) > a: return 'pop_batch returned %d > %d' % (len(vs), a)
                    got += vs
            if unfinished and len(items) < len(script):
                k, a = script[len(items)]
                if k in 'us': maybe.append(a[0])
                elif k == 'U': maybe += a
            popped.append(got)
        allpop = [v for g in popped for v in g]
        # no invention, no duplication (values are unique per case)
        for v in allpop:
            if v not in pushed and v not in maybe: return 'value %d returned but never pushed (invention)' % v
        if len(set(allpop)) != len(allpop): return 'a value was returned twice: %s' % sorted(allpop)
        # per-producer FIFO at every consumer
        for g in popped:
            last = {}
            for v in g:
                pr = v // 100
                if pr in last and last[pr] > v: return 'consumer received %d after %d (per-producer order broken)' % (v, last[pr])
                last[pr] = v
        # nothing lost: when everybody finished, pushed = popped + content between head and tail
        if o['status'] == 'ok':
            h, t = o['fin']['h'][0], o['fin']['t'][0]
            if c['kind'] == 'bmpmc':
                if o['fin']['wh'][0] != t or o['fin']['rt'][0] != h: return 'quiescent batch queue with write_head != tail or read_tail != head'
            cnt = (t - h) % W
            if cnt > cap: return 'queue holds %d > capacity %d elements' % (cnt, cap)
            content = [o['fin']['d'][(h + i) % W % cap] for i in range(cnt)]
            if sorted(content + allpop) != sorted(pushed):
                return 'elements lost/duplicated: pushed %s, popped %s, still queued %s' % (sorted(pushed), sorted(allpop), content)
            # queue content keeps per-producer order too
            last = {}
            for v in content:
                pr = v // 100
                if pr in last and last[pr] > v: return 'queue content out of per-producer order'
                last[pr] = v
        return None

    def oracle_chan(self, c, o, out):
        """RingChannel: exactly-once/FIFO on the results + NO LOST WAKE-UP evaluated after every step of the
        implementation's log: never (queue non-empty, queue_sem empty, some consumer blocked in queue_sem.wait,
        and every participant that is inside an operation is such a blocked consumer); dual for senders."""
        cap = capof(c['capreq'])
        sent, got = [], []
        for script, (items, unf) in zip(c['scripts'], o['res']):
            for (k, a), r in zip(script, items):
                if k in 'us': sent.append(a[0])
                else: got.append(int(r))
        if len(set(got)) != len(got): return 'a value was received twice'
        for v in got:
            if v not in sent and not any(v == a[0] for sc in c['scripts'] for (k, a) in sc if k in 'us'): return 'value %d invented' % v
        for script, (items, unf) in zip(c['scripts'], o['res']):
            last = {}
            for (k, a), r in zip(script, items):
                if k in 'or':
                    v = int(r); pr = v // 100
                    if pr in last and last[pr] > v: return 'per-producer order broken at a consumer'
                    last[pr] = v
        if ' LOG ' not in out: return None
        log = out.split(' LOG ', 1)[1].split()
        n = len(c['scripts'])
        consumer = [bool(sc) and sc[0][0] in 'or' for sc in c['scripts']]
        qlen = 0; qsem = 0; ssem = 0
        inflight = [False] * n; blocked = [None] * n
        for e in log:
            done = e.endswith('!'); e = e.rstrip('!')
            f = e.split('.'); p = int(f[0]); kind = f[1]
            inflight[p] = not done
            blocked[p] = None
            if kind == 'qpush' and f[2] == '1': qlen += 1
            elif kind == 'qpop' and f[2] == '1': qlen -= 1
            elif kind == 'semsig': qsem += 1
            elif kind == 'ssemsig': ssem += 1
            elif kind == 'semwait':
                if f[2] == '1': qsem -= 1
                elif f[2] == '0': blocked[p] = 'r'
            elif kind == 'ssemwait':
                if f[2] == '1': ssem -= 1
                elif f[2] == '0': blocked[p] = 's'
            if qlen > cap: return 'queue holds more than capacity'
            act = [q for q in range(n) if inflight[q]]
            if act and qlen > 0 and qsem == 0 and all(blocked[q] == 'r' for q in act):
                return 'LOST WAKE-UP: queue non-empty, queue_sem empty, every participant inside an operation is a consumer blocked in queue_sem.wait (after log entry %r)' % e
            if act and qlen < cap and ssem == 0 and all(blocked[q] == 's' for q in act):
                return 'LOST WAKE-UP (send side): queue has room, send_sem empty, every participant inside an operation is a sender blocked in send_sem.wait (after log entry %r)' % e
        return None

    def extra(self, ctx):
        # informational ASan probe for finding C07-F1 (N = 1 template instantiation); never part of the verdict;
        # thorough tier only (an extra ASan compile is expensive on a loaded machine)
        if ctx.get('tier') != 'thorough':
            return []
        try:
            exe, log = cxx_build(self.id, ['harness/C07/probe_n1.cpp'], asan=True, out=os.path.join(BUILD, 'bin', 'C07_probe_n1'))
            if exe:
                rc, out = sh([exe], timeout=60, env=self.impl_env())
                self.extra_coverage = dict(probe_mpmc_N1='overflow-free' if 'OVERFLOW-FREE' in out else
                                           'heap-buffer-overflow on the second push (finding C07-F1, fix: repo_patches/C07-slots-num-n1.diff)')
        except Exception as e:
            self.extra_coverage = dict(probe_mpmc_N1='probe failed to run: %s' % str(e)[:200])
        return []

    def neighbours(self, case, rng):
        c = parse_case(case)
        f = [x.strip() for x in case.split('|')]
        out = []
        s = f[-1]
        for i in range(len(s)):
            out.append(' | '.join(f[:-1] + [s[:i] + s[i + 1:]]))
        for _ in range(200):
            w = ''.join(DIG[rng.randrange(len(c['scripts']))] for _ in range(rng.randrange(0, 40)))
            out.append(' | '.join(f[:-1] + [w]))
        return out
