# C19 — ObjectCache: model coq/C19 (lock-granularity interleaving model, run cooperatively), direct
# single-vCPU harness harness/C19 on the real photon scheduler (virtual clock through the E2 hook
# H-clock when the tree has it; otherwise only time-insensitive cases are generated).
import re
from vlib import *

MAX64 = (1 << 64) - 1
HUGE = 1 << 50          # "never" for lifespans / cooldowns in time-insensitive cases


def have_vclock():
    try:
        return 'photon_verif_clock' in open(os.path.join(REPO, 'thread', 'thread.cpp')).read()
    except Exception:
        return False


def parse_case(case):
    secs = case.split('|')
    now0, life, lim = [int(x) for x in secs[0].split()]
    progs = []
    for sec in secs[1:]:
        ops = []
        for it in sec.split(';'):
            w = it.split()
            if not w or w[0] == '-':
                continue
            ops.append((w[0],) + tuple(int(x) for x in w[1:]))
        progs.append(ops)
    return now0, life, lim, progs


def fmt_case(now0, life, lim, progs):
    return '%d %d %d | %s' % (now0, life, lim, ' | '.join(';'.join(' '.join(str(x) for x in op) for op in p) if p else '-' for p in progs))


class Check(DiffCheck):
    id = 'C19'
    coq_dirs = ['Base', 'C19']
    coq_targets = ['C19/C19_Proofs.vo', 'C19/C19_Mtx.vo', 'C19/C19_Time.vo', 'C19/C19_V2.vo']
    properties_v = 'C19/C19_Properties.v'
    extract_v = 'C19/C19_Extract.v'
    runner_ml = 'ocaml/C19_run.ml'
    model_module = 'C19_model'
    case_timeout = 1500
    rule = ('cases: corpus; hand-written scenario families (same-key sharing, failing/slow constructors with queued waiters, '
            'recycle vs holders vs new acquirers, double recycle, expiry by size limit and by virtual time, cooldown); PRNG programs of '
            '2-5 threads x 2-9 ops over 1-3 keys (acquire/borrow with scripted constructor outcome and 0..140 yields inside, '
            'release plain/recycle x destroy, expire, yield, tick).  non-trivial = a key acquired twice, a failing constructor, '
            'a recycle, or an expiry')
    assumptions = ['fewer than 2^32 simultaneous references per item (uint32 _refcnt modelled as unbounded)',
                   'a thread releases only references it holds, once (handle discipline of the programs)',
                   'no thread_interrupt of threads inside the cache; sequential consistency',
                   'photon::mutex / semaphore / condition_variable behave as their lock-granularity models (C01-C03)']
    trusted_base = ['direct single-vCPU harness harness/C19 (fork per case; ends a case when every program is done or a whole round of the run queue made no progress)']

    def build_impl(self):
        self.vclock = have_vclock()
        exe, log = cxx_build(self.id, ['harness/C19/harness.cpp', os.path.join(REPO, 'common', 'expirecontainer.cpp')],
                             extra='-fPIC -I%s' % os.path.join(REPO, 'common') + (' -DHAVE_VCLOCK' if self.vclock else ''), libphoton=True)
        if not exe:
            raise RuntimeError(log)
        return exe

    def impl_env(self):
        e = dict(os.environ)
        return e

    # ------------------------------------------------------------------ generation
    def _scenarios(self, vclock):
        L = HUGE
        S = []
        def add(life, lim, progs, now0=1000):
            S.append(fmt_case(now0, life, lim, progs))
        A = lambda k, ok=1, y=0, cd=0, b=0: ('A', k, ok, y, cd, b)
        R = lambda h, rc=0, ds=1: ('R', h, rc, ds)
        X, Y = ('X',), ('Y',)
        for b in (0, 1):
            # sharing, slow ctor with waiters that spin (y < 100) and that sleep in the mutex queue (y > 101)
            for y in (0, 1, 3, 99, 100, 101, 102, 103, 120):
                add(L, MAX64, [[A(1, 1, y, 0, b), R(0)], [A(1, 1, 0, 0, b), R(0)], [A(1, 1, 0, 0, b), Y, R(0)]])
                add(L, MAX64, [[A(1, 0, y, 0, b), R(0)], [A(1, 1, 0, 0, b), R(0)], [A(1, 0, 2, 0, b), Y, R(0)], [A(1, 1, 0, HUGE, b), R(0)]])
                add(L, MAX64, [[A(1, 0, y, 0, b), R(0)], [A(1, 1, 0, HUGE, b), R(0)], [A(1, 1, 0, HUGE, b), R(0)], [Y, Y, Y, A(1, 1, 0, HUGE, b), R(0)]])
            # recycle with other holders, new acquirers parked, double recycle, recycle without destroy
            for rc2 in (0, 1):
                for ds in (0, 1):
                    for ny in (0, 1, 2, 3):
                        add(L, MAX64, [[A(1, 1, 0, 0, b)] + [Y] * ny + [R(0, 1, ds)], [A(1, 1, 0, 0, b), Y, Y, R(0, rc2, ds)],
                                       [Y, A(1, 1, 1, 0, b), R(0)], [Y, Y, A(1, 1, 0, 0, b), Y, R(0)]])
            # expiry by size limit
            for lim in (0, 1, 2):
                add(L, lim, [[A(1, 1, 0, 0, b), A(2, 1, 0, 0, b), A(3, 1, 0, 0, b), R(0), R(1), R(2), X], [A(2, 1, 0, 0, b), Y, R(0), X, A(1, 1, 0, 0, b), R(1)]])
                add(L, lim, [[A(1, 1, 2, 0, b), R(0), A(1, 1, 0, 0, b), R(1)], [A(1, 1, 0, 0, b), R(0), A(2, 1, 0, 0, b), R(1), X]])
            # self-deadlock: holder re-acquires while a recycle is pending
            add(L, MAX64, [[A(1, 1, 0, 0, b), Y, Y, A(1, 1, 0, 0, b), R(0)], [A(1, 1, 0, 0, b), R(0, 1, 1)]])
        if vclock:
            T = lambda d: ('T', d)
            for b in (0, 1):
                for life in (0, 1, 10, 100):
                    for d in (life - 1 if life else 0, life, life + 1, life + 2):
                        add(life, MAX64, [[A(1, 1, 0, 0, b), R(0), T(max(d, 0)), X, A(1, 1, 0, 0, b), R(1)], [A(2, 1, 0, 0, b), Y, R(0), Y, X]])
                        add(life, MAX64, [[A(1, 1, 0, 0, b), A(2, 1, 0, 0, b), R(0), T(max(d, 0) // 2), R(1), T(max(d, 0) - max(d, 0) // 2), X, T(1), X, T(life), X]])
                for cd in (0, 1, 5, 50):
                    for d in (0, cd - 1 if cd else 0, cd, cd + 1):
                        add(HUGE, MAX64, [[A(1, 0, 1, cd, b), R(0)], [A(1, 1, 0, cd, b), R(0)], [T(max(d, 0)), A(1, 1, 0, cd, b), R(0)], [Y, Y, A(1, 1, 0, cd, b), R(0)]])
                add(MAX64, MAX64, [[T(MAX64 - 2000), A(1, 1, 0, 0, b), R(0), T(5000), X, A(1, 0, 0, MAX64, b)]])
        return S

    def _random_case(self, rng, vclock):
        nthr = rng.randrange(2, 6)
        nkeys = rng.choice([1, 1, 2, 3])
        timed = vclock and rng.random() < 0.5
        life = rng.choice([0, 1, 5, 20, 100]) if timed else HUGE
        lim = rng.choice([MAX64, MAX64, 0, 1, 2])
        progs = []
        for t in range(nthr):
            ops = []
            nacq = 0
            open_h = []
            for _ in range(rng.randrange(2, 10)):
                r = rng.random()
                if r < 0.38 or not nacq:
                    y = rng.choice([0, 0, 0, 1, 2, 3, rng.randrange(0, 8), rng.choice([99, 100, 101, 102, 110, 140])]) if rng.random() < 0.85 else 0
                    ok = 0 if rng.random() < 0.25 else 1
                    cd = rng.choice([0, 0, 3, 30]) if timed else rng.choice([0, 0, HUGE])
                    ops.append(('A', rng.randrange(1, nkeys + 1), ok, y, cd, rng.randrange(2)))
                    open_h.append(nacq); nacq += 1
                elif r < 0.70:
                    if open_h and rng.random() < 0.9:
                        h = open_h.pop(rng.randrange(len(open_h)))
                    else:
                        h = rng.randrange(0, nacq + 1)
                    rc = 1 if rng.random() < 0.15 else 0
                    ops.append(('R', h, rc, 0 if rng.random() < 0.4 else 1))
                elif r < 0.80:
                    ops.append(('X',))
                elif r < 0.93 or not timed:
                    ops.append(('Y',))
                else:
                    ops.append(('T', rng.choice([0, 1, 2, 5, 19, 20, 21, 100, 101])))
            # mostly release what is still held
            if rng.random() < 0.8:
                rng.shuffle(open_h)
                for h in open_h:
                    if rng.random() < 0.5: ops.append(('Y',))
                    ops.append(('R', h, 1 if rng.random() < 0.15 else 0, 1))
            progs.append(ops)
        return fmt_case(1000, life, lim, progs)

    def gen_cases(self, tier, rng):
        vclock = have_vclock()
        cs = []
        cp = os.path.join(VERIF, 'replay', 'corpus', 'C19.cases')
        if os.path.exists(cp):
            for l in open(cp):
                l = l.strip()
                if l and not l.startswith('#'):
                    if not vclock and self._timed(l): continue
                    cs.append(l)
        cs += self._scenarios(vclock)
        n = 500 if tier == 'quick' else 20000
        for _ in range(n):
            cs.append(self._random_case(rng, vclock))
        return list(dict.fromkeys(cs))

    def _timed(self, case):
        now0, life, lim, progs = parse_case(case)
        if life < HUGE: return True
        for p in progs:
            for op in p:
                if op[0] == 'T': return True
                if op[0] == 'A' and 0 < op[4] < HUGE: return True
        return False

    # ------------------------------------------------------------------ classification
    def nontrivial(self, case):
        now0, life, lim, progs = parse_case(case)
        keys = [op[1] for p in progs for op in p if op[0] == 'A']
        twice = len(keys) != len(set(keys))
        fail = any(op[0] == 'A' and op[2] == 0 for p in progs for op in p)
        rec = any(op[0] == 'R' and op[2] == 1 for p in progs for op in p)
        exp = lim < MAX64 or life < HUGE
        return twice or fail or rec or exp

    def category(self, case):
        now0, life, lim, progs = parse_case(case)
        tags = []
        if any(op[0] == 'A' and op[2] == 0 for p in progs for op in p): tags.append('fail')
        if any(op[0] == 'A' and op[3] > 100 for p in progs for op in p): tags.append('mutex-sleep')
        if any(op[0] == 'R' and op[2] == 1 for p in progs for op in p): tags.append('recycle')
        if lim < MAX64: tags.append('limit')
        if life < HUGE: tags.append('timed')
        return '+'.join(tags) or 'plain'

    # ------------------------------------------------------------------ the property on the implementation's trace
    def oracle(self, case, out):
        if out.startswith('CRASH') or out.startswith('HANG') or out.startswith('NOOUTPUT'):
            return 'implementation crashed or hung: ' + out[:300]
        m = re.match(r'ev=(\S+) blocked=(\S+) size=(\d+) list=(\d+) bad=(\d+) end=(\S+)$', out)
        if not m:
            return 'unparsable output: %r' % out[:200]
        now0, life, lim, progs = parse_case(case)
        evs = [] if m.group(1) == '-' else m.group(1).split(',')
        ctor_running = {}     # key -> thread
        live = {}             # oid -> key   (constructed, neither destroyed nor handed over)
        held = {}             # oid -> outstanding handles
        handle_obj = {}       # (t, handle index) -> oid or None
        nacq = {}             # t -> number of handles so far
        rel_obj = {}          # t -> object of the release in flight
        failed_ctor = {}      # t -> True when its last constructor failed and its acquire has not returned yet
        for e in evs:
            k = e[0]
            body = e[1:]
            if k == 'c':
                t, key = body.split(':')
                if key in ctor_running:
                    return 'constructor for key %s entered by thread %s while thread %s is still inside it' % (key, t, ctor_running[key])
                ctor_running[key] = t
            elif k == 'C':
                t, key, r = body.split(':')
                if ctor_running.get(key) != t:
                    return 'constructor end without begin (key %s thread %s)' % (key, t)
                del ctor_running[key]
                if r == 'F':
                    failed_ctor[t] = True
                else:
                    if any(kk == key for kk in live.values()):
                        return 'second live object constructed for key %s (object %s) while %s is live' % (key, r, [o for o, kk in live.items() if kk == key])
                    live[r] = key; held[r] = 0
            elif k == 'd':
                t, o, refs = body.split(':')
                if o not in live:
                    return 'destructor of object %s which is not live (double destroy / destroyed after hand-over)' % o
                if int(refs) != 0 or held.get(o, 0) != 0:
                    return 'object %s destroyed while %s / %d references are outstanding' % (o, refs, held.get(o, 0))
                del live[o]
            elif k == 'a':
                th, r = body.split(':')
                t, idx = th.split('.')
                h = nacq.get(t, 0); nacq[t] = h + 1
                if r == 'N':
                    handle_obj[(t, h)] = None
                else:
                    if r not in live:
                        return 'acquire returned object %s which is not live' % r
                    op = progs[int(t)][int(idx)]
                    if live[r] != str(op[1]):
                        return 'acquire of key %s returned an object of key %s' % (op[1], live[r])
                    handle_obj[(t, h)] = r
                    held[r] += 1
                if failed_ctor.pop(t, False) and r != 'N':
                    return 'thread %s: its constructor failed but its acquire returned object %s' % (t, r)
            elif k == 'b':
                t, idx = body.split('.')
                op = progs[int(t)][int(idx)]
                o = handle_obj.get((t, op[1]))
                if o is None:
                    return 'release of a handle that holds nothing'
                held[o] -= 1           # the reference is given up when release() is called
                handle_obj[(t, op[1])] = None
                rel_obj[t] = o
            elif k == 'r':
                th, r = body.split(':')
                t, idx = th.split('.')
                op = progs[int(t)][int(idx)]
                o = rel_obj.pop(t, None)
                if o is None:
                    return 'release return without call'
                if r != 'N':
                    ro, refs = r.split('/')
                    if ro != o:
                        return 'recycling release returned object %s, not its own %s' % (ro, o)
                    if not (op[2] == 1 and op[3] == 0):
                        return 'release returned an object without recycle && !destroy'
                    if int(refs) != 0 or held[o] != 0:
                        return 'object %s handed to the recycler while %s / %d references are outstanding' % (o, refs, held[o])
                    if o not in live:
                        return 'object %s handed over but not live' % o
                    del live[o]
        # quiescence: a recycling release still in flight although nobody holds the object any more never returns
        for t, o in rel_obj.items():
            if held.get(o, 0) == 0:
                return 'thread %s: recycling release of object %s never returns although every other holder has released' % (t, o)
        if int(m.group(5)) != 0:
            return 'use after free flagged'
        return None

    # ------------------------------------------------------------------ F16 confirmation (never a violation)
    def extra(self, ctx):
        """ObjectCacheV2 ~Borrow / operator= use-after-free (finding F16): replayed on the real class on two vCPUs under
        ASan when the tree carries the hook of repo_patches/C19-hook-borrow-window.diff.  Informational only."""
        info = dict(hook_present=False)
        self.extra_coverage = dict(f16_confirmation=info)
        try:
            hdr = open(os.path.join(REPO, 'common', 'objectcachev2.h')).read()
        except Exception:
            return []
        if 'PHOTON_VERIF_C19_BORROW_WINDOW' not in hdr or not have_vclock():
            info['note'] = 'hook PHOTON_VERIF_C19_BORROW_WINDOW (or H-clock) absent from the tree: confirmation skipped'
            print('[C19] F16 confirmation skipped: hook absent (repo_patches/C19-hook-borrow-window.diff)')
            return []
        info['hook_present'] = True
        exe, log = cxx_build(self.id, ['harness/C19/f16_confirm.cpp'], extra='-fPIC', asan=True, libphoton=True,
                             out=os.path.join(BUILD, 'bin', 'C19_f16'))
        if not exe:
            info['note'] = 'confirmation harness did not build: ' + log[-400:]
            print('[C19] F16 confirmation harness did not build (not a verdict)')
            return []
        env = dict(os.environ); env['ASAN_OPTIONS'] = 'detect_leaks=0:abort_on_error=0:exitcode=99:detect_stack_use_after_return=0'
        lines = []
        for mode in ('dtor', 'assign'):
            rc, out = sh([exe, mode], timeout=200, env=env)
            l = [x for x in out.splitlines() if x.startswith('F16 ')]
            lines.append(l[0] if l else 'F16 %s not-reproduced: no output (rc=%s)' % (mode, rc))
        info['runs'] = lines
        confirmed = [l for l in lines if ' confirmed:' in l]
        for l in lines:
            print('[C19] ' + l)
        if confirmed and not any(f.get('id') == 'F16' and f.get('status') == 'known' for f in load_known_findings(self.id)):
            print('KNOWN-FINDING: property=C19 F16 ObjectCacheV2 Borrow touches its box after its own release(): heap-use-after-free '
                  'reproduced on 2 vCPUs (stall > lifespan between release() and the rc read)')
        return []

    def neighbours(self, case, rng):
        now0, life, lim, progs = parse_case(case)
        out = []
        for t in range(len(progs)):
            for i in range(len(progs[t])):
                q = [list(p) for p in progs]
                del q[t][i]
                out.append(fmt_case(now0, life, lim, q))
        return out
