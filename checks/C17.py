# C17 — cache layer: model coq/C17, harness harness/C17, engines E1 (RangeModule) + E1/E5 (read path)
import re, itertools
from vlib import *

OFF_MAX = (1 << 63) - 1


# ------------------------------------------------------------------ RangeModule ---------
def rm_parse_ops(s):
    ops = []
    if s == '-': return ops
    for o in s.split(','):
        f = o.split(':')
        ops.append((f[0],) + tuple(int(x) for x in f[1:]))
    return ops

def rm_parse_qs(s):
    return [] if s == '-' else [tuple(int(x) for x in q.split(':')) for q in s.split(',')]

def rm_points(ops, qs):
    P = set()
    for o in ops:
        for v in o[1:]: P.update((v - 1, v, v + 1))
    for q in qs:
        for v in q: P.update((v - 1, v, v + 1))
    return sorted(P)

def rm_oracle(case, out):
    """set-of-points semantics, independent of the Coq model"""
    _, ops_s, qs_s = case.split(' ')
    ops, qs = rm_parse_ops(ops_s), rm_parse_qs(qs_s)
    P = rm_points(ops, qs)
    cov = {p: False for p in P}
    toks = out.split(' ') if out else []
    if len(toks) != len(ops) + len(qs): return 'wrong number of result tokens: %r' % out[:200]
    for o, t in zip(ops, toks):
        if o[0] == 'a':
            for p in P:
                if o[1] <= p < o[2]: cov[p] = True
        elif o[0] == 'r':
            for p in P:
                if o[1] <= p < o[2]: cov[p] = False
        elif o[0] == 'f':
            for p in P:
                if o[1] <= p < OFF_MAX: cov[p] = False
        elif o[0] == 'c':
            for p in P: cov[p] = False
        m = re.match(r'S\[(.*)\]$', t)
        if not m: return 'unparsable state %r' % t
        ivs = [tuple(int(x) for x in re.match(r'(-?\d+)-(-?\d+)$', iv).groups()) for iv in m.group(1).split(';') if iv]
        prev_e = None
        for (s, e) in ivs:
            if not s < e: return 'empty or inverted interval %s after %s' % ((s, e), o)
            if prev_e is not None and not prev_e < s: return 'intervals not sorted/disjoint/merged: %s after %s' % (ivs, o)
            prev_e = e
        for p in P:
            inside = any(s <= p < e for (s, e) in ivs)
            if inside != cov[p]: return 'point %d: in set = %s, expected %s, after op %s (state %s)' % (p, inside, cov[p], o, ivs)
    for q, t in zip(qs, toks[len(ops):]):
        m = re.match(r'Q\((-?\d+),(-?\d+)\)$', t)
        if not m: return 'unparsable query result %r' % t
        a, b = int(m.group(1)), int(m.group(2))
        unc = [p for p in P if q[0] <= p < q[1] and not cov[p]]
        exp = (min(unc), max(unc) + 1) if unc else (0, 0)
        if (a, b) != exp: return 'queryRefillRange%s = %s, expected %s' % (q, (a, b), exp)
    return None


# ------------------------------------------------------------------ read path (RD) ------
THR_OFF = 4294967295

def repo_tne():
    """which FileCacheStore::evict is in the tree under check (see c_tne in C17_Model.v)"""
    try:
        t = open(os.path.join(REPO, 'fs/cache/full_file_cache/cache_store.cpp')).read()
    except Exception:
        return 0
    return 1 if re.search(r'offset\s*>=\s*st\.st_size\)\s*return\s+0', t) else 0
TNE = repo_tne()

def src_bytes(n, salt=0):
    """deterministic source content function: byte i of the source"""
    return [((i * 37 + 11 + salt * 101) % 251) + 1 for i in range(n)]        # never 0x00, 0xAA=170 avoided below

def hx(b): return ''.join('%02x' % x for x in b) if b else '-'
def unhx(s): return [] if s == '-' else [int(s[i:i + 2], 16) for i in range(0, len(s), 2)]

def rd_parse(case):
    kv = dict(t.split('=', 1) for t in case.split(' ')[1:])
    d = dict(page=int(kv['page']), unit=int(kv['unit']), pool=kv['pool'] == '1', tp=kv['tp'] == '1', maxr=int(kv['maxr']),
             thr=int(kv['thr']), refilling=int(kv['refilling']), src=unhx(kv['src']), actual=int(kv['actual']),
             filled=[] if kv['filled'] == '-' else [tuple(int(x) for x in iv.split('-')) for iv in kv['filled'].split(';')],
             media=unhx(kv['media']), td=kv['td'] == '1', sor=[] if kv['sor'] == '-' else kv['sor'].split(','),
             wor=[] if kv['wor'] == '-' else kv['wor'].split(','), ops=[])
    for o in kv['ops'].split(','):
        f = o.split('/')
        if f[0] == 'R':
            held = [] if f[3] == '-' else [tuple(int(x) for x in h.split(':')) for h in f[3].split(';')]
            d['ops'].append(('R', int(f[1]), [int(x) for x in f[2].split('+')], held, f[4]))
        elif f[0] == 'E': d['ops'].append(('E', int(f[1]), int(f[2])))
        elif f[0] == 'P': d['ops'].append(('P', int(f[1]), int(f[2])))
        else: d['ops'].append(('T',))
    return d

def rd_case(page, unit, src, actual, filled, media, td, ops, pool=0, tp=0, refilling=0, thr=THR_OFF, sor=(), wor=()):
    def opstr(o):
        if o[0] == 'R':
            held = ';'.join('%d:%d:%d' % h for h in o[3]) if len(o) > 3 and o[3] else '-'
            fl = (o[4] if len(o) > 4 and o[4] else '-')
            return 'R/%d/%s/%s/%s' % (o[1], '+'.join(map(str, o[2])), held, fl)
        if o[0] == 'E': return 'E/%d/%d' % (o[1], o[2])
        if o[0] == 'P': return 'P/%d/%d' % (o[1], o[2])
        return 'T'
    return ('RD tne=%d page=%d unit=%d pool=%d tp=%d maxr=128 thr=%d refilling=%d src=%s actual=%d filled=%s media=%s td=%d sor=%s wor=%s ops=%s'
            % (TNE, page, unit, pool, tp, thr, refilling, hx(src), actual, ';'.join('%d-%d' % iv for iv in filled) or '-', hx(media), td,
               ','.join(sor) or '-', ','.join(wor) or '-', ','.join(opstr(o) for o in ops)))

def rd_consistent(d):
    """the hypothesis of the property: every cached byte equals the source byte, sizes sane"""
    S = len(d['src'])
    if not (0 <= d['actual'] <= S): return False
    if d['page'] <= 0 or d['unit'] <= 0: return False
    if d['actual'] % d['page'] != 0 and d['actual'] != S: return False
    pe = None
    for (s, e) in d['filled']:
        if not (0 <= s < e): return False
        if pe is not None and not pe < s: return False
        pe = e
        if e > len(d['media']) or e > S: return False
        if d['media'][s:e] != d['src'][s:e]: return False
        if not d['td'] and e > d['actual']: return False
    for o in d['ops']:
        if o[0] == 'R':
            if o[1] < 0: return False
            for (ho, hl, hf) in o[3]:
                if hl <= 0: return False
        if o[0] == 'E' and (o[1] < 0 or o[2] < -1): return False
        if o[0] == 'P' and not (0 <= o[2] < (1 << 24)): return False
    return True

def rd_oracle(case, out):
    d = rd_parse(case)
    if not rd_consistent(d): return None
    S, src = len(d['src']), d['src']
    src_faults = any(t[0] in 'sf' for t in d['sor'])
    m = re.match(r'(.*) ST actual=(-?\d+) filled=\[(.*)\] media=(\S+) td=(\d) refilling=(-?\d+)$', out)
    if not m: return 'unparsable output %r' % out[:200]
    toks = m.group(1).split(' ')
    if len(toks) != len(d['ops']): return 'wrong number of op results'
    for o, t in zip(d['ops'], toks):
        ret_s, ub_s, ev_s = t.split(':')
        evs = [] if ev_s == '-' else ev_s.split(',')
        for e in evs:
            if e.startswith('sr'):
                off, ln, r = (int(x) for x in e[2:].split('/'))
                if off + ln > S: return 'source read (offset %d, length %d) reaches beyond the source size %d' % (off, ln, S)
        if o[0] == 'P':
            ret = int(ret_s)
            if any(t[0] in 'sf' for t in d['sor'] + d['wor']): continue
            o1 = max(0, o[1]); a = o1 // d['page'] * d['page']; e = -((-(o1 + o[2])) // d['page']) * d['page']
            exp = max(0, min(e, S) - a)
            if ret != exp: return 'prefetch(offset %d, count %d) returned %d, expected %d' % (o[1], o[2], ret, exp)
            continue
        if o[0] != 'R': continue
        off, cnt, flags = o[1], sum(o[2]), o[4]
        ret, ub = int(ret_s), unhx(ub_s)
        full = max(0, min(cnt, S - off))
        if ret < 0:
            if src_faults or 'c' in flags: continue
            return 'read(offset %d, count %d) failed (%d) although no source read failed' % (off, cnt, ret)
        if ret > full: return 'read(offset %d, count %d) returned %d bytes, more than the %d the source has' % (off, cnt, ret, full)
        if ub[:ret] != src[off:off + ret]:
            k = next(i for i in range(ret) if ub[i] != src[off + i])
            return 'read(offset %d, count %d) returned wrong byte at +%d: %02x, source has %02x' % (off, cnt, k, ub[k], src[off + k])
        if ret != full and not src_faults: return 'read(offset %d, count %d) returned %d bytes, source has %d' % (off, cnt, ret, full)
        if any(b != 0xAA for b in ub[full:]): return 'read(offset %d, count %d) wrote into the buffer beyond the %d source bytes' % (off, cnt, full)
    filled = [tuple(int(x) for x in iv.split('-')) for iv in m.group(3).split(';') if iv]
    media = unhx(m.group(4))
    for (s, e) in filled:
        if e > len(media) or e > S or media[s:e] != src[s:e]:
            return 'after the run the cache holds a byte in [%d,%d) that differs from the source (or lies outside media/source)' % (s, e)
    return None


# ------------------------------------------------------------------ real pool engine (PL) ------
def pl_content(k, i): return (i * 131 + k * 17 + (i >> 8) * 7 + 3) & 0xFF
def pl_fnv(bs):
    h = 1469598103934665603
    for b in bs:
        h ^= b; h = (h * 1099511628211) & 0xFFFFFFFFFFFFFFFF
    return h

def pl_parse(case):
    kv = dict(t.split('=', 1) for t in case.split(' ')[1:])
    sizes = [int(x) for x in kv['sizes'].split(',')]
    phases = []
    for ph in kv['phases'].split(';'):
        phases.append('X' if ph == 'X' else [th.split(',') for th in ph.split('|')])
    return kv, sizes, phases

def pl_known_class(case):
    """class of finding C17-F1: a trim (fallocate(0, off, -1)) at an offset that is not a multiple of the page
    size (4096), followed by a later open of the file by a new store (pool re-created: phase X)"""
    kv, sizes, phases = pl_parse(case)
    trimmed = None
    for ph in phases:
        if ph == 'X':
            if trimmed: return trimmed
            continue
        for th in ph:
            for o in th:
                if o[0] == 't':
                    k, off = (int(x) for x in o[1:].split(':'))
                    if off % 4096 != 0: trimmed = trimmed or 'C17-F1'
                    elif off >= sizes[k] and not TNE: trimmed = trimmed or 'C17-F2'
    return None

def pl_oracle(case, out):
    kv, sizes, phases = pl_parse(case)
    if out.startswith('CRASH') or out in ('NODIR', 'NOFS', 'BADCASE'): return 'pool harness failed: ' + out
    toks = dict(t.split('=', 1) for t in out.split(' ') if '=' in t)
    if toks.get('beyond') != '0': return 'a source read reached beyond the source size (beyond=%s)' % toks.get('beyond')
    for pi, ph in enumerate(phases):
        if ph == 'X': continue
        for ti, th in enumerate(ph):
            for oi, o in enumerate(th):
                if o[0] != 'r': continue
                k, off, ln = (int(x) for x in o[1:].split(':'))
                key = '%d.%d.%d' % (pi, ti, oi)
                if key not in toks: return 'no result for read %s' % key
                ret_s, h = toks[key].split(':')
                ret = int(ret_s)
                exp = max(0, min(ln, sizes[k] - off))
                if ret != exp: return 'read %s of file %d (size %d) offset %d length %d returned %d, the source has %d bytes there' % (key, k, sizes[k], off, ln, ret, exp)
                if ret > 0 and int(h, 16) != pl_fnv(pl_content(k, i) for i in range(off, off + ret)):
                    return 'read %s of file %d offset %d length %d returned bytes that differ from the source' % (key, k, off, ln)
    return None

PL_WITNESS_F1 = 'PL unit=4096 cap=1 fiemap=0 sizes=10000 phases=r0:0:10000,t0:5000;X;r0:6000:100,r0:0:10000'
PL_WITNESS_F2 = 'PL unit=4096 cap=1 fiemap=0 sizes=10000 phases=r0:0:10000,t0:12288;X;r0:9990:100,r0:0:10000,r0:5:10'


class Check(DiffCheck):
    id = 'C17'
    coq_dirs = ['C17']
    coq_targets = ['C17/C17_Lists.vo', 'C17/C17_RM_Proofs.vo', 'C17/C17_Proofs.vo', 'C17/C17_Reopen.vo', 'C17/C17_Conc.vo']
    properties_v = 'C17/C17_Properties.v'
    extract_v = 'C17/C17_Extract.v'
    runner_ml = 'ocaml/C17_run.ml'
    model_module = 'C17_model'
    rule = ('RM (RangeModule, E1): all sequences of <= 2 mutators over [0,6) and of 3 over [0,5) (thorough: 3 over [0,6), sampled 4), each followed by '
            'every query (l,r); random sequences of 4..30 ops over [0,40) and near 2^63-1. non-trivial RM = two mutators whose ranges intersect or touch. '
            'RD (read path, E1/E5: real ICacheStore::preadv2/do_refill_range on a real FileCacheStore over an in-memory media file and a scripted source): '
            'every (offset,count) over files of size 0..11(16) x cached-range patterns x refill units {4,8} x {no pool, async write-back, inline}; every 2-way '
            'segmentation (and zero-length segments) for size 9; random op sequences (reads, range/trim/whole-file evictions) with source faults (fail/short), '
            'media-write faults, held range locks (reader blocks, holder fills, -EAGAIN retry), CACHE_ONLY/SYNC flags, direct-read threshold, page {1,4,8,16}, '
            'units {1,2,4,8,16,3,6,12}; plus arbitrary (inconsistent) states for the tie only. non-trivial RD = a read of a partly cached range, or an eviction between two reads. '
            'PL (second engine, python oracle only): real new_full_file_cached_fs over a media directory, 1-4 reader threads + evictor, pool re-creation.')
    assumptions = ['the source file does not change; the source size fits off_t',
                   'sequential read theorem: no foreign range lock held at entry (waiting/-EAGAIN is covered by the tie and by the interleaving model)',
                   'interleaving model: rwlock and RangeLock are used by their specifications (C06, C18); sequential consistency',
                   'reuse of the media directory: the rebuilt filled map is a subset of what was written (holds when the media fs block size divides the refill unit) '
                   'and the media file size is page aligned or equal to the source size (violated after an unaligned trim: finding C17-F1)']
    trusted_base = ['IOVector operations are modelled by their flat-byte meaning (property C14)',
                    'in-memory media IFile / scripted source IFile of harness/C17/harness.cpp define plain-file semantics',
                    'kernel-backed media (ext4 localfs), fiemap, SEEK_DATA/SEEK_HOLE rebuild: exercised by the PL engine with a python oracle only, not modelled',
                    'quota pool, cold-tier bookkeeping, persistent cache, ocf cache, O_WRITE_BACK/pin_write paths: not modelled']
    partial_note = ('PARTIAL by design: theorems cover RangeModule, the sequential read path on the in-memory filled-range path (FileCacheStore without fiemap) '
                    'and a lock-granularity interleaving model; the fiemap path, the media file system, quota pools and cold tiers are not modelled '
                    '(the real FileCachePool is only exercised against a python oracle).')

    def build_impl(self):
        exe, log = cxx_build(self.id, ['harness/C17/harness.cpp'], libphoton=True)
        if not exe: raise RuntimeError(log)
        return exe

    # ---------------------------------------------------------------- generators
    def gen_rm(self, tier, rng):
        cs = []
        def family(U):
            muts = []
            for l in range(U):
                for r in range(l + 1, U + 1):
                    muts.append('a:%d:%d' % (l, r)); muts.append('r:%d:%d' % (l, r))
            muts += ['a:2:2', 'a:3:1', 'r:2:2', 'r:4:1', 'c'] + ['f:%d' % o for o in range(U)]
            allq = ','.join('%d:%d' % (l, r) for l in range(U + 1) for r in range(U + 1))
            return muts, allq
        # all sequences of <= 2 mutators over [0,6), of 3 over [0,5) (quick) / [0,6) (thorough), each followed by every query
        for (U, lens) in (((6, (1, 2)), (5, (3,))) if tier == 'quick' else ((6, (1, 2, 3)),)):
            muts, allq = family(U)
            for n in lens:
                for seq in itertools.product(muts, repeat=n):
                    cs.append('RM %s %s' % (','.join(seq), allq))
        if tier != 'quick':
            muts, allq = family(5)
            small = [m for m in muts if m[0] in 'ar' and int(m.split(':')[1]) < int(m.split(':')[2])] + ['f:2']
            for seq in itertools.product(small, repeat=4):
                if rng.random() < 0.25: cs.append('RM %s %s' % (','.join(seq), allq))
        nrand = 4000 if tier == 'quick' else 100000
        for _ in range(nrand):
            big = rng.random() < 0.15
            U2 = rng.choice((8, 16, 40))
            base = rng.choice((0, OFF_MAX - 50, 1 << 40)) if big else 0
            n = rng.randrange(4, 31)
            ops = []
            for _ in range(n):
                k = rng.random()
                l = base + rng.randrange(U2); r = base + rng.randrange(U2 + 1)
                if k < 0.5: ops.append('a:%d:%d' % (min(l, r), max(l, r)) if rng.random() < 0.9 else 'a:%d:%d' % (l, r))
                elif k < 0.9: ops.append('r:%d:%d' % (min(l, r), max(l, r)) if rng.random() < 0.9 else 'r:%d:%d' % (l, r))
                elif k < 0.98: ops.append('f:%d' % l)
                else: ops.append('c')
            qs = []
            for _ in range(rng.randrange(1, 12)):
                l = base + rng.randrange(U2); r = base + rng.randrange(U2 + 2)
                qs.append('%d:%d' % (l, r))
            cs.append('RM %s %s' % (','.join(ops), ','.join(qs)))
        return cs


    # ---- read path
    def _media_for(self, src, filled, mlen, rng=None):
        """media content consistent with `filled`: source bytes where filled, complement bytes elsewhere"""
        m = [(src[i] ^ 0xFF) if i < len(src) else 0x5C for i in range(mlen)]
        for (a, b) in filled:
            for i in range(a, min(b, mlen)): m[i] = src[i] if i < len(src) else 0
        return m

    def _states(self, S):
        """a few cached-range patterns over a file of size S (all inside [0,S))"""
        st = [[], [(0, S)]] if S > 0 else [[]]
        if S >= 3: st += [[(0, S // 2)], [(S // 2, S)], [(1, S - 1)]]
        if S >= 7: st += [[(0, 2), (S - 2, S)], [(2, 4), (5, 7)], [(3, S - 3)] if S - 3 > 3 else [(3, 4)]]
        return st

    def gen_rd(self, tier, rng):
        cs = []
        quick = tier == 'quick'
        # (A) exhaustive: every (offset, count), one segment, over small files, units {4,8}, three pool configurations
        sizes = (0, 1, 5, 8, 11) if quick else (0, 1, 3, 5, 8, 11, 13, 16)
        pools = (dict(pool=0, tp=0), dict(pool=1, tp=1), dict(pool=1, tp=0))
        for S in sizes:
            src = src_bytes(S, S)
            for unit in (4, 8):
                for filled in self._states(S):
                    media = self._media_for(src, filled, S)
                    for pc in pools:
                        for off in range(0, S + 2):
                            for cnt in range(1, S + 3 - min(off, S)):
                                # actual_size_ already known (== S) and, second variant, not yet known (0 -> tryget_size)
                                ops = [('R', off, [cnt], [], ''), ('R', off, [cnt], [], '')]
                                cs.append(rd_case(4, unit, src, S, filled, media, 1, ops, **pc))
                        if pc['pool'] == 0:
                            for off in range(0, S + 2):
                                for cnt in range(1, S + 3 - min(off, S), 2):
                                    ops = [('R', off, [cnt], [], ''), ('T',), ('R', off, [cnt], [], '')]
                                    fl0 = [iv for iv in filled]
                                    cs.append(rd_case(4, unit, src, 0 if not fl0 else S, fl0, media, 0 if not fl0 else 1, ops, **pc))
        # (B) every 2-way segmentation (and zero-length segments) of every (offset,count), S = 9 and 10, unit 4
        for S in ((9,) if quick else (9, 10, 12)):
            src = src_bytes(S, 50 + S)
            for filled in ([], [(2, 5)], [(0, 4), (6, 8)]):
                media = self._media_for(src, filled, S)
                for off in range(0, S + 1):
                    for cnt in range(1, S + 2 - off):
                        for k in range(0, cnt + 1):
                            segs = [k, cnt - k] if k % 2 == 0 else [k, 0, cnt - k]
                            cs.append(rd_case(4, 4, src, S, filled, media, 1, [('R', off, segs, [], '')], pool=1, tp=(k % 2)))
        # (C) random structured, consistent initial state: sequences of reads / evictions / whole-file evictions,
        #     faults on source reads and media writes, held range locks, cache-only and sync flags, thresholds
        nrand = 6000 if quick else 150000
        for _ in range(nrand):
            cs.append(self._rand_rd(rng, consistent=True))
        # (D) random, arbitrary (also inconsistent) states: only the model==implementation tie applies
        for _ in range(nrand // 4):
            cs.append(self._rand_rd(rng, consistent=False))
        return cs

    def _rand_rd(self, rng, consistent):
        S = rng.choice((0, 1, 2, 3, 7, 8, 9, 12, 15, 16, 17, 23, 31, 32, 33, 40)) if rng.random() < 0.7 else rng.randrange(0, 41)
        page = rng.choice((4, 4, 4, 8, 16, 1))
        unit = rng.choice((4, 4, 8, 8, 16, 2, 1)) if rng.random() < 0.93 else rng.choice((3, 6, 12))
        src = src_bytes(S, rng.randrange(200))
        # cached ranges
        filled = []
        if S > 0 and rng.random() < 0.8:
            pts = sorted(set(rng.randrange(0, S + 1) for _ in range(rng.randrange(2, 9))))
            for i in range(0, len(pts) - 1, 2):
                if filled and filled[-1][1] == pts[i]: continue
                if pts[i] < pts[i + 1]: filled.append((pts[i], pts[i + 1]))
            if rng.random() < 0.2: filled = [(0, S)]
        td = 1 if rng.random() < 0.6 else 0
        r = rng.random()
        if r < 0.6: actual = S
        elif r < 0.8: actual = 0
        else: actual = (rng.randrange(0, S + 1) // page) * page
        if consistent:
            if not td: filled = [(a, b) for (a, b) in filled if b <= actual]
            mlen = max([b for (_, b) in filled] + [0])
            if rng.random() < 0.7: mlen = max(mlen, actual if rng.random() < 0.8 else rng.randrange(0, S + 1))
            media = self._media_for(src, filled, mlen)
        else:
            mlen = rng.randrange(0, S + 6)
            media = [rng.randrange(256) for _ in range(mlen)]
            if rng.random() < 0.5: actual = rng.randrange(0, S + 9)
            if rng.random() < 0.3 and filled: filled[-1] = (filled[-1][0], filled[-1][1] + rng.randrange(0, 6))
        pool = 1 if rng.random() < 0.6 else 0
        tp = 1 if pool and rng.random() < 0.7 else 0
        refilling = 0 if rng.random() < 0.7 else rng.choice((1, 5, 127, 128, 129, 200))
        thr = THR_OFF if rng.random() < 0.85 else rng.choice((0, 1, 5, 128, 200))
        ops = []
        for _ in range(rng.randrange(1, 7)):
            k = rng.random()
            if k < 0.72:
                mode = rng.randrange(5)
                if mode == 0: off = rng.randrange(0, S + 3); cnt = rng.randrange(0, S + 4)
                elif mode == 1: off = (rng.randrange(0, S + 1) // unit) * unit; cnt = rng.choice((unit, 2 * unit, unit - 1, unit + 1, 1))
                elif mode == 2: off = max(0, S - rng.randrange(0, unit + 2)); cnt = rng.randrange(1, 2 * unit + 2)           # around EOF
                elif mode == 3 and filled: iv = rng.choice(filled); off = max(0, iv[0] - rng.randrange(0, 3)); cnt = max(1, iv[1] - off + rng.randrange(-2, 3))
                else: off = rng.randrange(0, max(1, S)); cnt = rng.randrange(1, max(2, S - off + 2))
                # segmentation
                segs = []
                rest = cnt
                while rest > 0 and len(segs) < 5:
                    t = rng.randrange(0, rest + 1) if rng.random() < 0.7 else rest
                    segs.append(t); rest -= t
                if rest: segs.append(rest)
                if not segs: segs = [0]
                if rng.random() < 0.1: segs.insert(rng.randrange(len(segs) + 1), 0)
                held = []
                if rng.random() < 0.15 and S > 0:
                    pts = sorted(set(rng.randrange(0, S + 2) for _ in range(rng.randrange(2, 5))))
                    for i in range(0, len(pts) - 1, 2):
                        held.append((pts[i], pts[i + 1] - pts[i], 1 if rng.random() < 0.6 else 0))
                    if consistent and not td:
                        held = [h for h in held if h[0] + h[1] <= actual or not h[2]]
                fl = ''
                if rng.random() < 0.08: fl += 'c'
                if rng.random() < 0.1: fl += 's'
                ops.append(('R', off, segs, held, fl))
            elif k < 0.80:
                ops.append(('P', rng.randrange(-1, S + 3), rng.randrange(0, S + 6)))
            elif k < 0.90:
                a = rng.randrange(0, S + 2); n = rng.choice((-1, -1, rng.randrange(1, S + 3)))
                ops.append(('E', a, n))
            else:
                ops.append(('T',))
        def faults(p):
            if rng.random() > p: return []
            return [rng.choice(('k', 'k', 'k', 'f', 's%d' % rng.randrange(0, 9))) for _ in range(rng.randrange(1, 8))]
        sor, wor = faults(0.2), faults(0.15)
        if not consistent and rng.random() < 0.3: ops = [o if o[0] != 'R' else (o[0], o[1] - rng.choice((0, 0, 0, 5)),) + o[2:] for o in ops]
        return rd_case(page, unit, src, actual, filled, media, td, ops, pool=pool, tp=tp, refilling=refilling, thr=thr, sor=sor, wor=wor)

    def gen_cases(self, tier, rng):
        cs = []
        cp = os.path.join(VERIF, 'replay', 'corpus', 'C17.cases')
        if os.path.exists(cp):
            cs += [l.strip() for l in open(cp) if l.strip() and not l.startswith('#')]
        cs += self.gen_rm(tier, rng)
        cs += self.gen_rd(tier, rng)
        return list(dict.fromkeys(cs))


    # ---------------------------------------------------------------- second engine: the real pool
    def gen_pl(self, tier, rng):
        cs = ['PL unit=4096 cap=1 fiemap=0 sizes=10000,4097 phases=r0:0:100,r0:4090:20,r0:9990:100,r1:4000:200|r0:5000:3000,e0,r0:100:50;X;r0:0:10000,r1:0:5000',
              'PL unit=4096 cap=0 fiemap=0 sizes=10000,4097 phases=r0:0:100,r0:4090:20,r0:9990:100,r1:4000:200|r0:5000:3000,r0:100:50;r0:0:10000,r1:0:5000',
              'PL unit=8192 cap=1 fiemap=1 sizes=20000,5 phases=r0:8000:300,r1:0:9,r0:19990:100|e0,y,e1,y,e0;X;r0:0:20000|r0:100:19000,e0',
              'PL unit=4096 cap=1 fiemap=0 sizes=12288 phases=r0:0:12288;t0:8192;X;r0:8000:400,r0:0:12288',
              PL_WITNESS_F1, PL_WITNESS_F2, PL_WITNESS_F2.replace('fiemap=0', 'fiemap=1')]
        n = 40 if tier == 'quick' else 600
        pool_sizes = (5, 4095, 4096, 4097, 8193, 10000, 12288, 20000)
        for _ in range(n):
            nf = rng.randrange(1, 4)
            sizes = [rng.choice(pool_sizes) for _ in range(nf)]
            unit = rng.choice((4096, 4096, 8192)); cap = 0 if rng.random() < 0.2 else 1
            fiemap = 1 if rng.random() < 0.25 else 0
            def rd():
                k = rng.randrange(nf); S = sizes[k]; m = rng.randrange(4)
                if m == 0: off = rng.randrange(0, S + 100); ln = rng.randrange(1, 9000)
                elif m == 1: off = max(0, S - rng.randrange(0, 5000)); ln = rng.randrange(1, 6000)
                elif m == 2: off = (rng.randrange(0, S + 1) // 4096) * 4096 + rng.choice((-1, 0, 1, 4095)); off = max(0, off); ln = rng.choice((1, 2, 4095, 4096, 4097, 8192))
                else: off = rng.randrange(0, max(1, S)); ln = rng.randrange(1, 200)
                return 'r%d:%d:%d' % (k, off, ln)
            phases = []
            for _ in range(rng.randrange(2, 5)):
                r = rng.random()
                if r < 0.2 and phases: phases.append('X'); continue
                if r < 0.3:
                    k = rng.randrange(nf); a = (rng.randrange(0, sizes[k] + (8192 if TNE else 1)) // 4096) * 4096
                    op = 't%d:%d' % (k, a) if rng.random() < 0.5 else 'p%d:%d:%d' % (k, a, rng.choice((4096, 8192, 100)))
                    phases.append(','.join([rd(), op, rd()])); continue
                ths = []
                for _ in range(rng.randrange(1, 5)):
                    ops = []
                    for _ in range(rng.randrange(2, 8)):
                        ops.append(rd() if rng.random() < 0.8 else 'y')
                    ths.append(','.join(ops))
                if rng.random() < 0.6:
                    ev = []
                    for _ in range(rng.randrange(1, 6)):
                        ev.append('e%d' % rng.randrange(nf)); ev += ['y'] * rng.randrange(0, 4)
                    ths.insert(rng.randrange(len(ths) + 1), ','.join(ev))
                phases.append('|'.join(ths))
            cs.append('PL unit=%d cap=%d fiemap=%d sizes=%s phases=%s' % (unit, cap, fiemap, ','.join(map(str, sizes)), ';'.join(phases)))
        return cs

    def extra(self, ctx):
        exe, log = cxx_build(self.id, ['harness/C17/pool_harness.cpp'], libphoton=True, out=os.path.join(BUILD, 'bin', 'C17_pool'))
        if not exe: raise RuntimeError(log)
        cases = self.gen_pl(ctx['tier'], ctx['rng'])
        env = self.impl_env(); env['VERIF_MEDIA_DIR'] = os.path.join(BUILD, 'media')
        os.makedirs(env['VERIF_MEDIA_DIR'], exist_ok=True)
        outs = run_cases(exe, cases, ctx['tmp'], 'pool', nshards=min(NPROC, max(1, len(cases) // 4)), timeout=900, env=env)
        viol, known, nreads = [], {}, 0
        for c, o in zip(cases, outs):
            nreads += c.count('r') if False else sum(1 for t in re.split('[;|,]', c.split('phases=')[1]) if t.startswith('r'))
            msg = pl_oracle(c, o or '')
            if msg:
                kc = pl_known_class(c)
                if kc: known.setdefault(kc, (c, msg))
                else: viol.append(dict(kind='oracle', message='real FileCachePool run: ' + msg, case=c, model_out='(no model: python oracle only)', impl_out=(o or '')[:2000]))
        for k, (c, msg) in known.items():
            print('KNOWN-FINDING: property=%s %s: %s [witness: %s]' % (self.id, k, msg, c))
        self.extra_coverage = dict(pool_engine=dict(programs=len(cases), reads_checked=nreads, known_finding_cases={k: v[0] for k, v in known.items()},
                                   note='real new_full_file_cached_fs over localfs media under .build/media; media I/O yields; fiemap=0 forces the in-memory RangeModule path, fiemap=1 the kernel fiemap path; python oracle only'))
        return viol[:1]

    # ---------------------------------------------------------------- classification
    def category(self, case):
        k = case.split(' ', 1)[0]
        if k == 'RM':
            n = len(rm_parse_ops(case.split(' ')[1]))
            return 'RM:len<=3' if n <= 3 else ('RM:len4' if n == 4 else 'RM:long')
        if k == 'RD':
            d = rd_parse(case)
            c = 'RD:consistent' if rd_consistent(d) else 'RD:arbitrary-state'
            if any(t[0] in 'sf' for t in d['sor'] + d['wor']): c += '+faults'
            if any(o[0] == 'R' and o[3] for o in d['ops']): c += '+rangelock-wait'
            if d['pool'] and d['tp'] and d['refilling'] < 128: c += '+async'
            if any(o[0] in 'ET' for o in d['ops']): c += '+evict'
            if any(o[0] == 'P' for o in d['ops']): c += '+prefetch'
            return c
        return k

    def nontrivial(self, case):
        k = case.split(' ', 1)[0]
        if k == 'RM':
            ops = [o for o in rm_parse_ops(case.split(' ')[1]) if o[0] in 'ar' and o[1] < o[2]]
            for i in range(len(ops)):
                for j in range(i):
                    if ops[i][1] <= ops[j][2] and ops[j][1] <= ops[i][2]: return True
            return False
        if k == 'RD':
            d = rd_parse(case)
            seen_read = False
            for i, o in enumerate(d['ops']):
                if o[0] == 'R':
                    off, cnt = o[1], sum(o[2])
                    cov = sum(max(0, min(e, off + cnt) - max(s, off)) for (s, e) in d['filled'])
                    if 0 < cov < cnt: return True                      # partly cached
                    if seen_read == 'evicted': return True            # an eviction between two reads
                    seen_read = True
                elif seen_read: seen_read = 'evicted'
            return False
        return True

    def oracle(self, case, out):
        if out.startswith('CRASH'): return 'implementation crashed: ' + out
        k = case.split(' ', 1)[0]
        if k == 'RM': return rm_oracle(case, out)
        if k == 'RD': return rd_oracle(case, out)
        return None

    def neighbours(self, case, rng):
        k = case.split(' ', 1)[0]
        out = []
        if k == 'RM':
            _, ops, qs = case.split(' ')
            ol = ops.split(',')
            for i in range(len(ol)):            # drop one op
                rest = ol[:i] + ol[i + 1:]
                out.append('RM %s %s' % (','.join(rest) if rest else '-', qs))
        if k == 'RD':
            d = rd_parse(case)
            kv = dict(t.split('=', 1) for t in case.split(' ')[1:])
            for i, o in enumerate(d['ops']):
                if o[0] != 'R': continue
                for do in (-1, 0, 1):
                    for dc in (-1, 0, 1):
                        if o[1] + do < 0 or sum(o[2]) + dc < 1 or (do == 0 and dc == 0): continue
                        ops = list(d['ops']); ops[i] = ('R', o[1] + do, [sum(o[2]) + dc], o[3], o[4])
                        out.append(rd_case(d['page'], d['unit'], d['src'], d['actual'], d['filled'], d['media'], 1 if d['td'] else 0, ops,
                                           pool=1 if d['pool'] else 0, tp=1 if d['tp'] else 0, refilling=d['refilling'], thr=d['thr'], sor=d['sor'], wor=d['wor']))
            out.append(rd_case(d['page'], d['unit'], d['src'], d['actual'], d['filled'], d['media'], 1 if d['td'] else 0, d['ops'][:1],
                               pool=1 if d['pool'] else 0, tp=1 if d['tp'] else 0, refilling=d['refilling'], thr=d['thr']))
        return out
