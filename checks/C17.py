# C17 — cache layer: model coq/C17, harness harness/C17, engines E1 (RangeModule) + E1/E5 (read path)
import re, itertools
from vlib import *

OFF_MAX = (1 << 63) - 1


# ------------------------------------------------------------------ RangeModule ---------
def rm_parse_ops(s):
    ops = []
    if s == '-': return ops
    for o in s.split(','):
        f = o.split(':')
        ops.append((f[0],) + tuple(int(x) for x in f[1:]))
    return ops

def rm_parse_qs(s):
    return [] if s == '-' else [tuple(int(x) for x in q.split(':')) for q in s.split(',')]

def rm_points(ops, qs):
    P = set()
    for o in ops:
        for v in o[1:]: P.update((v - 1, v, v + 1))
    for q in qs:
        for v in q: P.update((v - 1, v, v + 1))
    return sorted(P)

def rm_oracle(case, out):
    """set-of-points semantics, independent of the Coq model"""
    _, ops_s, qs_s = case.split(' ')
    ops, qs = rm_parse_ops(ops_s), rm_parse_qs(qs_s)
    P = rm_points(ops, qs)
    cov = {p: False for p in P}
    toks = out.split(' ') if out else []
    if len(toks) != len(ops) + len(qs): return 'wrong number of result tokens: %r' % out[:200]
    for o, t in zip(ops, toks):
        if o[0] == 'a':
            for p in P:
                if o[1] <= p < o[2]: cov[p] = True
        elif o[0] == 'r':
            for p in P:
                if o[1] <= p < o[2]: cov[p] = False
        elif o[0] == 'f':
            for p in P:
                if o[1] <= p < OFF_MAX: cov[p] = False
        elif o[0] == 'c':
            for p in P: cov[p] = False
        m = re.match(r'S\[(.*)\]$', t)
        if not m: return 'unparsable state %r' % t
        ivs = [tuple(int(x) for x in re.match(r'(-?\d+)-(-?\d+)$', iv).groups()) for iv in m.group(1).split(';') if iv]
        prev_e = None
        for (s, e) in ivs:
            if not s < e: return 'empty or inverted interval %s after %s' % ((s, e), o)
            if prev_e is not None and not prev_e < s: return 'intervals not sorted/disjoint/merged: %s after %s' % (ivs, o)
            prev_e = e
        for p in P:
            inside = any(s <= p < e for (s, e) in ivs)
            if inside != cov[p]: return 'point %d: in set = %s, expected %s, after op %s (state %s)' % (p, inside, cov[p], o, ivs)
    for q, t in zip(qs, toks[len(ops):]):
        m = re.match(r'Q\((-?\d+),(-?\d+)\)$', t)
        if not m: return 'unparsable query result %r' % t
        a, b = int(m.group(1)), int(m.group(2))
        unc = [p for p in P if q[0] <= p < q[1] and not cov[p]]
        exp = (min(unc), max(unc) + 1) if unc else (0, 0)
        if (a, b) != exp: return 'queryRefillRange%s = %s, expected %s' % (q, (a, b), exp)
    return None


class Check(DiffCheck):
    id = 'C17'
    coq_dirs = ['C17']
    coq_targets = ['C17/C17_Proofs.vo']
    properties_v = 'C17/C17_Properties.v'
    extract_v = 'C17/C17_Extract.v'
    runner_ml = 'ocaml/C17_run.ml'
    model_module = 'C17_model'
    rule = ('RM: all sequences of <= 3 mutators over the universe [0,6) (add/remove every l<r, degenerate l>=r, removeFrom, clear), '
            'each followed by every query (l,r) in [0,7)^2; random sequences of 4..30 ops over [0,40) and near 2^63. '
            'non-trivial RM = at least two mutators whose ranges intersect or touch')
    assumptions = []
    partial_note = ''

    def build_impl(self):
        exe, log = cxx_build(self.id, ['harness/C17/harness.cpp'])
        if not exe: raise RuntimeError(log)
        return exe

    # ---------------------------------------------------------------- generators
    def gen_rm(self, tier, rng):
        cs = []
        U = 6
        muts = []
        for l in range(U):
            for r in range(l + 1, U + 1):
                muts.append('a:%d:%d' % (l, r)); muts.append('r:%d:%d' % (l, r))
        muts += ['a:2:2', 'a:3:1', 'r:2:2', 'r:4:1', 'c'] + ['f:%d' % o for o in range(U)]
        allq = ','.join('%d:%d' % (l, r) for l in range(U + 1) for r in range(U + 1))
        maxlen = 3 if tier == 'quick' else 3
        for n in range(1, maxlen + 1):
            for seq in itertools.product(muts, repeat=n):
                cs.append('RM %s %s' % (','.join(seq), allq))
        if tier != 'quick':
            small = [m for m in muts if m[0] in 'ar' and m not in ('a:2:2', 'a:3:1', 'r:2:2', 'r:4:1')]
            small = [m for m in small if int(m.split(':')[2]) <= 5][:30] + ['f:2']
            for seq in itertools.product(small, repeat=4):
                cs.append('RM %s %s' % (','.join(seq), allq))
        nrand = 4000 if tier == 'quick' else 100000
        for _ in range(nrand):
            big = rng.random() < 0.15
            U2 = rng.choice((8, 16, 40))
            base = rng.choice((0, OFF_MAX - 50, 1 << 40)) if big else 0
            n = rng.randrange(4, 31)
            ops = []
            for _ in range(n):
                k = rng.random()
                l = base + rng.randrange(U2); r = base + rng.randrange(U2 + 1)
                if k < 0.5: ops.append('a:%d:%d' % (min(l, r), max(l, r)) if rng.random() < 0.9 else 'a:%d:%d' % (l, r))
                elif k < 0.9: ops.append('r:%d:%d' % (min(l, r), max(l, r)) if rng.random() < 0.9 else 'r:%d:%d' % (l, r))
                elif k < 0.98: ops.append('f:%d' % l)
                else: ops.append('c')
            qs = []
            for _ in range(rng.randrange(1, 12)):
                l = base + rng.randrange(U2); r = base + rng.randrange(U2 + 2)
                qs.append('%d:%d' % (l, r))
            cs.append('RM %s %s' % (','.join(ops), ','.join(qs)))
        return cs

    def gen_cases(self, tier, rng):
        cs = []
        cp = os.path.join(VERIF, 'replay', 'corpus', 'C17.cases')
        if os.path.exists(cp):
            cs += [l.strip() for l in open(cp) if l.strip() and not l.startswith('#')]
        cs += self.gen_rm(tier, rng)
        return list(dict.fromkeys(cs))

    # ---------------------------------------------------------------- classification
    def category(self, case):
        k = case.split(' ', 1)[0]
        if k == 'RM':
            n = len(rm_parse_ops(case.split(' ')[1]))
            return 'RM:len<=3' if n <= 3 else ('RM:len4' if n == 4 else 'RM:long')
        return k

    def nontrivial(self, case):
        k = case.split(' ', 1)[0]
        if k == 'RM':
            ops = [o for o in rm_parse_ops(case.split(' ')[1]) if o[0] in 'ar' and o[1] < o[2]]
            for i in range(len(ops)):
                for j in range(i):
                    if ops[i][1] <= ops[j][2] and ops[j][1] <= ops[i][2]: return True
            return False
        return True

    def oracle(self, case, out):
        if out.startswith('CRASH'): return 'implementation crashed: ' + out
        k = case.split(' ', 1)[0]
        if k == 'RM': return rm_oracle(case, out)
        return None

    def neighbours(self, case, rng):
        k = case.split(' ', 1)[0]
        out = []
        if k == 'RM':
            _, ops, qs = case.split(' ')
            ol = ops.split(',')
            for i in range(len(ol)):            # drop one op
                rest = ol[:i] + ol[i + 1:]
                out.append('RM %s %s' % (','.join(rest) if rest else '-', qs))
        return out
