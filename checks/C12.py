# C12 — RPC serialization: model coq/C12, harness harness/C12 (ASan+UBSan, fixed arena), engine E1
import re, struct, hashlib
from vlib import *

ARENA = 0x300000000000
STRIDE = 1 << 32
W = 1 << 64
FLAG_NAMES = ['fix_zero_ptr', 'fix_fail_len', 'fix_nested_al', 'fix_anchor', 'fix_sv']

# ---------------------------------------------------------------- CRC32C (raw: init 0, no inversion, reflected 0x82f63b78)
_T = []
for _n in range(256):
    _c = _n
    for _ in range(8):
        _c = (_c >> 1) ^ (0x82f63b78 if _c & 1 else 0)
    _T.append(_c)
def crc32c(bs, c=0):
    for b in bs:
        c = _T[(c ^ b) & 0xff] ^ (c >> 8)
    return c

# ---------------------------------------------------------------- shapes
class F:
    def __init__(self, off, kind, n=0, sub=None):
        self.off, self.kind, self.n, self.sub = off, kind, n, sub or []
def parse_shape(s):
    pos = [0]
    def num():
        m = re.match(r'\d+', s[pos[0]:]); pos[0] += len(m.group(0)); return int(m.group(0))
    def fields():
        assert s[pos[0]] == '['; pos[0] += 1
        out = []
        while s[pos[0]] != ']':
            off = num(); assert s[pos[0]] == '@'; pos[0] += 1
            k = s[pos[0]]; pos[0] += 1
            f = F(off, k)
            if k in 'FX': f.n = num()
            elif k in 'RM': f.n = num(); f.sub = fields()
            elif k == 'N': f.sub = fields()
            out.append(f)
            if s[pos[0]] == ',': pos[0] += 1
        pos[0] += 1
        return out
    size = num(); pos[0] += 1
    checked = s[pos[0]] == 'C'; pos[0] += 2
    return size, checked, fields()
def active(fs):
    return any((active(f.sub) if f.kind == 'N' else f.kind != 'F') for f in fs)
def u64(b, o): return struct.unpack_from('<Q', b, o)[0]
def checksum_of(front, body):
    """CheckedMessage: the accumulator lives in the body, so the body is hashed with CRC(front) in its checksum field"""
    h1 = crc32c(front)
    return crc32c(struct.pack('<I', h1) + bytes(body[4:]), h1)
def seal(flat, size):
    """recompute the checksum of a checked message stream"""
    if len(flat) < size: return flat
    front, body = bytes(flat[:len(flat) - size]), bytes(flat[len(flat) - size:])
    return front + struct.pack('<I', checksum_of(front, body)) + body[4:]
def p64(v): return struct.pack('<Q', v % W)

# processing order of the archives (serialize.h 299-374, 411-426, 457-477): two passes over the
# top-level fields, aligned kinds first; nested messages are visited by the archive itself
def ordered(fs, nested_al):
    """yield (pass, field) for the top-level fields"""
    for f in fs:
        if f.kind in 'AJ': yield f
    for f in fs:
        if f.kind not in 'AJ': yield f

# ---------------------------------------------------------------- values (python side, independent of the model)
# a value of a field list = dict: body template bytes (fixed members random, slots zero) + var[f.off] = content
def gen_bytes(rng, lo=0, hi=24):
    r = rng.random()
    n = 0 if r < 0.15 else (rng.randrange(100, 400) if r > 0.97 else rng.randrange(max(lo, 1), hi))
    return bytes(rng.randrange(256) for _ in range(n))
def gen_str(rng):
    r = rng.random()
    if r < 0.12: return b''                                   # default-constructed rpc::string
    n = rng.randrange(0, 16)
    return bytes(rng.randrange(1, 256) for _ in range(n)) + b'\0'
def gen_map(rng, vfs, vsz):
    n = rng.choice([0, 1, 1, 2, 3, 3, 4, 6])
    keys = set()
    while len(keys) < n:
        keys.add(bytes(rng.choice(b'abcxyz012') for _ in range(rng.randrange(1, 5))))
    ent = []
    for k in keys:
        v = gen_value(rng, vfs, vsz)
        ent.append((k + b'\0', v))
    return ent
def gen_value(rng, fs, size):
    body = bytearray(rng.randrange(256) for _ in range(size))
    var = {}
    for f in fs:
        if f.kind == 'F': continue
        if f.kind in 'BAX': var[f.off] = gen_bytes(rng)
        elif f.kind == 'S': var[f.off] = gen_str(rng)
        elif f.kind == 'R':
            cnt = rng.choice([0, 1, 2, 3, 5])
            var[f.off] = [gen_value(rng, f.sub, f.n) for _ in range(cnt)]
        elif f.kind in 'IJ':
            var[f.off] = [gen_bytes(rng, 0, 16) for _ in range(rng.choice([0, 1, 2, 3]))]
        elif f.kind == 'N': var[f.off] = gen_value(rng, f.sub, 0)['var']
        elif f.kind == 'M': var[f.off] = gen_map(rng, f.sub, f.n)
    return dict(body=bytes(body), var=var)

def junk_ptr(rng):
    return rng.choice([0, 0x7ffd12345678, rng.randrange(W), ARENA + rng.randrange(8) * STRIDE + rng.randrange(64)])

class Wire:
    """reference serializer: the flat byte stream an honest sender produces (pointer slots hold junk)"""
    def __init__(self, rng, flags):
        self.rng, self.flags = rng, flags
        self.front = bytearray()
    def put_slot(self, body, off, n):
        body[off:off + 8] = p64(junk_ptr(self.rng)); body[off + 8:off + 16] = p64(n)
    def map_bytes(self, f, ent):
        # sorted_map_factory: keys and serialized values concatenated in insertion order, index sorted by key
        base = bytearray(); idx = []
        order = list(ent); self.rng.shuffle(order)
        for k, v in order:
            ko = len(base); base += k
            w = Wire(self.rng, self.flags)
            vb = w.message(f.sub, f.n, False, v)
            vo = len(base); base += vb
            idx.append((k, ko, len(k), vo, len(vb)))
        idx.sort(key=lambda e: e[0][:-1])
        ib = b''.join(struct.pack('<qQqQ', ko, kl, vo, vl) for _, ko, kl, vo, vl in idx)
        return ib, bytes(base)
    def field(self, f, body, base, val, nested):
        o = base + f.off
        if f.kind == 'F': return
        if f.kind in 'BSX' or (f.kind == 'A'):
            if f.kind == 'A' and nested and not self.flags[2]:
                self.put_slot(body, o, len(val)); return                # dropped by the unrepaired archives
            self.put_slot(body, o, len(val)); self.front += val
        elif f.kind in 'IJ':
            tot = sum(len(p) for p in val)
            body[o:o + 8] = p64(junk_ptr(self.rng)); body[o + 8:o + 16] = p64(16 * len(val)); body[o + 16:o + 24] = p64(tot)
            if f.kind == 'J' and nested and not self.flags[2]: return
            for p in val: self.front += p
        elif f.kind == 'R':
            elems = [bytearray(e['body']) for e in val]
            self.put_slot(body, o, f.n * len(val))
            # the array buffer goes first, then the variable-length fields of every element
            sub = Wire(self.rng, self.flags)
            for eb, e in zip(elems, val):
                sub.fields(f.sub, eb, 0, e['var'], True)
            for eb in elems: self.front += eb
            self.front += sub.front
        elif f.kind == 'N':
            self.fields(f.sub, body, o, val, True)
        elif f.kind == 'M':
            ib, bb = self.map_bytes(f, val) if val else (b'', b'')
            self.put_slot(body, o, len(ib)); self.front += ib
            self.put_slot(body, o + 16, len(bb)); self.front += bb
    def fields(self, fs, body, base, var, nested):
        for f in fs: self.field(f, body, base, var.get(f.off), nested)
    def message(self, fs, size, checked, value):
        body = bytearray(value['body'])
        for f in fs:
            if f.kind in 'AJ': self.field(f, body, 0, value['var'].get(f.off), False)
        for f in fs:
            if f.kind not in 'AJ': self.field(f, body, 0, value['var'].get(f.off), False)
        if checked: body[0:4] = struct.pack('<I', checksum_of(bytes(self.front), body))
        return bytes(self.front) + bytes(body)

class RefFail(Exception): pass
class Ref:
    """reference deserializer on the FLAT byte string (independent of fragmentation): expected status and field contents"""
    def __init__(self, flat, flags):
        self.flat, self.flags, self.pos = flat, flags, 0
    def take(self, n):
        if n > len(self.front) - self.pos: raise RefFail()
        c = self.front[self.pos:self.pos + n]; self.pos += n
        return c
    def field(self, f, b, base, nested):
        o = base + f.off
        if f.kind == 'F': return ('F', bytes(b[o:o + f.n]))
        if f.kind in 'BSXA':
            n = u64(b, o + 8)
            if f.kind == 'A' and nested and not self.flags[2]: return ('skip',)
            return ('B', self.take(n) if n else b'')
        if f.kind in 'IJ':
            if f.kind == 'J' and nested and not self.flags[2]: return ('skip',)
            s = u64(b, o + 16)
            return ('I', self.take(s) if s else b'')
        if f.kind == 'R':
            n = u64(b, o + 8)
            c = self.take(n) if n else b''
            elems = []
            if active(f.sub):
                for i in range(len(c) // f.n):
                    elems.append(self.fields(f.sub, c, i * f.n, True))
            return ('R', c, elems)
        if f.kind == 'N': return ('N', self.fields(f.sub, b, o, True))
        if f.kind == 'M':
            n = u64(b, o + 8); ib = self.take(n) if n else b''
            n2 = u64(b, o + 24); bb = self.take(n2) if n2 else b''
            return ('M', ib, bb)
    def fields(self, fs, b, base, nested):
        return [self.field(f, b, base, nested) for f in fs]
    def message(self, fs, size, checked):
        if len(self.flat) < size: raise RefFail()
        body = self.flat[len(self.flat) - size:]; self.front = self.flat[:len(self.flat) - size]
        if checked:
            if struct.unpack_from('<I', body, 0)[0] != checksum_of(self.front, body): raise RefFail()
        res = {}
        for f in fs:
            if f.kind in 'AJ': res[f.off] = self.field(f, body, 0, False)
        for f in fs:
            if f.kind not in 'AJ': res[f.off] = self.field(f, body, 0, False)
        return [res[f.off] for f in fs]

# ---------------------------------------------------------------- sender-side memory image for S cases
class Image:
    def __init__(self, rng): self.rng, self.regions = rng, []
    def add(self, data):
        self.regions.append(bytes(data)); return ARENA + (len(self.regions) - 1) * STRIDE
    def set_slot(self, body, o, addr, n): body[o:o + 8] = p64(addr); body[o + 8:o + 16] = p64(n)
    def field(self, f, body, base, val):
        o = base + f.off
        if f.kind == 'F': return
        if f.kind in 'BSXA':
            if len(val) == 0: self.set_slot(body, o, self.rng.choice([0, self.add(b'')]), 0)
            else:
                pre = self.rng.choice([0, 0, 3, 8]); post = self.rng.choice([0, 0, 5])     # field inside a larger sender buffer
                a = self.add(bytes(pre) + val + bytes(post)); self.set_slot(body, o, a + pre, len(val))
        elif f.kind in 'IJ':
            vecs = b''
            for p in val:
                a = self.add(p) if len(p) else 0
                vecs += p64(a) + p64(len(p))
            a = self.add(vecs) if val else 0
            body[o:o + 8] = p64(a); body[o + 8:o + 16] = p64(16 * len(val)); body[o + 16:o + 24] = p64(self.rng.randrange(W))  # stale summed_size
        elif f.kind == 'R':
            elems = [bytearray(e['body']) for e in val]
            for eb, e in zip(elems, val): self.fields(f.sub, eb, 0, e['var'])
            a = self.add(b''.join(bytes(e) for e in elems)) if val else self.rng.choice([0, 77])
            self.set_slot(body, o, a, f.n * len(val))
        elif f.kind == 'N': self.fields(f.sub, body, o, val)
        elif f.kind == 'M':
            if not val:
                self.set_slot(body, o, 0, 0); self.set_slot(body, o + 16, 0, 0)
            else:
                w = Wire(self.rng, [1] * 5)
                ib, bb = w.map_bytes(f, val)
                self.set_slot(body, o, self.add(ib), len(ib)); self.set_slot(body, o + 16, self.add(bb), len(bb))
    def fields(self, fs, body, base, var):
        for f in fs: self.field(f, body, base, var.get(f.off))

def follow(regions, addr, n):
    """bytes [addr, addr+n) of a memory image (list of region byte strings), or None"""
    if n == 0: return b''
    d = addr - ARENA
    if d < 0: return None
    r, off = d // STRIDE, d % STRIDE
    if r >= len(regions) or off + n > len(regions[r]): return None
    return regions[r][off:off + n]

# ---------------------------------------------------------------- walk-output parser
class P:
    def __init__(self, s): self.s, self.i = s, 0
    def eat(self, c):
        assert self.s[self.i] == c, (self.s[max(0, self.i - 20):self.i + 20], c); self.i += 1
    def num(self):
        m = re.compile(r'\d+').match(self.s, self.i); self.i = m.end(); return int(m.group(0))
    def hexs(self):
        m = re.compile(r'[0-9a-f]*').match(self.s, self.i); self.i = m.end(); return bytes.fromhex(m.group(0))
    def item(self):
        k = self.s[self.i]; self.i += 1
        if k == 'F': self.eat('('); b = self.hexs(); self.eat(')'); return ('F', b)
        if k == 'B':
            self.eat('('); p = self.num(); self.eat(','); n = self.num(); self.eat(','); b = self.hexs(); self.eat(')'); return ('B', p, n, b)
        if k == 'S':
            self.eat('('); p = self.num(); self.eat(','); n = self.num(); self.eat(','); b = self.hexs(); self.eat(',')
            sn = self.num(); self.eat(','); sv = self.hexs(); self.eat(')'); return ('S', p, n, b, sn, sv)
        if k == 'A':
            self.eat('('); p = self.num(); self.eat(','); n = self.num(); self.eat(','); b = self.hexs(); self.eat(','); self.eat('[')
            es = []
            while self.s[self.i] == '{': self.eat('{'); es.append(self.items('}')); self.eat('}')
            self.eat(']'); self.eat(')'); return ('A', p, n, b, es)
        if k == 'I':
            self.eat('('); p = self.num(); self.eat(','); n = self.num(); self.eat(','); s = self.num(); self.eat(','); self.eat('[')
            parts = []
            while self.s[self.i] != ']':
                b = self.num(); self.eat(','); l = self.num(); self.eat(','); d = self.hexs(); parts.append((b, l, d))
                if self.s[self.i] == ';': self.i += 1
            self.eat(']'); self.eat(')'); return ('I', p, n, s, parts)
        if k == 'N': self.eat('{'); its = self.items('}'); self.eat('}'); return ('N', its)
        if k == 'M':
            self.eat('('); ip = self.num(); self.eat(','); inn = self.num(); self.eat(','); ib = self.hexs(); self.eat(',')
            bp = self.num(); self.eat(','); bn = self.num(); self.eat(','); bb = self.hexs(); self.eat(')'); return ('M', ip, inn, ib, bp, bn, bb)
        raise ValueError('item kind %r' % k)
    def items(self, end):
        out = []
        while self.i < len(self.s) and self.s[self.i] != end:
            out.append(self.item())
            if self.i < len(self.s) and self.s[self.i] == ',': self.i += 1
        return out
    def pair(self):
        self.eat('k'); self.eat('('); kp = self.num(); self.eat(','); kn = self.num(); self.eat(','); sn = self.num(); self.eat(','); sv = self.hexs(); self.eat(')')
        self.eat('v'); self.eat('{'); v = self.items('}'); self.eat('}')
        return (kp, kn, sn, sv, v)

def parse_kv(line):
    d = {}
    for tok in line.split(' '):
        k, _, v = tok.partition('='); d[k] = v
    return d
def parse_mem(s):
    s = s[1:-1]
    return [bytes.fromhex(x) for x in s.split('|')] if s != '' or True else []
def parse_iov(s):
    beg, _, rest = s.partition(':')
    rest = rest[1:-1]
    return int(beg), [tuple(int(x) for x in e.split(',')) for e in rest.split(';') if e]

class Check(DiffCheck):
    id = 'C12'
    coq_dirs = ['Base', 'C12']
    coq_targets = ['C12/C12_Mem.vo', 'C12/C12_MemC.vo', 'C12/C12_Iov.vo', 'C12/C12_Deser.vo', 'C12/C12_Walk.vo', 'C12/C12_Flat.vo', 'C12/C12_Proofs.vo', 'C12/C12_Sep.vo', 'C12/C12_Wire.vo', 'C12/C12_RtD.vo', 'C12/C12_RtS.vo', 'C12/C12_Rt.vo', 'C12/C12_RtC.vo', 'C12/C12_RtC2.vo', 'C12/C12_RtC3.vo', 'C12/C12_Hx.vo', 'C12/C12_View.vo', 'C12/C12_Hb.vo', 'C12/C12_Hb2.vo', 'C12/C12_RtI.vo', 'C12/C12_Crc.vo', 'C12/C12_Ord.vo', 'C12/C12_Dyn.vo', 'C12/C12_RtSI.vo', 'C12/C12_RtF.vo']
    properties_v = 'C12/C12_Properties.v'
    extract_v = 'C12/C12_Extract.v'
    runner_ml = 'ocaml/C12_run.ml'
    model_module = 'C12_model'
    case_timeout = 1500
    rule = ('cases: corpus; per message type (15 types: one per field kind, nested, mixed, checked, arrays of messages, sorted maps): '
            'S = serialize a random value laid out in sender memory; D-valid = reference-serialized random value x random fragmentation '
            '(1..28 elements, zero-length elements, elements sharing a region, reserve_front 0..4); D-hostile = length fields 0 / '
            'remaining+-1 / 2^63 / 2^64-1, truncation at every byte (front and back), bit flips (incl. under the checksum), random bytes, '
            'hostile sorted-map index slices; map lookups and iteration after deserialization. non-trivial = a variable-length field that is '
            'fragmented, empty, or whose length differs from the available bytes, or a hostile map index')
    assumptions = ['iovec elements handed to deserialize() have non-null bases and denote readable+writable memory (the deserializer rewrites pointers in place)',
                   'total input below 2^31 bytes (iovector::do_malloc casts the size to int)',
                   'the sender starts from m_checksum == 0 (assert in add_checksum) and uses fewer than 28 non-empty pieces (IOVector capacity)',
                   'the hash step is uninterpreted in the theorems up to its 32-bit range (a per-byte fold); crc32c_step_in_range proves that range for the bitwise CRC32C step the executable model uses, ser_roundtrip_noiov_checked_crc32c_partial instantiates it',
                   'ser_roundtrip: the sender\'s buffers (every range a slot points to, to any depth: dn_fs) do not alias each other or the message struct; the value compared is the one readable in the sender memory AFTER serialize (the serializer rewrites summed_size); receiver elements pairwise separated; 1 + |footprint| free allocation slots (upper bound)',
                   'deser_in_bounds_fields: input elements pairwise separated (= a fragmentation of a byte string; overlapping elements really break the in-place pointer rewriting); members of every struct do not overlap (lay_fs / psep of the static ranges)']
    trusted_base = ['ASan/UBSan (alignment check off: the wire format is byte-packed, x86 tolerates it) with a poisoned fixed arena: exact-size regions per iovec element and per allocation',
                    'python reference (de)serializer on flat byte strings used as the oracle']

    # ------------------------------------------------------------------ build
    def build_impl(self):
        flags = '-fno-sanitize=alignment,null -msse4.2 -mpclmul -Wno-invalid-offsetof -I%s' % os.path.join(VERIF, 'harness/C12')
        srcs = [os.path.join(REPO, 'common/checksum/crc.cpp'), os.path.join(REPO, 'common/checksum/crc_tables.cpp'),
                os.path.join(REPO, 'common/checksum/crc_tables.h'), os.path.join(REPO, 'common/checksum/crc32c.h'),
                os.path.join(VERIF, 'harness/C12/crc_tu.cpp'), os.path.join(VERIF, 'harness/C12/tscut.h'),
                os.path.join(REPO, 'common/alog.h'), os.path.join(REPO, 'common/conststr.h')]
        hsh = hashlib.sha1()
        for s in srcs: hsh.update(open(s, 'rb').read())
        hsh.update((CXXFLAGS + ASAN + flags).encode())
        os.makedirs(os.path.join(BUILD, 'obj'), exist_ok=True)
        obj = os.path.join(BUILD, 'obj', 'C12_crc_%s.o' % hsh.hexdigest()[:16])
        with Lock('C12_build'):
            if not os.path.exists(obj):
                # the CRC translation unit is rebuilt only when its sources (or the flags) change: content-addressed object
                tmp = obj + '.tmp.o'
                ok, log = cxx_build(self.id, ['harness/C12/crc_tu.cpp'], extra=flags + ' -c', asan=True, out=tmp)
                if not ok: raise RuntimeError(log)
                os.replace(tmp, obj)
            exe, log = cxx_build(self.id, ['harness/C12/harness.cpp', obj], extra=flags, asan=True)
        if not exe: raise RuntimeError(log)
        rc, out = sh([exe, '--shapes'], timeout=60)
        if rc != 0: raise RuntimeError('harness --shapes failed: ' + out)
        self.shapes = {}
        for l in out.strip().splitlines():
            name, desc = l.split(' ')
            self.shapes[name] = desc
        rc, out = sh([exe, '--probe'], timeout=60, env=self.impl_env())
        if rc != 0: raise RuntimeError('harness --probe failed: ' + out)
        self.flagstr = out.strip().splitlines()[-1]
        self.flags = [c == '1' for c in self.flagstr]
        missing = [n for n, f in zip(FLAG_NAMES, self.flags) if not f]
        if missing:
            print('[C12] note: the tree under test lacks the repairs %s (repo_patches/C12-fix-*.diff); the model runs in the matching mode' % ', '.join(missing))
        return exe

    def canon(self, line):
        line = line.strip()
        if line.startswith('CRASH') or line == 'TRAP': return 'TRAP'
        return line

    # ------------------------------------------------------------------ case construction
    def mk_D(self, ty, rf, regions, iov, ops='~'):
        return 'D %s %s %s %d %s %s %s' % (self.flagstr, ty, self.shapes[ty], rf,
                                           ';'.join((r.hex() or '.') for r in regions) if regions else '~',
                                           ','.join('%d:%d:%d' % e for e in iov) if iov else '~', ops)
    def mk_S(self, ty, regions):
        return 'S %s %s %s 0 %s' % (self.flagstr, ty, self.shapes[ty], ';'.join((r.hex() or '.') for r in regions))

    def fragment(self, rng, flat, cuts=None, maxel=None):
        """split the flat stream into iovec elements placed in regions; returns (rf, regions, iov)"""
        rf = rng.choice([4, 4, 0, 1, 3])
        maxel = maxel or (32 - rf)
        n = len(flat)
        if cuts is None:
            k = rng.choice([0, 0, 1, 1, 2, 3, 5, 9, 27])
            k = min(k, max(0, n - 1))
            cuts = sorted(rng.sample(range(1, n), k)) if k else []
        pieces = []
        last = 0
        for c in cuts + [n]:
            pieces.append(flat[last:c]); last = c
        # zero-length elements
        for _ in range(rng.choice([0, 0, 0, 1, 2])):
            pieces.insert(rng.randrange(len(pieces) + 1), b'')
        while len(pieces) > maxel:                     # merge to fit the capacity
            i = rng.randrange(len(pieces) - 1); pieces[i:i + 2] = [pieces[i] + pieces[i + 1]]
        regions, iov = [], []
        i = 0
        while i < len(pieces):
            if rng.random() < 0.2 and i + 1 < len(pieces):      # two elements inside one region, separated by a gap
                gap = bytes(rng.randrange(256) for _ in range(rng.randrange(1, 9)))
                if rng.random() < 0.5:
                    regions.append(pieces[i] + gap + pieces[i + 1]); r = len(regions) - 1
                    iov += [(r, 0, len(pieces[i])), (r, len(pieces[i]) + len(gap), len(pieces[i + 1]))]
                else:                                            # reversed placement
                    regions.append(pieces[i + 1] + gap + pieces[i]); r = len(regions) - 1
                    iov += [(r, len(pieces[i + 1]) + len(gap), len(pieces[i])), (r, 0, len(pieces[i + 1]))]
                i += 2
            else:
                pre = rng.choice([0, 0, 0, 2])
                regions.append(bytes(pre) + pieces[i]); iov.append((len(regions) - 1, pre, len(pieces[i]))); i += 1
        return rf, regions, iov

    def map_ops(self, rng, ty, value):
        fs = parse_shape(self.shapes[ty])[2]
        mf = [f for f in fs if f.kind == 'M']
        if not mf: return '~'
        ent = value['var'].get(mf[0].off) if value else []
        ops = ['I']
        keys = [k for k, _ in (ent or [])]
        for _ in range(rng.choice([1, 2, 3])):
            if keys and rng.random() < 0.6: k = rng.choice(keys)
            else: k = bytes(rng.choice(b'abcxyz012') for _ in range(rng.randrange(0, 5))) + b'\0'
            ops.append('F:' + k.hex())
        if rng.random() < 0.3: ops.append('I')
        return ','.join(ops)

    def length_slots(self, fs, base=0):
        """offsets (in the body) of the length words of the top-level and nested slots"""
        out = []
        for f in fs:
            if f.kind in 'BSXAR': out.append(base + f.off + 8)
            elif f.kind in 'IJ': out += [base + f.off + 8, base + f.off + 16]
            elif f.kind == 'N': out += self.length_slots(f.sub, base + f.off)
            elif f.kind == 'M': out += [base + f.off + 8, base + f.off + 24]
        return out

    def gen_cases(self, tier, rng):
        cs = []
        cp = os.path.join(VERIF, 'replay', 'corpus', 'C12.cases')
        if os.path.exists(cp):
            for l in open(cp):
                l = l.strip()
                if l and not l.startswith('#'):
                    t = l.split(' ')
                    t[1] = self.flagstr; t[3] = self.shapes.get(t[2], t[3])       # corpus cases follow the tree's mode and layout
                    cs.append(' '.join(t))
        types = sorted(self.shapes, key=lambda s: int(s[1:]))
        per = globals().get('PER_OVERRIDE') or (40 if tier == 'quick' else 1000)
        self.meta = {}
        for ty in types:
            size, checked, fs = parse_shape(self.shapes[ty])
            lens = self.length_slots(fs)
            for it in range(per):
                value = gen_value(rng, fs, size)
                # ---- S: serialize from a sender memory image
                if it % 3 == 0:
                    img = Image(rng)
                    body = bytearray(value['body'])
                    if checked: body[0:4] = b'\0\0\0\0' if rng.random() < 0.9 else bytes(rng.randrange(256) for _ in range(4))
                    img.regions.append(b'')            # region 0 = the message object
                    img.fields(fs, body, 0, value['var'])
                    img.regions[0] = bytes(body)
                    cs.append(self.mk_S(ty, img.regions))
                # ---- D valid: reference-serialized value, random fragmentation
                flat = Wire(rng, self.flags).message(fs, size, checked, value)
                for _ in range(3):
                    rf, regions, iov = self.fragment(rng, flat)
                    cs.append(self.mk_D(ty, rf, regions, iov, self.map_ops(rng, ty, value) if rng.random() < 0.8 else '~'))
                # one-byte elements around a random position (fields straddling several elements)
                if len(flat) > 6:
                    p = rng.randrange(1, len(flat) - 4)
                    rf, regions, iov = self.fragment(rng, flat, cuts=[p, p + 1, p + 2, p + 3])
                    cs.append(self.mk_D(ty, rf, regions, iov, self.map_ops(rng, ty, value)))
                # ---- D hostile
                hostile = []
                n = len(flat)
                for lo in lens:
                    pos = n - size + lo
                    cur = u64(flat, pos)
                    for v in (0, cur + 1, cur - 1 if cur else 1, n, n - size + 1, 1 << 63, W - 1, (1 << 31) + 5, rng.randrange(W)):
                        if rng.random() < 0.35:
                            hostile.append(flat[:pos] + p64(v) + flat[pos + 8:])
                if it % 4 == 0:
                    for k in rng.sample(range(1, n + 1), min(n, 12)):
                        hostile.append(flat[k:] if rng.random() < 0.5 else flat[:n - k])
                for _ in range(3):
                    b = bytearray(flat); i = rng.randrange(n); b[i] ^= 1 << rng.randrange(8); hostile.append(bytes(b))
                if checked:                                     # altered copies of a valid checked stream: must be rejected
                    for _ in range(4):
                        b = bytearray(flat)
                        i = rng.randrange(n - size) if (n > size and rng.random() < 0.7) else rng.randrange(n)
                        b[i] ^= 1 << rng.randrange(8)
                        rf, regions, iov = self.fragment(rng, bytes(b))
                        cs.append(self.mk_D(ty, rf, regions, iov, '~x'))
                if it % 5 == 0:
                    hostile.append(bytes(rng.randrange(256) for _ in range(rng.randrange(0, size + 40))))
                    hostile.append(bytes(rng.choice([0, 0, 0, 1, 8, 255]) for _ in range(rng.randrange(size, size + 60))))
                for hf in hostile:
                    if len(hf) == 0:
                        cs.append(self.mk_D(ty, 4, [], [], '~')); continue
                    if checked and rng.random() < 0.5:            # keep the checksum valid so that the hostile field is reached
                        hf = seal(hf, size)
                    rf, regions, iov = self.fragment(rng, hf)
                    cs.append(self.mk_D(ty, rf, regions, iov, self.map_ops(rng, ty, None) if rng.random() < 0.5 else '~'))
                # ---- hostile sorted-map index
                mfs = [f for f in fs if f.kind == 'M']
                if mfs and value['var'].get(mfs[0].off):
                    for _ in range(4):
                        # a fresh honest stream, then corrupt words of its index (located through the reference deserializer)
                        flat2 = bytearray(Wire(rng, self.flags).message(fs, size, False, value))
                        nent = len(value['var'][mfs[0].off])
                        try:
                            ref = Ref(bytes(flat2), self.flags); tree = ref.message(fs, size, False)
                        except RefFail:
                            continue
                        mi = [t for t in tree if t and t[0] == 'M'][0]
                        ipos = bytes(flat2).find(mi[1]) if mi[1] else -1
                        if ipos < 0: continue
                        bn = len(mi[2])
                        for _ in range(rng.choice([1, 1, 2])):
                            e = rng.randrange(nent); wsel = rng.randrange(4)
                            v = rng.choice([W - 1, W - 8, bn, bn + 1, bn - 1, 1 << 63, (1 << 63) - 1, rng.randrange(0, bn + 40), W - rng.randrange(1, 64), 0])
                            flat2[ipos + 32 * e + 8 * wsel: ipos + 32 * e + 8 * wsel + 8] = p64(v)
                        if checked: flat2 = bytearray(seal(bytes(flat2), size))
                        rf, regions, iov = self.fragment(rng, bytes(flat2))
                        cs.append(self.mk_D(ty, rf, regions, iov, self.map_ops(rng, ty, value)))
        return list(dict.fromkeys(cs))

    # ------------------------------------------------------------------ classification
    def _p(self, case):
        t = case.split(' ')
        d = dict(kind=t[0], cfg=t[1], ty=t[2], shape=t[3], rf=int(t[4]))
        d['regions'] = [] if t[5] == '~' else [bytes.fromhex(x) if x != '.' else b'' for x in t[5].split(';')]
        if t[0] == 'D':
            d['iov'] = [] if t[6] == '~' else [tuple(int(x) for x in e.split(':')) for e in t[6].split(',')]
            d['ops'] = t[7]
            d['flat'] = b''.join(d['regions'][r][o:o + n] for r, o, n in d['iov'])
        return d

    def _ref(self, d):
        size, checked, fs = parse_shape(d['shape'])
        flags = [c == '1' for c in d['cfg']]
        try:
            return Ref(d['flat'], flags).message(fs, size, checked)
        except RefFail:
            return None

    def category(self, case):
        d = self._p(case)
        if d['kind'] == 'S': return d['ty'] + ':S'
        ok = self._ref(d) is not None
        return '%s:D:%s:%s%s' % (d['ty'], 'valid' if ok else 'reject', '1el' if len(d['iov']) <= 1 else ('few' if len(d['iov']) < 6 else 'many'),
                                 ':altered' if d['ops'] == '~x' else (':ops' if d['ops'] != '~' else ''))

    def nontrivial(self, case):
        d = self._p(case)
        if d['kind'] == 'S': return len(d['regions']) > 1
        return len(d['iov']) > 1 or self._ref(d) is None or d['ops'][0] != '~'

    def known_class(self, case):
        # F25: CheckedMessage accumulates the CRC in m_checksum, which lies inside the hashed body; the final value is
        # crc32c(body[4:]) and does not depend on the variable-length fields.  Class = an altered valid checked stream whose
        # alteration lies in front of the body.  Only a LISTED finding suppresses the violation.
        t = case.split(' ')
        if t[0] == 'D' and t[7] == '~x':
            if not hasattr(self, '_listed'):
                self._listed = {f.get('id') for f in load_known_findings(self.id) if f.get('status') == 'known'}
            if 'F25' in self._listed:
                d = self._p(case)
                size, checked, fs = parse_shape(d['shape'])
                body = d['flat'][len(d['flat']) - size:]
                if checked and len(d['flat']) >= size and struct.unpack_from('<I', body, 0)[0] == crc32c(body[4:]):
                    return 'F25'
        return None

    # ------------------------------------------------------------------ the property, evaluated on the implementation's output
    def oracle(self, case, out):
        try:
            d = self._p(case)
        except Exception as e:
            return None
        if out == 'TRAP' or out.startswith('CRASH'):
            return 'implementation trapped (ASan/UBSan/SEGV): memory outside the supplied bytes was accessed'
        if out in ('BADCASE', 'BADTYPE'): return 'harness rejected the case: ' + out
        try:
            kv = parse_kv(out)
            size, checked, fs = parse_shape(d['shape'])
            flags = [c == '1' for c in d['cfg']]
            if d['kind'] == 'S': return self.oracle_S(d, kv, size, checked, fs, flags)
            return self.oracle_D(d, kv, size, checked, fs, flags)
        except AssertionError as e:
            return 'unparsable output: %r' % (str(e)[:200],)

    def oracle_S(self, d, kv, size, checked, fs, flags):
        mem = parse_mem(kv['mem'])
        beg, el = parse_iov(kv['iov'])
        if kv['full'] == '1': return None        # more than 28 pieces: serialize reports iovfull (precondition of the round trip)
        pieces = []
        for b, l in el:
            c = follow(mem, b, l)
            if c is None: return 'serializer emitted an iovec outside the sender memory: (%d,%d)' % (b, l)
            pieces.append(c)
        flat = b''.join(pieces)
        # expected stream, from the sender memory and the shape: fields in archive order, then the body (the serializer itself
        # only writes summed_size words and the checksum; pointers and lengths are the sender's)
        regs = mem
        for r0, r1 in zip(d['regions'], mem):
            if len(r0) != len(r1): return 'serializer changed the size of the sender memory'
        init_cs = struct.unpack_from('<I', d['regions'][0], 0)[0] if checked else 0
        front = bytearray()
        def fld(f, base, nested):
            o = base + f.off
            if f.kind == 'F': return
            if f.kind in 'BSXA':
                if f.kind == 'A' and nested and not flags[2]: return
                p, n = u64(follow(regs, o, 8), 0), u64(follow(regs, o + 8, 8), 0)
                front.extend(follow(regs, p, n))
            elif f.kind in 'IJ':
                if f.kind == 'J' and nested and not flags[2]: return
                p, n = u64(follow(regs, o, 8), 0), u64(follow(regs, o + 8, 8), 0)
                for i in range(n // 16):
                    b, l = u64(follow(regs, p + 16 * i, 8), 0), u64(follow(regs, p + 16 * i + 8, 8), 0)
                    front.extend(follow(regs, b, l))
            elif f.kind == 'R':
                p, n = u64(follow(regs, o, 8), 0), u64(follow(regs, o + 8, 8), 0)
                front.extend(follow(regs, p, n))
                if active(f.sub):
                    for i in range(n // f.n):
                        for g in f.sub: fld(g, p + i * f.n, True)
            elif f.kind == 'N':
                for g in f.sub: fld(g, o, True)
            elif f.kind == 'M':
                for oo in (o, o + 16):
                    p, n = u64(follow(regs, oo, 8), 0), u64(follow(regs, oo + 8, 8), 0)
                    front.extend(follow(regs, p, n))
        for f in fs:
            if f.kind in 'AJ': fld(f, ARENA, False)
        for f in fs:
            if f.kind not in 'AJ': fld(f, ARENA, False)
        if flat[:len(flat) - size] != bytes(front):
            return 'serialized stream differs from the concatenation of the fields in archive order'
        body = flat[len(flat) - size:]
        if len(flat) < size or el[-1] != (ARENA, size): return 'the message body is not the last iovec'
        if checked:
            if init_cs == 0:
                if struct.unpack_from('<I', body, 0)[0] != checksum_of(bytes(front), body): return 'checksum does not cover exactly the emitted bytes'
        # round trip on the flat stream: the reference deserializer must accept it and give the fields back
        if not checked or init_cs == 0:
            try:
                Ref(flat, flags).message(fs, size, checked)
            except RefFail:
                return 'reference deserializer rejects the serialized stream'
        return None

    def in_supplied(self, d, mem, p, n):
        """[p,p+n) lies inside one iovec element of the case or inside an allocation made by the iovector"""
        if n == 0: return True
        x = p - ARENA
        if x < 0: return False
        r, off = x // STRIDE, x % STRIDE
        if r >= len(mem): return False
        if r >= len(d['regions']): return off + n <= len(mem[r])
        return any(er == r and eo <= off and off + n <= eo + en for er, eo, en in d['iov'])

    def cmp_tree(self, d, mem, items, exp, fs, where, inside=None):
        """compare the walked fields with the reference contents and check the bounds"""
        inside = inside or (lambda p, n: self.in_supplied(d, mem, p, n))
        if len(items) != len(fs): return 'walk has %d items for %d fields' % (len(items), len(fs))
        for it, ex, f in zip(items, exp if exp is not None else [None] * len(fs), fs):
            w = '%s+%d' % (where, f.off)
            if it[0] == 'F':
                if ex is not None and it[1] != ex[1]: return 'fixed field %s changed' % w
            elif it[0] in 'BS':
                p, n, b = it[1], it[2], it[3]
                if ex is not None and ex[0] == 'skip': continue
                if n and not inside(p, n): return 'field %s = (%d,%d) is not inside the supplied bytes' % (w, p, n)
                if ex is not None and b != ex[1]: return 'field %s content differs from the sent bytes' % w
                if it[0] == 'S':
                    if it[4] != (n - 1 if n else 0): return 'sv() of %s has length %d for a string of size %d' % (w, it[4], n)
                    if it[5] != b[:it[4]]: return 'sv() of %s reads other bytes than the field' % w
            elif it[0] == 'A':
                p, n, b, es = it[1], it[2], it[3], it[4]
                if n and not inside(p, n): return 'array %s = (%d,%d) is not inside the supplied bytes' % (w, p, n)
                if ex is not None:
                    if n != len(ex[1]): return 'array %s length differs' % w
                    if len(es) != len(ex[2]): return 'array %s element count differs' % w
                    for i, (e, xe) in enumerate(zip(es, ex[2])):
                        r = self.cmp_tree(d, mem, e, xe, f.sub, '%s[%d]' % (w, i), inside)
                        if r: return r
                else:
                    for i, e in enumerate(es):
                        r = self.cmp_tree(d, mem, e, None, f.sub, '%s[%d]' % (w, i), inside)
                        if r: return r
            elif it[0] == 'I':
                if ex is not None and ex[0] == 'skip': continue
                p, n, s, parts = it[1], it[2], it[3], it[4]
                if n and not inside(p, n): return 'iovec array %s = (%d,%d) is not inside an allocation' % (w, p, n)
                for b, l, dd in parts:
                    if l and not inside(b, l): return 'iovec (%d,%d) of %s is not inside the supplied bytes' % (b, l, w)
                if s != sum(l for _, l, _ in parts): return 'summed_size of %s is not the sum of its iovecs' % w
                if ex is not None and b''.join(dd for _, _, dd in parts) != ex[1]: return 'iovec array %s content differs from the sent bytes' % w
            elif it[0] == 'N':
                r = self.cmp_tree(d, mem, it[1], ex[1] if ex is not None else None, f.sub, w, inside)
                if r: return r
            elif it[0] == 'M':
                ip, inn, ib, bp, bn, bb = it[1:]
                if inn and not inside(ip, inn): return 'map index %s not inside the supplied bytes' % w
                if bn and not inside(bp, bn): return 'map base buffer %s not inside the supplied bytes' % w
                if ex is not None and (ib != ex[1] or bb != ex[2]): return 'map %s content differs from the sent bytes' % w
        return None

    def oracle_D(self, d, kv, size, checked, fs, flags):
        ret = int(kv['ret'])
        mem = parse_mem(kv['mem'])
        exp = self._ref(d)
        if ret == 0:
            if exp is not None and int(kv['nb']) < 32:
                return 'deserialize rejected a well-formed stream (reference deserializer accepts it)'
            return None
        if exp is None:
            return 'deserialize accepted a stream the reference rejects (short field, bad checksum or missing body)'
        if not self.in_supplied(d, mem, ret, size): return 'message body (%d,%d) not inside the supplied bytes' % (ret, size)
        items = P(kv['walk']).items('\0')
        r = self.cmp_tree(d, mem, items, exp, fs, 'msg')
        if r: return r
        if d['ops'] == '~x' and checked:
            return 'an altered copy of a valid checked message was accepted (the checksum does not cover the altered byte)'
        if kv['ops'] != '-':
            return self.oracle_ops(d, kv, fs, items, exp)
        return None

    def oracle_ops(self, d, kv, fs, items, exp):
        mf = [f for f in fs if f.kind == 'M'][0]
        mi = [it for it in items if it[0] == 'M'][0]
        ip, inn, ib, bp, bn, bb = mi[1:]
        inside = lambda p, n: n == 0 or (bp <= p and p + n <= bp + bn)
        # is the map well-formed (every slice inside the base buffer, keys sorted, values deserializable)?  then lookups must be exact
        ent = [struct.unpack_from('<qQqQ', ib, 32 * i) for i in range(inn // 32)]
        def good(e):
            ko, kl, vo, vl = e
            return 0 <= ko and kl >= 1 and ko + kl <= bn and 0 <= vo and vo + vl <= bn
        wf = all(good(e) for e in ent)
        # exact lookup results are only required of maps whose slices do not overlap (Iterator::deserialize rewrites the
        # pointers of a value in place, which changes the bytes of any key slice laid over it)
        iv = sorted([(ko, ko + kl) for ko, kl, _, _ in ent] + [(vo, vo + vl) for _, _, vo, vl in ent if vl])
        wf = wf and all(a[1] <= b[0] for a, b in zip(iv, iv[1:]))
        pr = P(kv['ops'])
        ops = d['ops'].split(',')
        for op in ops:
            if op == 'I':
                pr.eat('I'); pr.eat('[')
                k = 0
                while pr.s[pr.i] != ']':
                    kp, kn, sn, sv, v = pr.pair()
                    if kn and not inside(kp, kn): return 'map iteration: key (%d,%d) outside the base buffer (%d,%d)' % (kp, kn, bp, bn)
                    r = self.cmp_tree(d, None, v, None, mf.sub, 'map[%d].value' % k, inside)
                    if r: return r
                    if wf and k < len(ent):
                        ko, kl, vo, vl = ent[k]
                        try:
                            Ref(bb[vo:vo + vl], [True] * 5).message(mf.sub, mf.n, False); okv = True
                        except RefFail:
                            okv = False
                        if okv and (kp, kn) != (bp + ko, kl): return 'map iteration: entry %d key is (%d,%d), index says (%d,%d)' % (k, kp, kn, bp + ko, kl)
                    k += 1
                    if pr.s[pr.i] == ';': pr.i += 1
                pr.eat(']')
                if k != inn // 32: return 'map iteration visited %d of %d entries' % (k, inn // 32)
            else:
                key = bytes.fromhex(op[2:])
                pr.eat('F'); pr.eat('(')
                if pr.s.startswith('end', pr.i):
                    pr.i += 3; found = None
                else:
                    pos = pr.num(); pr.eat(','); found = (pos,) + pr.pair()
                pr.eat(')')
                if found:
                    pos, kp, kn, sn, sv, v = found
                    if kn and not inside(kp, kn): return 'map find: key (%d,%d) outside the base buffer' % (kp, kn)
                    r = self.cmp_tree(d, None, v, None, mf.sub, 'map.find.value', inside)
                    if r: return r
                if wf and exp is not None:
                    keys = [bb[ko:ko + kl - 1] for ko, kl, _, _ in ent]
                    if keys == sorted(keys) and len(key) >= 1:
                        import bisect
                        want = bisect.bisect_left(keys, key[:-1])
                        if want == len(keys):
                            if found: return 'map find(%r): expected end()' % key
                        elif not found or found[0] != want:
                            return 'map find(%r): expected position %d' % (key, want)
            if pr.i < len(pr.s) and pr.s[pr.i] == ',': pr.i += 1
        return None

    def neighbours(self, case, rng):
        return []
