# C04 — sleep / timeout / interrupt contract.  Engines: E1 (sleep-queue heap, `H` cases) and
# E2 (thread programs on the real scheduler under the virtual clock, `P` cases).
# Model: coq/C04 (heap) + coq/Sched (scheduler); harness: harness/C04 (heap) + harness/E2.
import sys, stat
from vlib import *
sys.path.insert(0, os.path.join(VERIF, 'harness', 'E2'))
sys.path.insert(0, os.path.join(VERIF, 'harness', 'C04'))
import e2lib

MAX64 = (1 << 64) - 1
EPERM, EINTR, EINVAL = 1, 4, 22
SHUTDOWN_CAP = 10000
BLOCKING = ('usleep', 'join', 'yield', 'yield_to')


def u64(x):
    return x + (1 << 64) if x < 0 else x


# ------------------------------------------------------------------ generator -----
def gen_prog(rng, big=False):
    n = rng.randint(2, 6)
    pal = rng.choice([[100, 100, 200], [50, 100, 150, 200], [100], [10, 20, 30, 40, 50, 60], [100, 100, 100, 300],
                      [9000, 10000, 11000, 15000], [1, 2, 3], [100, 200, 300, 400, 500, 600, 700]])
    errs = [4, 4, 4, 11, 125, 1, 4, 11]

    def dur():
        r = rng.random()
        if r < .08: return 0
        if r < .15: return -1
        if r < .17: return MAX64 - 1
        if r < .18: return 20000000
        if r < .24: return rng.choice([9999, 10000, 10001, 15000])
        return rng.choice(pal)

    def gen_op(k):
        r = rng.random()
        if r < .36: return ('usleep', [dur()])
        if r < .52: return ('yield', [])
        if r < .74:
            e = 0 if rng.random() < .04 else rng.choice(errs)
            return ('interrupt', [rng.randrange(n), e])
        if r < .79: return ('yield_to', [rng.randrange(n)])
        if r < .84: return ('shutdown', [rng.randrange(1, n), 1 if rng.random() < .8 else 0])
        if r < .90: return ('join', [rng.randrange(1, n)])
        if r < .95: return ('state', [rng.randrange(n)])
        return ('nop', [])

    lo, hi = (3, 12) if not big else (8, 30)
    threads = [[gen_op(k) for _ in range(rng.randint(lo, hi))] for k in range(n)]
    style = rng.random()
    if style < .15:        # pure sleepers + one interrupter: equal / staggered / infinite deadlines
        for k in range(1, n):
            threads[k] = [('usleep', [dur()]) for _ in range(rng.randint(2, 6))]
    elif style < .25:      # yield storms: interrupts land on READY threads
        for k in range(1, n):
            threads[k] = [rng.choice([('yield', []), ('yield', []), ('usleep', [rng.choice(pal)]), ('interrupt', [rng.randrange(n), rng.choice(errs)])])
                          for _ in range(rng.randint(3, 12))]
    for k in range(1, n):
        j = 1 if rng.random() < .5 else 0
        creator = 0 if (rng.random() < .85 or k == 1) else rng.randrange(0, k)
        pos = 0 if rng.random() < .7 else rng.randint(0, len(threads[creator]))
        # keep creates of the same creator in ascending order at the front
        if pos == 0:
            pos = sum(1 for o in threads[creator][:n] if o[0] == 'create')
            pos = min(pos, len(threads[creator]))
        threads[creator].insert(pos, ('create', [k, j]))
    return e2lib.fmt_case([], threads)


# ------------------------------------------------------------------ the property oracle -----
def analyse(case, out):
    """The property evaluated on the IMPLEMENTATION's trace (independent of the Coq model).
    Returns a list of (kind, message); kind 'F6'/'F8' = the exact shape of a listed known finding,
    'viol' = anything else.
    Facts used: in E2 virtual time advances only when the vCPU is idle, and then exactly to the next
    deadline, so a sleep that runs to its deadline must return AT the deadline; an op's issue time is
    the return time of the thread's previous op (for the first op of a created thread only a lower
    bound, the time of its `create`, is known)."""
    res = []
    if out.startswith(('CRASH', 'HANG', 'NONDET', 'NOOUTPUT', 'BADCASE', 'INITFAIL', 'PIPEFAIL')):
        return [('viol', 'implementation failed: ' + out[:200])]
    r = e2lib.parse_result(out)
    if r is None:
        return [('viol', 'unparsable output: %r' % out[:200])]
    if r['flag']:
        return [('viol', 'run did not end normally: ' + r['flag'])]
    _, threads = e2lib.parse_case(case)
    tr = r['tr']
    n = len(threads)
    prev = {0: (e2lib.VCLOCK_START, -1, True)}    # tid -> (issue time of its next op, seq of that moment, exact?)
    shut_hist = {k: [] for k in range(n)}         # (seq, flag) of completed thread_shutdown calls
    pend = {k: [] for k in range(n)}              # interrupts aimed at k not yet matched: [errno, time, seq]
    yielded = {k: [] for k in range(n)}           # pend entries already reported by a yield of k

    def flag_at(t, s):
        f = False
        for (q, fl) in shut_hist[t]:
            if q < s: f = fl
        return f

    def shut_since(t, s):                          # time of the shutdown(.,1) that is in force at seq s
        tm = None
        for (q, fl, when) in [(q, fl, w) for (q, fl), w in zip(shut_hist[t], shut_when[t])]:
            if q < s: tm = when if fl else None
        return tm
    shut_when = {k: [] for k in range(n)}

    for seq, (t, pc, ret, err, now) in enumerate(tr):
        if t >= n or pc >= len(threads[t]):
            res.append(('viol', 'trace event for a non-existent op %d.%d' % (t, pc))); continue
        name, args = threads[t][pc]
        if t not in prev:
            res.append(('viol', 'T%d ran but was never created' % t)); prev[t] = (now, seq, False)
        issue, iseq, exact = prev[t]
        if name == 'create' and ret == 0 and args[0] < n:
            prev[args[0]] = (now, seq, False)
        if name == 'interrupt' and ret == 0 and args[0] < n:
            pend[args[0]].append([args[1], now, seq])
        if name == 'shutdown' and ret == 0 and args[0] < n:
            shut_hist[args[0]].append((seq, bool(args[1]))); shut_when[args[0]].append(now)
            pend[args[0]].append([EPERM, now, seq])        # thread_shutdown (either flag) interrupts a SLEEPING target with EPERM
        d = u64(args[0]) if name == 'usleep' else None
        # ---- yields (thread_yield, thread_yield_to, and usleep(0) = yield_as_sleep) ----
        y = None
        if name in ('yield', 'yield_to') and ret > 0: y = ret
        if name == 'usleep' and d == 0 and ret == -1: y = err
        if name == 'usleep' and d == 0 and ret not in (0, -1):
            res.append(('viol', 'T%d.%d usleep(0) returned %d' % (t, pc, ret)))
        if y is not None:
            m = [p for p in pend[t] if p[0] == y and p[2] > iseq] or [p for p in pend[t] if p[0] == y]
            if not m:
                res.append(('viol', 'T%d.%d %s returned errno %d but no thread_interrupt(T%d, %d) was issued' % (t, pc, name, y, t, y)))
            elif m[-1] in yielded[t]:
                res.append(('F6', 'T%d.%d %s reports errno %d of an interrupt already reported by an earlier yield' % (t, pc, name, y)))
            else:
                yielded[t].append(m[-1])
        # ---- real sleeps ----
        if name == 'usleep' and d != 0:
            deadline = min(MAX64, issue + d)
            flagged = flag_at(t, iseq + 1) if exact else flag_at(t, seq)
            if ret == 0:
                if flagged and exact:
                    res.append(('viol', 'T%d.%d usleep of a thread already marked by thread_shutdown returned 0' % (t, pc)))
                m0 = [p for p in pend[t] if p[0] == 0]              # thread_resume = thread_interrupt(th, 0)
                if exact and now < deadline and not m0:
                    res.append(('viol', 'T%d.%d usleep(%d) issued at %d returned 0 at %d, before its deadline %d' % (t, pc, d, issue, now, deadline)))
                if not exact and now < min(MAX64, issue + d) and not m0:
                    res.append(('viol', 'T%d.%d usleep(%d) returned 0 at %d, less than %d after its thread was created (%d)' % (t, pc, d, now, d, issue)))
                if exact and now > deadline and not flagged:
                    res.append(('viol', 'T%d.%d usleep(%d) returned 0 at %d, later than the scheduling round of its deadline %d' % (t, pc, d, now, deadline)))
                if m0 and now < deadline: pend[t].remove(m0[0])
            elif ret == -1:
                cap_from = issue if flagged else None
                m = [p for p in pend[t] if p[0] == err]
                if flagged and err == EPERM and exact and not [p for p in m if p[2] > iseq]:
                    # do_shutdown_usleep: capped sleep, EPERM
                    if now > issue + SHUTDOWN_CAP:
                        res.append(('viol', 'T%d.%d thread marked by thread_shutdown slept %d us > 10 ms' % (t, pc, now - issue)))
                elif not m:
                    res.append(('viol', 'T%d.%d usleep returned -1 errno %d but no thread_interrupt(T%d, %d) precedes it' % (t, pc, err, t, err)))
                else:
                    p = m[0]
                    if p in yielded[t]:
                        res.append(('F6', 'T%d.%d usleep(%d) returned -1 errno %d for an interrupt that an earlier yield of T%d had already reported (delivered at %d)' % (t, pc, d, err, t, p[1])))
                        yielded[t].remove(p)
                    elif exact and p[2] <= iseq and now >= deadline:
                        res.append(('F6', 'T%d.%d usleep(%d) slept its full time (%d..%d) and returned -1 errno %d for an interrupt delivered at %d, before the sleep began' % (t, pc, d, issue, now, err, p[1])))
                    elif not exact and now >= min(MAX64, issue + d) and p[1] <= now - d:
                        res.append(('F6', 'T%d.%d first usleep(%d) of a new thread slept fully and returned -1 errno %d for an interrupt delivered before the thread first ran (F7)' % (t, pc, d, err)))
                    pend[t].remove(p)
                if exact and now > deadline:
                    res.append(('viol', 'T%d.%d usleep(%d) returned at %d, later than the scheduling round of its deadline %d' % (t, pc, d, now, deadline)))
            else:
                res.append(('viol', 'T%d.%d usleep returned %d' % (t, pc, ret)))
        # ---- shutdown bound for wait-queue blocking (only thread_join in the core op set) ----
        if name == 'join' and ret >= 0:
            since = shut_since(t, seq)
            if since is not None and now > max(issue, since) + SHUTDOWN_CAP:
                res.append(('F8', 'T%d.%d thread marked by thread_shutdown stayed blocked %d us > 10 ms in thread_join (wait-queue sleeps are not capped)' % (t, pc, now - max(issue, since))))
        prev[t] = (now, seq, True)
    for (t, pc) in r['blocked']:
        if t < n and pc < len(threads[t]):
            name, args = threads[t][pc]
            fl = flag_at(t, len(tr) + 1)
            if fl and name == 'join':
                res.append(('F8', 'T%d.%d thread marked by thread_shutdown is blocked for ever in thread_join' % (t, pc)))
            elif fl and name == 'usleep':
                res.append(('viol', 'T%d.%d thread marked by thread_shutdown is blocked for ever in usleep' % (t, pc)))
            elif name == 'usleep' and 0 < u64(args[0]) < MAX64 - (1 << 40):
                res.append(('viol', 'T%d.%d finite usleep(%d) never returned' % (t, pc, u64(args[0]))))
    return res


class Check(DiffCheck):
    id = 'C04'
    # lockset engine (lib/lockset.py): sleep / timeout / interrupt / standby blocks happen under thread.lock (+ waitq.lock / standbyq.lock)
    lockset_rules = {11, 12, 13, 14, 15, 17}
    # E4S (lib/e4s.py): cross-vCPU sleep / interrupt / shutdown scenarios with the C04 contract oracle
    e4s_props = {'C04'}
    needs_libphoton = True
    coq_dirs = ['Base', 'C04', 'Sched']
    coq_targets = ['C04/C04_HeapProofs.vo', 'Sched/Invariant.vo', 'Sched/Effects.vo', 'Sched/Example.vo', 'C04/C04_Inv.vo', 'C04/C04_Good.vo',
                   'C04/C04_Step.vo', 'C04/C04_Step2.vo', 'C04/C04_Proofs.vo', 'C04/C04_Proofs2.vo']
    properties_v = 'C04/C04_Properties.v'
    extract_v = 'C04/C04_Extract.v'
    model_module = 'C04_model'
    rule = ('H cases (E1, sleep-queue heap): corpus; exhaustive op sequences over 4 threads with deadlines {1,1,2,2^64-1}; random longer '
            'sequences with ties. P cases (E2, real scheduler under the virtual clock): random programs of 2-6 threads x 3-12 ops '
            '(usleep with equal/staggered/infinite/zero deadlines, yield, yield_to, interrupt, shutdown, create, join, state). '
            'non-trivial = heap: >= 3 pushes and a pop(t); program: an interrupt/shutdown, or two sleeps with equal deadlines')
    assumptions = ['single vCPU (cross-vCPU interrupts / standby queue not exercised)', 'interrupt errno != 0 in the theorems (thread_interrupt(th,0) is thread_resume)']
    trusted_base = ['E2 hooks H-clock/H-idle (repo_patches/E2-hooks.diff): virtual clock replaces clock_gettime/tsc, idle wait replaced by clock advance']
    partial_note = 'single-vCPU only: the cross-vCPU interrupt path (standbyq) is modelled but not tied to the code (E4 not built)'
    case_timeout = 1500

    def __init__(self):
        parts = ['ocaml/E2_lib.ml', 'ocaml/C04_heap_run.ml', 'ocaml/C04_run.ml']
        self.runner_ml = e2lib.make_runner(self.id, parts)
        self._last = None

    def build_impl(self):
        e2 = e2lib.build_impl(self.id, out=os.path.join(BUILD, 'bin', 'C04_e2'))
        heap, log = cxx_build(self.id, ['harness/C04/heap_harness.cpp'], out=os.path.join(BUILD, 'bin', 'C04_heap'),
                               extra='-ffunction-sections -fdata-sections -Wl,--gc-sections')
        if not heap: raise RuntimeError(log[-3000:])
        disp = os.path.join(BUILD, 'bin', 'C04_impl')
        open(disp, 'w').write('#!/bin/sh\nexec python3 %s %s %s "$1"\n' % (os.path.join(VERIF, 'harness', 'C04', 'dispatch.py'), heap, e2))
        os.chmod(disp, 0o755)
        return disp

    def gen_cases(self, tier, rng):
        cs = []
        cp = os.path.join(VERIF, 'replay', 'corpus', 'C04.cases')
        if os.path.exists(cp):
            cs += [l.strip() for l in open(cp) if l.strip() and not l.startswith('#')]
        import heap_gen
        hs = heap_gen.heap_cases(tier, rng)
        nprog = 1500 if tier == 'quick' else 40000
        ps = [gen_prog(rng, big=(i % 10 == 9)) for i in range(nprog)]
        # interleave the (slow, one fork per run) program cases evenly among the (fast) heap cases so
        # that run_cases' contiguous shards all get the same share of them
        step = max(1, len(hs) // max(1, len(ps)))
        k = 0
        for i, h in enumerate(hs):
            if i % step == 0 and k < len(ps):
                cs.append(ps[k]); k += 1
            cs.append(h)
        cs += ps[k:]
        return list(dict.fromkeys(cs))

    def canon(self, line):
        self._last = line.strip()
        return self._last

    def nontrivial(self, case):
        if case.startswith('H'):
            ops = case.split()[2:]
            return sum(1 for o in ops if o[0] == 'u') >= 3 and any(o[0] == 'o' for o in ops)
        _, th = e2lib.parse_case(case)
        ops = [o for t in th for o in t]
        if any(o[0] in ('interrupt', 'shutdown') for o in ops): return True
        ds = [o[1][0] for o in ops if o[0] == 'usleep']
        return len(ds) != len(set(ds))

    def category(self, case):
        if case.startswith('H'): return 'H:len%d' % min(8, len(case.split()) - 2)
        _, th = e2lib.parse_case(case)
        ops = [o[0] for t in th for o in t]
        return 'P:%dthr:%s' % (len(th), '+'.join(k for k in ('interrupt', 'shutdown', 'join', 'yield') if k in ops) or 'sleep')

    def oracle(self, case, out):
        if case.startswith('H'):
            return heap_oracle(case, out)
        a = analyse(case, out)
        return a[0][1] if a else None

    def known_class(self, case):
        # classification needs the implementation's trace: `canon` (called on the implementation's
        # line immediately before this) stashed it.  A case is in a known class only if EVERY
        # failure the oracle sees in it has the exact shape of that finding.
        if case.startswith('H') or self._last is None: return None
        a = analyse(case, self._last)
        kinds = set(k for k, _ in a)
        if a and 'viol' not in kinds:
            return 'F6' if 'F6' in kinds else 'F8'
        return None

    def neighbours(self, case, rng):
        if case.startswith('H'): return []
        # drop one op at a time
        d, th = e2lib.parse_case(case)
        out = []
        for k in range(len(th)):
            for i in range(len(th[k])):
                if th[k][i][0] == 'create': continue
                t2 = [list(x) for x in th]; del t2[k][i]
                out.append(e2lib.fmt_case(d, t2))
        return out[:200]


def heap_oracle(case, out):
    """min-heap property evaluated on the implementation's own output: every pop_front result is a
    minimum of the deadlines queued at that moment; the final queue is a heap; idx is the inverse of q"""
    if out.startswith('CRASH'): return 'implementation crashed: ' + out
    try:
        f = dict(kv.split('=', 1) for kv in out.split(' ') if '=' in kv)
        q = [int(x) for x in f['q'].split(',') if x != '']
        idx = [int(x) for x in f['idx'].split(',') if x != '']
        rs = [int(x) for x in f['r'].split(',') if x != '']
    except Exception:
        return 'unparsable output %r' % out[:200]
    w = case.split()
    n = int(w[1]); ops = w[2:]
    ts = {}; inq = []
    if len(rs) != len(ops): return 'result count mismatch'
    for o, r in zip(ops, rs):
        if o[0] == 'u':
            t, d = o[1:].split(':'); t = int(t)
            if t in inq:
                if r != -2: return 'push of a queued thread not skipped'
            else:
                ts[t] = int(d); inq.append(t)
        elif o == 'f':
            if not inq:
                if r != -2: return 'pop_front on empty queue not skipped'
            else:
                if r not in inq: return 'pop_front returned %d which is not queued' % r
                if any(ts[x] < ts[r] for x in inq): return 'pop_front returned %d (deadline %d) but a smaller deadline is queued' % (r, ts[r])
                inq.remove(r)
        elif o[0] == 'o':
            t = int(o[1:])
            if t in inq:
                if r != 0: return 'pop(%d) of a queued thread returned %d' % (t, r)
                inq.remove(t)
            elif r != -1: return 'pop(%d) of a thread not queued returned %d' % (t, r)
    if sorted(q) != sorted(inq): return 'final queue %s is not the set of queued threads %s' % (q, sorted(inq))
    for i, t in enumerate(q):
        if i > 0 and ts[q[(i - 1) // 2]] > ts[t]: return 'heap order violated at position %d' % i
        if idx[t] != i: return 'idx[%d]=%d but it is at position %d' % (t, idx[t], i)
    for t in range(n):
        if t not in q and idx[t] != -1: return 'idx[%d]=%d but it is not queued' % (t, idx[t])
    return None
