# C18 — RangeLock: model coq/C18, harness harness/C18 (real RangeLock inside photon on one vCPU,
# scripted op lists executed by worker photon threads), engine E1/E2 (differential, line by line).
import re, itertools
from vlib import *

W = 1 << 64
MAX64 = W - 1
NW = 8                      # worker threads in the harness (tids 0..7)
LOCKK = ('T', 'W', 'L')

# ------------------------------------------------------------------ parsing ----
def parse_case(case):
    ops = []
    for s in case.split(';'):
        if not s: continue
        f = s.split(',')
        k, t = f[0], int(f[1])
        if k in ('T', 'W', 'L', 'U'): ops.append((k, t, None, int(f[2]), int(f[3])))
        elif k in ('H', 'I'): ops.append((k, t, int(f[2]), None, None))
        elif k == 'A': ops.append((k, t, None if f[2] == '-' else int(f[2]), int(f[3]), int(f[4])))
        else: raise ValueError(s)
    return ops

EV_RE = re.compile(r'(acq|fail|ret|busy|stale|ub)\(([^)]*)\)')
ENT_RE = re.compile(r'(\d+):(\d+)#(\d+|\?)\{([^}]*)\}')
def parse_out(line):
    segs = []
    for s in line.split(' | '):
        evpart, dumppart = s.split(';', 1)
        evs = []
        for m in EV_RE.finditer(evpart):
            a = m.group(2).split(',')
            if m.group(1) == 'acq': evs.append(('acq', int(a[0]), a[1], int(a[2].lstrip('#'))))
            elif m.group(1) == 'fail': evs.append(('fail', int(a[0]), a[1], int(a[2]), int(a[3])))
            elif m.group(1) == 'ret': evs.append(('ret', int(a[0]), int(a[1])))
            else: evs.append((m.group(1), int(a[0])))
        dump = []
        for m in ENT_RE.finditer(dumppart):
            dump.append((int(m.group(1)), int(m.group(2)), -1 if m.group(3) == '?' else int(m.group(3)),
                         [int(x) for x in m.group(4).split(',') if x]))
        segs.append((evs, dump))
    return segs

def bytes_overlap(a, b):        # byte sets [o, min(o+l, 2^64)) intersect
    (o1, l1), (o2, l2) = a, b
    return l1 > 0 and l2 > 0 and o1 < min(o2 + l2, W) and o2 < min(o1 + l1, W)
def conflicts(a, b):            # interval conflict (true arithmetic): an empty range conflicts when strictly inside
    (o1, l1), (o2, l2) = a, b
    return o1 < o2 + l2 and o2 < o1 + l1

# ---------------------------------------------------------------- the oracle ----
# The PROPERTY evaluated on the implementation's output, independently of the Coq model.
# "user view": what the callers are entitled to believe from the RETURN VALUES alone:
#   acquired (return 0 / handle) -> held until released by unlock(handle) or by an
#   unlock(offset,length) whose range covers it; adjust_range returning 0 changes it.
# checked after every op, at quiescence:
#   overlap            two held ranges share a byte
#   leak / leak0 / lost  m_index differs from the user view (leak0: only zero-length extras)
#   blocked-while-free a thread is parked although no held range conflicts with its request
#   adjust-no-wake     same, and the entry it is parked on was adjusted while it waited
#   waiter-mismatch    parked threads of the dump != threads inside a blocking call
#   conflict-range     try_lock_wait reported a range that is not (held range ∩ request)
#   stale-mismatch / protocol   handle liveness / event discipline broken
_JC = {}
def judge(case, out):
    k = (case, out)
    if k not in _JC:
        if len(_JC) > 4: _JC.clear()
        _JC[k] = _judge(case, out)
    return _JC[k]

def _judge(case, out):
    if out.startswith('CRASH') or out == 'BADCASE' or not out:
        return ('crash', 'implementation crashed / no output: %r' % out[:200])
    try:
        ops = parse_case(case); segs = parse_out(out)
    except Exception as e:
        return ('parse', 'unparsable output %r (%s)' % (out[:200], e))
    if len(ops) != len(segs):
        return ('parse', '%d ops but %d output segments' % (len(ops), len(segs)))
    held = {}            # id -> (o, l)
    blocked = {}         # tid -> dict(k, o, l, snap=[(o,l)...], adjusted=set(ids))
    nextid = 0
    for n, ((k, t, hid, o, l), (evs, dump)) in enumerate(zip(ops, segs)):
        where = 'after op %d (%s)' % (n, case.split(';')[n])
        issued = None
        if not (evs and evs[0] == ('busy', t)):
            if t in blocked:
                return ('protocol', '%s: thread %d is inside a blocking call but the op was executed' % (where, t))
            if k in LOCKK: issued = dict(k=k, o=o, l=l)
        own_done = False
        for e in evs:
            if e[0] == 'busy':
                if e[1] not in blocked: return ('protocol', '%s: busy(%d) but thread is not blocked' % (where, e[1]))
                own_done = True
            elif e[0] == 'stale':
                if hid in held: return ('stale-mismatch', '%s: handle #%d is held by the user view but the node is gone' % (where, hid))
                own_done = True
            elif e[0] == 'ub':
                # second empty range at one point: std::set precondition violated, call not executed (F3)
                if e[1] == t and issued is not None and e[1] not in blocked: issued = None; own_done = True
                elif e[1] in blocked: blocked.pop(e[1])
                else: return ('protocol', '%s: ub(%d) without a request' % (where, e[1]))
            elif e[0] == 'ret':
                own_done = True
                if e[1] != t: return ('protocol', '%s: ret by thread %d' % (where, e[1]))
                if k == 'U':
                    for i in [i for i, (ho, hl) in held.items() if o <= ho and ho + hl <= o + l]:
                        del held[i]
                elif k == 'I':
                    if (e[2] == 0) != (hid in blocked): return ('protocol', '%s: interrupt returned %d but target blocked=%s' % (where, e[2], hid in blocked))
                elif k == 'H':
                    if hid not in held: return ('leak', '%s: unlock(handle #%d) executed on a node the user view had already released' % (where, hid))
                    del held[hid]
                elif k == 'A':
                    if hid is None:
                        if e[2] != -1: return ('protocol', '%s: adjust_range(nullptr) returned %d' % (where, e[2]))
                    elif hid not in held:
                        return ('leak', '%s: adjust_range(handle #%d) executed on a node the user view had already released' % (where, hid))
                    elif e[2] == 0:
                        held[hid] = (o, l)
                        for b in blocked.values(): b['adjusted'].add(hid)
                    elif e[2] != -1:
                        return ('protocol', '%s: adjust_range returned %d' % (where, e[2]))
            elif e[0] == 'acq':
                tt, kk, i = e[1], e[2], e[3]
                if issued is not None and tt == t and tt not in blocked: rq = issued; issued = None; own_done = True
                elif tt in blocked: rq = blocked.pop(tt)
                else: return ('protocol', '%s: acq by thread %d which has no outstanding request' % (where, tt))
                if rq['k'] != kk: return ('protocol', '%s: acq kind %s for a %s request' % (where, kk, rq['k']))
                if i != nextid: return ('protocol', '%s: node id %d, expected %d' % (where, i, nextid))
                nextid += 1
                held[i] = (rq['o'], rq['l'])
            elif e[0] == 'fail':
                tt, kk, co, cl = e[1], e[2], e[3], e[4]
                if tt not in blocked: return ('protocol', '%s: fail by thread %d which was not parked' % (where, tt))
                rq = blocked.pop(tt)
                if rq['k'] != kk or kk == 'L': return ('protocol', '%s: fail kind %s for a %s request' % (where, kk, rq['k']))
                if kk == 'T':
                    okr = any(co == xo and cl == min(xo + xl, rq['o'] + rq['l']) - xo and conflicts((xo, xl), (rq['o'], rq['l'])) for (xo, xl) in rq['snap'])
                    if not okr: return ('conflict-range', '%s: try_lock_wait(%d,%d) reported conflict (%d,%d), held when it parked: %s' % (where, rq['o'], rq['l'], co, cl, rq['snap']))
        if issued is not None:
            if own_done: return ('protocol', '%s: lock request neither completed nor parked' % where)
            issued['snap'] = list(held.values()); issued['adjusted'] = set()
            blocked[t] = issued
        # ---- state checks at quiescence
        hv = sorted(held.items())
        for a in range(len(hv)):
            for b in range(a + 1, len(hv)):
                if bytes_overlap(hv[a][1], hv[b][1]):
                    return ('overlap', '%s: held ranges #%d=%s and #%d=%s share a byte' % (where, hv[a][0], hv[a][1], hv[b][0], hv[b][1]))
        dv = sorted((i, (do, dl)) for (do, dl, i, _) in dump)
        if dv != hv:
            extra = [x for x in dv if x not in hv]; missing = [x for x in hv if x not in dv]
            if extra and not missing and all(x[1][1] == 0 for x in extra) and all(x[0] not in held for x in extra):
                return ('leak0', '%s: m_index still holds zero-length %s which the callers have released' % (where, extra))
            if extra and not missing:
                return ('leak', '%s: m_index still holds %s which the callers have released' % (where, extra))
            return ('lost', '%s: m_index=%s but callers hold %s' % (where, dv, hv))
        offs = [(do, dl) for (do, dl, _, _) in dump]
        if any(offs[i][0] > offs[i + 1][0] for i in range(len(offs) - 1)):
            return ('order', '%s: m_index is not ordered by offset: %s' % (where, offs))
        waiting = {}
        for (do, dl, i, ws) in dump:
            for w in ws:
                if w in waiting: return ('waiter-mismatch', '%s: thread %d parked on two nodes' % (where, w))
                waiting[w] = (i, (do, dl))
        if set(waiting) != set(blocked):
            return ('waiter-mismatch', '%s: parked threads %s but threads inside a blocking call %s' % (where, sorted(waiting), sorted(blocked)))
        for tt, rq in blocked.items():
            r = (rq['o'], rq['l'])
            if not any(conflicts(r, h) for h in held.values()):
                i, er = waiting[tt]
                kind = 'adjust-no-wake' if i in rq['adjusted'] else 'blocked-while-free'
                return (kind, '%s: thread %d is parked on node #%d=%s for request %s although no held range conflicts with it (held: %s)' % (where, tt, i, er, r, hv))
            i, er = waiting[tt]
            if not conflicts(r, er):
                kind = 'adjust-no-wake' if i in rq['adjusted'] else 'blocked-while-free'
                return (kind, '%s: thread %d is parked on node #%d=%s which does not conflict with its request %s' % (where, tt, i, er, r))
    return None

# ------------------------------------------------------------ known classes ----
def syntactic_classes(case):
    ops = parse_case(case)
    f4 = any(o is not None and o + l > MAX64 for (k, t, hid, o, l) in ops)
    f3 = False
    zero_at = set()
    for (k, t, hid, o, l) in ops:
        if k in LOCKK or (k == 'A' and hid is not None):
            if l == 0: zero_at.add(o)
        elif k == 'U':
            if o in zero_at or min(o + l, MAX64) in zero_at: f3 = True
    adj = any(k == 'A' and hid is not None for (k, t, hid, o, l) in ops)
    return f3, f4, adj


class Check(DiffCheck):
    id = 'C18'
    needs_libphoton = True
    coq_dirs = ['Base', 'C18']
    coq_targets = ['C18/C18_Proofs.vo', 'C18/C18_Waiters.vo']
    properties_v = 'C18/C18_Properties.v'
    extract_v = 'C18/C18_Extract.v'
    runner_ml = 'ocaml/C18_run.ml'
    model_module = 'C18_model'
    rule = ('case = op list (try_lock_wait / try_lock_wait2 / lock / unlock(off,len) / unlock(handle) / adjust_range, each by a named '
            'photon thread) run on the real RangeLock inside photon on one vCPU; after every op the completion events (return values, '
            'in order) and m_index with the threads parked on every node are compared with the model. corpus; ALL sequences of <=3 ops '
            'over offsets 0..3 x lengths 0..2 (51-op alphabet: T/L/U x 12 ranges, unlock(handle 0..2), adjust(#0, 12 ranges)), ALL of 4 ops over a '
            '19-op alphabet (thorough: 26-op, plus ALL of 4 ops over the 39-op alphabet without adjust), ALL of 5 over a 9-op alphabet, ALL of '
            '<=2 ops over the 64-bit edge universe {0,1,2^63,2^64-2,2^64-1} (thorough: 3 ops over a 38-op edge alphabet); PRNG: 4..14 ops, '
            '2..5 threads, offsets/lengths 0..6, all three lock kinds, stale handles, busy threads, and edge-value sequences. '
            'non-trivial = two requested ranges intersect, touch, are empty, or saturate')
    assumptions = ['theorem guards: offset+length <= 2^64-1 (class of known finding F4 beyond it) for rl_disjoint / rl_retry_succeeds / rl_unlock_erases / rl_adjust_safe; '
                   'length > 0 (class of known finding F3) for rl_retry_succeeds / rl_unlock_erases / rl_no_ub; rl_ordered, rl_waiter_woken, rl_no_stuck_waiter need no guard',
                   'the model is the code AFTER repo_patches/C18-fix-adjust-range-notify.diff (finding F20: adjust_range did not notify); the old behaviour is rl_adjust_prefix_refuted',
                   'handles passed to unlock(handle)/adjust_range name live nodes (anything else is UB in the C++; the harness does not execute it)',
                   'waiters of one condition variable resume in FIFO order on one vCPU (photon waitq; validated by the correspondence run, not proved)']
    trusted_base = ['m_lock (photon::spinlock) makes every RangeLock method body one atomic step; condition_variable::wait releases it atomically (properties C01/C03)',
                    'std::set replaced by its specification (ordered list); lower_bound_partition proves the tree descent equals the list scan under the ordering invariant']
    _last = None

    def build_impl(self):
        exe, log = cxx_build(self.id, ['harness/C18/harness.cpp'], libphoton=True)
        if not exe: raise RuntimeError(log)
        return exe

    def impl_env(self):
        e = DiffCheck.impl_env(self)
        e['PHOTON_CPU_AFFINITY'] = ''
        return e

    # ------------------------------------------------------------ generation ----
    @staticmethod
    def _seq(ops):
        """ops: list of (kind, a, b) templates; lock kinds get a fresh thread (1,2,..), the rest run on thread 0"""
        out = []; nt = 1
        for op in ops:
            k = op[0]
            if k in LOCKK: out.append('%s,%d,%d,%d' % (k, nt, op[1], op[2])); nt += 1
            elif k == 'U': out.append('U,0,%d,%d' % (op[1], op[2]))
            elif k == 'H': out.append('H,0,%d' % op[1])
            elif k == 'I': out.append('I,0,%d' % op[1])
            elif k == 'A': out.append('A,0,%s,%d,%d' % (op[1], op[2], op[3]))
        return ';'.join(out)

    def gen_cases(self, tier, rng):
        cs = []
        cp = os.path.join(VERIF, 'replay', 'corpus', 'C18.cases')
        if os.path.exists(cp):
            cs += [l.strip() for l in open(cp) if l.strip() and not l.startswith('#')]
        thorough = tier != 'quick'
        # E-A: all sequences of <= 3 ops, offsets 0..3 x lengths 0..2
        RA = [(o, l) for o in range(4) for l in range(3)]
        AA = [(k, o, l) for k in ('T', 'L', 'U') for (o, l) in RA] + [('H', i) for i in range(3)] + [('A', '0', o, l) for (o, l) in RA]
        for n in (1, 2, 3):
            for s in itertools.product(AA, repeat=n): cs.append(self._seq(s))
        # E-B: all sequences of 4 ops over a smaller alphabet
        RB = [(0, 2), (1, 2), (2, 1), (1, 0), (0, 4), (3, 1)]
        AB = [(k, o, l) for k in ('T', 'L', 'U') for (o, l) in RB] + [('H', 0), ('H', 1), ('I', 2), ('I', 3)] + [('A', '0', o, l) for (o, l) in [(0, 1), (1, 2), (0, 4), (2, 0)]]
        if thorough:
            for s in itertools.product(AB, repeat=4): cs.append(self._seq(s))
            AA4 = [a for a in AA if a[0] != 'A']
            for s in itertools.product(AA4, repeat=4): cs.append(self._seq(s))
        else:
            AB2 = [(k, o, l) for k in ('L', 'U') for (o, l) in RB[:5]] + [('T', 1, 2), ('T', 1, 0), ('H', 0), ('H', 1), ('A', '0', 0, 1), ('A', '0', 1, 2), ('A', '0', 0, 4), ('I', 2), ('I', 3)]
            for s in itertools.product(AB2, repeat=4): cs.append(self._seq(s))
        # E-C: all sequences of 5 ops over a tiny alphabet
        AC = [('L', 0, 2), ('L', 1, 2), ('L', 2, 1), ('U', 0, 2), ('U', 1, 2), ('U', 2, 1), ('H', 0), ('T', 1, 0), ('U', 1, 0)]
        for s in itertools.product(AC, repeat=5): cs.append(self._seq(s))
        # E-D: 64-bit edge universe, all sequences of <= 2 ops (thorough: 3 ops over a reduced alphabet)
        E = [0, 1, 1 << 63, W - 2, W - 1]
        RD = [(o, l) for o in E for l in E]
        AD = [(k, o, l) for k in ('T', 'L', 'U') for (o, l) in RD] + [('H', 0)] + [('A', '0', o, l) for (o, l) in RD]
        for n in (1, 2):
            for s in itertools.product(AD, repeat=n): cs.append(self._seq(s))
        if thorough:
            RD3 = [(o, l) for o in (0, 1 << 63, W - 2, W - 1) for l in (0, 1, 2, 1 << 63)]
            AD3 = [(k, o, l) for k in ('L', 'U') for (o, l) in RD3] + [('T', W - 1, 1), ('T', W - 10, 10), ('H', 0), ('A', '0', W - 2, 1), ('A', '0', W - 2, 2), ('A', '0', 0, W - 1)]
            for s in itertools.product(AD3, repeat=3): cs.append(self._seq(s))
        # PRNG
        nrand = 40000 if not thorough else 400000
        for _ in range(nrand):
            cs.append(self._random_case(rng))
        return list(dict.fromkeys(cs))

    def _random_case(self, rng):
        mode = rng.random()
        edge = mode < 0.12
        nthreads = rng.randrange(2, 6)
        nops = rng.randrange(4, 15)
        span = rng.choice((4, 7, 7, 7))
        E = [0, 1, 2, 1 << 63, (1 << 63) + 1, W - 3, W - 2, W - 1]
        def rrange():
            if edge:
                if rng.random() < 0.5:
                    o = rng.choice(E); l = rng.choice(E + [W - 1 - o, W - o if o else 0, max(0, W - 2 - o)])
                else:
                    o = W - rng.randrange(1, 8); l = rng.randrange(0, 9)
                return o % W, l % W
            if rng.random() < 0.85:
                o = rng.randrange(span); return o, rng.randrange(0, span - o + 1)     # inside [0,span]
            return rng.randrange(span), rng.randrange(span)
        ops = []
        mine = []           # ranges requested so far (for matched unlocks)
        nacq = 0            # upper bound of node ids handed out
        for _ in range(nops):
            x = rng.random()
            t = rng.randrange(nthreads)
            if x < 0.42 or not mine:
                k = rng.choice('TTWLLL'); o, l = rrange()
                ops.append('%s,%d,%d,%d' % (k, t, o, l)); mine.append((o, l)); nacq += 1
            elif x < 0.62:
                o, l = rng.choice(mine) if rng.random() < 0.8 else rrange()
                ops.append('U,%d,%d,%d' % (t, o, l))
            elif x < 0.80:
                ops.append('H,%d,%d' % (t, rng.randrange(0, nacq + 1)))
            elif x < 0.97:
                o, l = rrange()
                if rng.random() < 0.5 and mine:        # a neighbour of an existing range: grow/shrink by one
                    bo, bl = rng.choice(mine); o = max(0, bo + rng.choice((-1, 0, 0, 1))); l = max(0, bl + rng.choice((-1, 0, 1, 1)))
                    o = min(o, W - 1); l = min(l, W - 1)
                ops.append('A,%d,%d,%d,%d' % (t, rng.randrange(0, nacq + 1), o, l))
            elif x < 0.985:
                o, l = rrange(); ops.append('A,%d,-,%d,%d' % (t, o, l))
            else:
                ops.append('I,%d,%d' % (t, rng.randrange(nthreads)))
        return ';'.join(ops)

    # ------------------------------------------------------------ classification ----
    def nontrivial(self, case):
        ops = parse_case(case)
        rs = [(o, l) for (k, t, hid, o, l) in ops if k in LOCKK or (k == 'A' and hid is not None)]
        for a in range(len(rs)):
            if rs[a][1] == 0 or rs[a][0] + rs[a][1] > MAX64: return True
            for b in range(a + 1, len(rs)):
                (o1, l1), (o2, l2) = rs[a], rs[b]
                if o1 <= o2 + l2 and o2 <= o1 + l1: return True       # intersect or touch
        return False

    def category(self, case):
        f3, f4, adj = syntactic_classes(case)
        ops = parse_case(case)
        n = len(ops)
        big = any(o is not None and (o > 64 or l > 64) for (k, t, hid, o, l) in ops)
        thr = len(set(t for (k, t, hid, o, l) in ops))
        return '%s%s%s%s:ops=%s:thr=%d' % ('edge' if big else 'small', ':zero-unlock' if f3 else '', ':saturating' if f4 else '', ':adjust' if adj else '',
                                            n if n <= 5 else '6+', thr)

    def canon(self, line):
        line = line.strip()
        self._last = line           # main loop: canon(model), canon(impl), known_class(case), oracle(case, impl)
        return line

    def oracle(self, case, out):
        j = judge(case, out)
        return None if j is None else '[%s] %s' % j

    def known_class(self, case):
        """F4: some requested range has offset+length > 2^64-1 (end() saturates).
        F3: a zero-length range requested at p and a later unlock(o,l) with p == o or p == o+l, and the failure is
            'm_index keeps a zero-length node the callers released' (or its consequences).
        (F20 = 'adjust-no-wake' is a repaired finding and is NOT a known class: it is reported as a VIOLATION.)"""
        try: f3, f4, adj = syntactic_classes(case)
        except Exception: return None
        if f4: return 'F4'
        j = None
        if self._last is not None:
            try: j = judge(case, self._last)
            except Exception: j = None
        kind = j[0] if j else None
        if f3 and (kind is None or kind in ('leak0',)): return 'F3'
        # F20 (adjust_range without notify; oracle kind 'adjust-no-wake') is repaired in /repo: a fixed finding suppresses nothing
        return None

    def neighbours(self, case, rng):
        ops = case.split(';')
        out = []
        for i in range(len(ops)):                     # drop one op
            out.append(';'.join(ops[:i] + ops[i + 1:]))
        for i in range(1, len(ops)):                  # prefixes
            out.append(';'.join(ops[:i]))
        return [c for c in out if c]
