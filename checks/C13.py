# C13 — HTTP/1.1 framing: model coq/C13, harness harness/C13, engines E1/E5 (scripted socket, ASan+UBSan)
import re, itertools
from vlib import *
import vlib

MAX64 = (1 << 64) - 1
VERBS = ["UNKNOWN", "DELETE", "GET", "HEAD", "POST", "PUT", "CONNECT", "OPTIONS", "TRACE", "COPY", "LOCK", "MKCOL", "MOV",
         "PROPFIND", "PROPPATCH", "SEARCH", "UNLOCK", "BIND", "REBIND", "UNBIND", "ACL", "REPORT", "MKACTIVITY", "CHECKOUT",
         "MERGE", "MSEARCH", "NOTIFY", "SUBSCRIBE", "UNSUBSCRIBE", "PATCH", "PURGE", "MKCALENDAR", "LINK", "UNLINK"]
CRLF = b'\r\n'


def hx(b):
    return b.hex() if b else '-'


def unhx(s):
    return b'' if s in ('-', '_') else bytes.fromhex(s)


def spec(sizes, cyc=False):
    if not sizes: return '-'
    return ','.join(map(str, sizes)) + ('*' if cyc else '')


def enc_chunked(payload, sizes, upper=False, ext=b'', final_ext=b''):
    """chunked transfer coding of payload cut at `sizes` (the rest is one last chunk)"""
    out = b''; off = 0
    cuts = list(sizes)
    while off < len(payload):
        n = cuts.pop(0) if cuts else len(payload) - off
        n = max(1, min(n, len(payload) - off))
        h = ('%X' if upper else '%x') % n
        out += h.encode() + ext + CRLF + payload[off:off + n] + CRLF
        off += n
    return out + b'0' + final_ext + CRLF + CRLF


# ---------------------------------------------------------------- reference (independent of the Coq model)
def ref_chunked_decode(data):
    """strict reference decoder: (payload, consumed) or None when `data` is not one complete valid chunked body"""
    off = 0; out = b''
    while True:
        e = data.find(CRLF, off)
        if e < 0: return None
        line = data[off:e]
        if len(line) + 2 > 4096: return None          # the reader's line buffer is 4 KB: longer size lines are outside the valid class
        m = re.match(rb'^([0-9a-fA-F]{1,15})(;[^\r\n]*)?\Z', line)
        if not m: return None
        n = int(m.group(1), 16)
        off = e + 2
        if n == 0:
            if data[off:off + 2] != CRLF: return None
            return out, off + 2
        if len(data) < off + n + 2 or data[off + n:off + n + 2] != CRLF: return None
        out += data[off:off + n]; off += n + 2


TOKEN = rb"[!#$%&'*+\-.^_`|~0-9A-Za-z]+"


def ref_parse(kind, reqverb, data):
    """Straightforward HTTP/1.1 reference for the strictly valid subset.  Returns None when the byte string is not a
    strictly valid message head (then only the safety part of the property applies), else a dict."""
    t = data.find(CRLF + CRLF)
    if t < 0: return None
    head = data[:t].split(CRLF)
    r = dict(body_off=t + 4)
    if kind == 'Q':
        m = re.match(rb'^([A-Z]+) ([!-~]+) HTTP/(\d\.\d)\Z', head[0])
        if not m or m.group(1).decode() not in VERBS[1:]: return None
        r.update(verb=VERBS.index(m.group(1).decode()), target=m.group(2), version=m.group(3), code=0)
    else:
        m = re.match(rb'^HTTP/(\d\.\d) ([1-9]\d\d) ([ -~]*)\Z', head[0])
        if not m: return None
        r.update(verb=reqverb, target=b'', version=m.group(1), code=int(m.group(2)), reason=m.group(3))
    hs = []
    for l in head[1:]:
        m = re.match(rb'^(' + TOKEN + rb'):( *)([!-~]([ -~]*[!-~])?)?\Z', l)
        if not m: return None
        hs.append((m.group(1), m.group(3) or b''))
    r['headers'] = hs
    low = {}
    for k, v in hs: low.setdefault(k.lower(), []).append(v)
    if any(len(v) > 1 for k, v in low.items() if k in (b'content-length', b'transfer-encoding', b'connection', b'trailer', b'content-range')):
        return None                       # duplicates of framing headers: outside the strict subset
    g = lambda k: low.get(k, [b''])[0]
    abandon = g(b'connection') == b'close' or g(b'trailer') != b'' or (r['version'] == b'1.0' and g(b'connection') != b'keep-alive')
    rest = data[t + 4:]
    if g(b'transfer-encoding') == b'chunked':
        if b'content-length' in low or b'content-range' in low: return None
        d = ref_chunked_decode(rest)
        if d is None: return None
        r.update(framing='chunked', payload=d[0], consumed=t + 4 + d[1])
    elif r['verb'] == 3:
        r.update(framing='none', payload=b'', consumed=t + 4)
    elif b'content-length' in low:
        if not re.match(rb'^\d{1,18}\Z', g(b'content-length')): return None
        n = int(g(b'content-length'))
        if len(rest) < n: return None
        r.update(framing='length', payload=rest[:n], consumed=t + 4 + n)
    elif b'content-range' in low or b'transfer-encoding' in low:
        return None
    elif abandon:
        r.update(framing='close', payload=rest, consumed=len(data))
    else:
        r.update(framing='none', payload=b'', consumed=t + 4)
    return r


# ---------------------------------------------------------------- output parsing
def parse_reads(tok):
    """'3:68656c;0:-;' -> list of (ret, bytes) ; flags"""
    rs = []; flags = []
    for x in tok.split(';'):
        if not x: continue
        if x in ('OOR', 'STEPBOUND'): flags.append(x); continue
        a, b = x.split(':')
        rs.append((int(a), unhx(b)))
    return rs, flags


def parse_out(line):
    f = line.split(' ')
    d = dict(kind=f[0], reads=None, flags=[])
    for x in f[1:]:
        if '=' in x and not re.match(r'^-?\d+:', x):
            k, v = x.split('=', 1); d[k] = v
        elif x in ('OOR',):
            d['flags'].append(x)
        elif x != '':
            d['reads'], fl = parse_reads(x); d['flags'] += fl
    if d['reads'] is None: d['reads'] = []
    return d


def all_splits(n, maxpieces):
    """all compositions of n into 1..maxpieces positive parts, as lists of sizes"""
    for k in range(1, maxpieces + 1):
        for cuts in itertools.combinations(range(1, n), k - 1):
            c = (0,) + cuts + (n,)
            yield [c[i + 1] - c[i] for i in range(k)]


class Check(DiffCheck):
    id = 'C13'
    coq_dirs = ['Base', 'C13']
    coq_targets = ['C13/C13_Statements.vo', 'C13/C13_ChunkSafe.vo', 'C13/C13_ChunkDecode.vo', 'C13/C13_Roundtrip.vo', 'C13/C13_ChunkTotal.vo', 'C13/C13_ParseSafe.vo', 'C13/C13_ParseIndep.vo', 'C13/C13_ParseTail.vo', 'C13/C13_Examples.vo']
    properties_v = 'C13/C13_Properties.v'
    extract_v = 'C13/C13_Extract.v'
    runner_ml = 'ocaml/C13_run.ml'
    model_module = 'C13_model'
    case_timeout = 3600      # per shard process; the thorough tier needs > 15 min per model shard on a heavily loaded box
    rule = ('cases: corpus; B/C/R exhaustive small (every partial-body length x fragmentations {whole,1,2,3,5 bytes,every split into <=4 '
            'pieces} x read sizes); chunk sizes 1/15/16/255/4095/4096/4097/multi-KB, hex case, extensions; M = whole messages '
            '(structured requests/responses, 0..N headers incl. duplicates/mixed case/empty values; Content-Length / chunked / close-'
            'delimited) x fragmentations (every split into <=3-4 pieces of short ones, all cuts around the header terminator, 1 byte, '
            'random); separate malformed stream (truncated at every byte, no colon, bare CR/LF, non-hex / overflowing sizes, oversize '
            'lines, header block > buffer). non-trivial = some recv boundary falls inside the start line, a header, the terminator or '
            'a chunk-size line, or the stream is malformed/truncated')
    assumptions = ['socket = explicit oracle (pieces + EOF/error); recv returns <= rest of the piece in flight, read returns count unless EOF/error',
                   'stale bytes of the receive buffer beyond the received bytes = one explicit fill value per case',
                   'std::sort modelled as libstdc++ insertion sort (exact for <= 16 headers; > 16 only with distinct names)',
                   'sscanf (Content-Range) modelled by a hand-written scanner for the two formats used',
                   'model follows /repo after fixes F26 (fa57e16), F27 (header line without colon), F28 (tolower_fast8)']
    trusted_base = ['scripted MockSock in harness/C13/harness.cpp', 'python reference parser/decoder in checks/C13.py']
    partial_note = ('parse_fragmentation_independent is proved for heads accepted by the executable check head_ok (measured on every valid generated head, see '
                    'coverage.head_ok_hypothesis); wf_head (grammar) -> head_ok is not proved. sscanf/skip_read not verified; std::sort = insertion sort (<= 16 headers).')

    # ------------------------------------------------------------------ build
    def build_impl(self):
        # identical preprocessed source + flags => identical binary: reuse it (the g++ -E pass reads /repo's CURRENT tree)
        src = os.path.join(VERIF, 'harness/C13/harness.cpp')
        extra = '-O2 -g0 -fno-sanitize=alignment'   # headers.cpp keeps its uint16 index at m_buf+capacity, odd for the usual 64K-1 buffers
        flags = vlib.CXXFLAGS + ' ' + vlib.ASAN + ' ' + extra
        libdir = photon_lib()
        rc, pre = sh('g++ %s -E %s' % (flags, src), timeout=300)
        if rc != 0: raise RuntimeError(pre[-3000:])
        so = os.path.join(libdir, 'libphoton.so')
        key = hashlib.sha1((flags + pre + str(os.path.getmtime(so))).encode('utf8', 'replace')).hexdigest()
        exe = os.path.join(BUILD, 'bin', 'C13_impl')
        kf = exe + '.key'
        with Lock('impl_C13_' + os.path.basename(BUILD)):
            if os.path.exists(exe) and os.path.exists(kf) and open(kf).read() == key:
                return exe
            if os.path.exists(kf): os.remove(kf)
            exe2, log = cxx_build(self.id, ['harness/C13/harness.cpp'], extra=extra, asan=True, libphoton=True, timeout=1700)
            if not exe2: raise RuntimeError(log[-4000:])
            open(kf, 'w').write(key)
        return exe2

    # ------------------------------------------------------------------ generators
    def gen_cases(self, tier, rng):
        big = tier != 'quick'
        cs = []
        cp = os.path.join(VERIF, 'replay', 'corpus', 'C13.cases')
        if os.path.exists(cp):
            cs += [l.strip() for l in open(cp) if l.strip() and not l.startswith('#')]
        cs += self.gen_B(rng, big)
        cs += self.gen_C(rng, big)
        cs += self.gen_WX(rng, big)
        cs += self.gen_R(rng, big)
        cs += self.gen_M(rng, big)
        self._cases = list(dict.fromkeys(cs))
        return self._cases

    def rbytes(self, rng, n, alphabet=None):
        if alphabet: return bytes(rng.choice(alphabet) for _ in range(n))
        return bytes(rng.randrange(256) for _ in range(n))

    def rfrag(self, rng, total):
        m = rng.randrange(8)
        if m == 0: return '-'
        if m == 1: return '1*'
        if m == 2: return spec([rng.choice([2, 3, 5, 7])], True)
        if m == 3: return spec([rng.choice([1, 2, 3]), rng.choice([1, 4, 9, 100])], True)
        if m == 4: return spec([rng.choice([17, 100, 1000, 4095, 4096, 4097, 5000])], True)
        k = rng.randrange(1, 6)
        return spec([rng.randrange(1, max(2, total // 2 + 2)) for _ in range(k)], rng.random() < 0.5)

    def rreads(self, rng, total=0):
        if total > 2500: return spec([rng.choice([64, 100, 1000, 4095, 4096, 4097, 65536, rng.randrange(64, 9000)])], True)
        m = rng.randrange(7)
        if m == 0: return '1*'
        if m == 1: return spec([rng.choice([2, 3, 7])], True)
        if m == 2: return spec([rng.choice([100, 1000, 4096, 65536])], True)
        if m == 3: return spec([rng.choice([1, 2, 5]), rng.choice([1, 10, 300])], True)
        if m == 4: return spec([rng.randrange(1, 20) for _ in range(rng.randrange(1, 5))], True)
        if m == 5: return spec([0, rng.randrange(1, 9)], True) if rng.random() < 0.3 else spec([rng.randrange(1, 5000)], True)
        return spec([rng.randrange(0, 12) for _ in range(rng.randrange(1, 8))], False)

    def gen_B(self, rng, big):
        cs = []
        data = bytes(range(0x41, 0x41 + 12))
        for n in range(0, 6):
            for p in range(0, n + 3):
                for extra in (0, 2):
                    for short in (0, 1):
                        slen = max(0, n - p) + extra - short
                        if slen < 0: continue
                        partial = data[:p]; stream = data[p:p + slen]
                        for frag in ('-', '1*', '2*'):
                            for reads in ('1*', '2*', '3*', '64*', '0,1,0,7'):
                                cs.append('B %s %d 0 %s %s %s' % (hx(partial), n, hx(stream), frag, reads))
                        cs.append('B %s %d 1 %s 1* 2*' % (hx(partial), n, hx(stream)))
            cs.append('B %s %d 0 %s 2* 3*' % (hx(data[:n // 2]), MAX64, hx(data[n // 2:n + 3])))
            cs.append('B %s %d 1 %s 2* 3*' % (hx(data[:n // 2]), MAX64, hx(data[n // 2:n + 3])))
        for _ in range(3000 if big else 300):
            n = rng.choice([0, 1, 2, 100, 4095, 4096, 4097, rng.randrange(0, 9000)])
            body = self.rbytes(rng, n + rng.choice([0, 0, 3, 50]))
            if rng.random() < 0.15 and n > 0: body = body[:rng.randrange(0, n)]          # truncated
            p = rng.choice([0, 0, len(body), rng.randrange(0, len(body) + 1)])
            p = min(p, 4095)
            rem = MAX64 if rng.random() < 0.25 else (n if rng.random() < 0.9 else rng.choice([MAX64 - 1, 1 << 63, n + 5000]))
            cs.append('B %s %d %d %s %s %s' % (hx(body[:p]), rem, int(rng.random() < 0.1), hx(body[p:]), self.rfrag(rng, len(body) - p), self.rreads(rng, len(body))))
        return cs

    def chunk_sizes(self, rng, n):
        m = rng.randrange(5)
        if m == 0: return []
        if m == 1: return [1] * min(n, 40)
        if m == 2: return [rng.choice([1, 15, 16, 17, 255, 256, 4095, 4096, 4097, 8192]) for _ in range(8)]
        return [rng.randrange(1, max(2, n)) for _ in range(rng.randrange(1, 6))]

    def gen_C(self, rng, big):
        cs = []
        pay = b'abcdefghij'
        # exhaustive: payload 0..4 bytes, every chunking, every partial length, fragmentations, read sizes
        for n in range(0, 5 if big else 4):
            for comp in (list(all_splits(n, n)) if n else [[]]):
                wire = enc_chunked(pay[:n], comp)
                for p in range(0, len(wire) + 1):
                    for frag in ('-', '1*', '2*', '3*'):
                        for reads in ('1*', '2*', '100*'):
                            cs.append('C 4096 %s 0 %s %s %s' % (hx(wire[:p]), hx(wire[p:]), frag, reads))
        # every split of two short encodings into <= 4 pieces (first piece = partial body)
        for wire in (enc_chunked(b'hello', [2]), enc_chunked(b'0123456789abcdefXYZ', [16], upper=True)):
            for sp in all_splits(len(wire), 4 if (big or len(wire) < 22) else 3):
                for first_is_partial in (0, 1):
                    p = sp[0] if first_is_partial else 0
                    fr = sp[1:] if first_is_partial else sp
                    cs.append('C 4096 %s 0 %s %s %s' % (hx(wire[:p]), hx(wire[p:]), spec(fr), rng.choice(['1*', '3*', '64*'])))
        # structured random: big chunks, hex case, extensions
        for _ in range(6000 if big else 700):
            n = rng.choice([0, 1, 5, 16, 100, 4095, 4096, 4097, rng.randrange(0, 12000)])
            payload = self.rbytes(rng, n)
            ext = rng.choice([b'', b'', b'', b';x=1', b';foo', b' '])
            wire = enc_chunked(payload, self.chunk_sizes(rng, n), upper=rng.random() < 0.3, ext=ext, final_ext=rng.choice([b'', b'', ext]))
            if rng.random() < 0.2: wire += self.rbytes(rng, rng.choice([1, 2, 3, 20]))          # bytes after the terminator
            p = min(rng.choice([0, 0, 1, 2, 3, 4, len(wire), rng.randrange(0, len(wire) + 1)]), 4095)
            cs.append('C 4096 %s %d %s %s %s' % (hx(wire[:p]), int(rng.random() < 0.05), hx(wire[p:]), self.rfrag(rng, len(wire) - p), self.rreads(rng, len(wire))))
        # malformed stream
        base = enc_chunked(b'hello world!', [5, 3])
        for k in range(len(base)):
            for frag in ('-', '1*', '3*'):
                cs.append('C 4096 - 0 %s %s 4*' % (hx(base[:k]), frag))
                cs.append('C 4096 %s 0 - - 4*' % hx(base[:k]))
            cs.append('C 4096 %s 1 %s 2* 4*' % (hx(base[:k // 2]), hx(base[k // 2:k])))
        mal = [b'zz\r\nabc\r\n0\r\n\r\n', b'\r\n\r\n', b'5\nhello\n0\n\n', b'5\rhello\r0\r\r', b'-5\r\nhello\r\n0\r\n\r\n',
               b'ffffffffffffffffff\r\nabc', b'10000000000000005\r\nhello\r\n0\r\n\r\n', b'0x5\r\nhello\r\n0\r\n\r\n',
               b'5\r\nhelloXX0\r\n\r\n', b'5\r\nhello\r\n0\r\nXY\r\nZZZZ', b'5 \r\nhello\r\n 0\r\n\r\n', b'\r\n5\r\nhello\r\n0\r\n\r\n',
               b'5\r\nhello\r\n\r\n\r\n0\r\n\r\n', b'0\r\n', b'0\r\n\r', b'0', b'\r', b'\n', b'A' * 5000 + b'\r\n', b'1;' + b'e' * 4200 + b'\r\nx\r\n0\r\n\r\n',
               b'1;' + b'e' * 4089 + b'\r\nx\r\n0\r\n\r\n', b'1;' + b'e' * 4090 + b'\r\nx\r\n0\r\n\r\n', b'1;' + b'e' * 4091 + b'\r\nx\r\n0\r\n\r\n']
        for w in mal:
            for frag in ('-', '1*', '2*', '7*', '4096*', '4095*'):
                for p in sorted(set([0, 1, min(2, len(w)), min(len(w), 4096), min(len(w), 4095)])):
                    cs.append('C 4096 %s 0 %s %s 3*' % (hx(w[:p]), hx(w[p:]), frag))
        for _ in range(3000 if big else 400):
            w = bytearray(enc_chunked(self.rbytes(rng, rng.randrange(0, 40)), self.chunk_sizes(rng, 30), ext=rng.choice([b'', b';a'])))
            for _ in range(rng.randrange(1, 4)):
                m = rng.randrange(4)
                if not w: break
                i = rng.randrange(len(w))
                if m == 0: w[i] = rng.choice(b'\r\n0fz;- \x00\xff')
                elif m == 1: del w[i]
                elif m == 2: w.insert(i, rng.choice(b'\r\n0fz;- \x00\xff'))
                else: del w[i:]
            w = bytes(w); p = rng.randrange(0, len(w) + 1) if rng.random() < 0.5 else 0
            cs.append('C 4096 %s %d %s %s %s' % (hx(w[:p]), int(rng.random() < 0.1), hx(w[p:]), self.rfrag(rng, len(w) - p), self.rreads(rng)))
        return cs

    def gen_WX(self, rng, big):
        cs = []
        for _ in range(1500 if big else 250):
            ws = [self.rbytes(rng, rng.choice([0, 1, 2, 15, 16, 17, 255, 256, rng.randrange(0, 5000)])) for _ in range(rng.randrange(0, 6))]
            tot = sum(map(len, ws))
            wtok = ','.join(hx(w) if w else '_' for w in ws) if ws else '-'
            size = rng.choice([tot, tot, max(0, tot - rng.randrange(0, 5)), tot + 3, 0])
            budget = rng.choice([1 << 40, 1 << 40, rng.randrange(0, tot + 30)])
            cs.append('W %d %d %s' % (size, budget, wtok))
            cs.append('X %d %s' % (budget, wtok))
        return cs

    def gen_R(self, rng, big):
        cs = []
        pay = b'0123456789'
        for n in range(0, 5):
            for comp in (list(all_splits(n, n)) if n else [[]]):
                wl = len(enc_chunked(pay[:n], comp))
                for p in range(0, wl + 1, 1 if n < 4 or big else 3):
                    for frag in ('-', '1*', '2*'):
                        for reads in ('1*', '3*'):
                            cs.append('R %s %s %d %s %s' % (hx(pay[:n]), spec(comp), p, frag, reads))
        for _ in range(4000 if big else 500):
            n = rng.choice([0, 1, 15, 16, 17, 255, 256, 4095, 4096, 4097, rng.randrange(0, 20000)])
            payload = self.rbytes(rng, n)
            ws = self.chunk_sizes(rng, n)
            cs.append('R %s %s %d %s %s' % (hx(payload), spec(ws, rng.random() < 0.3), min(4095, rng.choice([0, 0, 1, 3, rng.randrange(0, n + 10)])),
                                           self.rfrag(rng, n + 10), self.rreads(rng, n)))
        return cs

    # ---- whole messages
    def rname(self, rng):
        base = rng.choice(['Host', 'Accept', 'X-a', 'x-A', 'User-Agent', 'Content-Type', 'content-type', 'CONTENT-TYPE', 'Authorization', 'authoriZation',
                           'Y', 'y', 'Zz', 'X-Very-Long-Header-Name-Yz', 'x-very-long-header-name-yZ', 'Cookie', 'Set-Cookie', 'ETag', 'Range', 'Server', 'Date', 'Via'])
        return base.encode()

    def rvalue(self, rng):
        return rng.choice([b'', b'1', b'abc', b'a b  c', b'text/plain; q=0.5', b'x' * rng.randrange(1, 300), b'close-not', b'chunked-not', b'0', b'keep-alive'])

    def gen_message(self, rng, kind=None, framing=None, nh=None):
        kind = kind or rng.choice('QS')
        framing = framing or rng.choice(['length', 'length', 'chunked', 'chunked', 'close', 'none'])
        ver = b'1.1'
        hs = []
        nh = rng.choice([0, 1, 2, 3, 5, 8, 13]) if nh is None else nh
        for _ in range(nh): hs.append((self.rname(rng), self.rvalue(rng)))
        n = rng.choice([0, 1, 2, 10, 100, 4095, 4096, 4097, rng.randrange(0, 9000)])
        payload = self.rbytes(rng, n)
        mix = lambda s: bytes((c ^ 0x20) if (chr(c).isalpha() and rng.random() < 0.3) else c for c in s)
        if framing == 'length':
            hs.insert(rng.randrange(len(hs) + 1), (mix(b'Content-Length') if rng.random() < 0.3 else b'Content-Length', str(n).encode()))
            body = payload
        elif framing == 'chunked':
            hs.insert(rng.randrange(len(hs) + 1), (mix(b'Transfer-Encoding') if rng.random() < 0.3 else b'Transfer-Encoding', b'chunked'))
            body = enc_chunked(payload, self.chunk_sizes(rng, n), upper=rng.random() < 0.3, ext=rng.choice([b'', b'', b';e=1']))
        elif framing == 'close':
            if rng.random() < 0.5: hs.insert(rng.randrange(len(hs) + 1), (b'Connection', b'close'))
            else: ver = b'1.0'
            body = payload
        else:
            body = b''; payload = b''
            if rng.random() < 0.3: hs.append((b'Connection', b'keep-alive'))
        verb = 2
        if kind == 'Q':
            v = rng.choice(VERBS[1:]) if rng.random() < 0.5 else rng.choice(['GET', 'POST', 'PUT', 'HEAD'])
            tgt = rng.choice([b'/', b'/a/b?x=1&y=2', b'*', b'/' + b'p' * rng.randrange(1, 200), b'http://h:80/x'])
            start = v.encode() + b' ' + tgt + b' HTTP/' + ver
        else:
            verb = rng.choice([2, 2, 4, 3])
            start = b'HTTP/' + ver + b' ' + str(rng.choice([200, 206, 404, 100, 999, 304])).encode() + b' ' + rng.choice([b'OK', b'Not Found', b'', b'Partial Content'])
        sp = lambda: b' ' * rng.choice([1, 1, 1, 0, 3])
        head = start + CRLF + b''.join(k + b':' + sp() + v + CRLF for k, v in hs) + CRLF
        tail = rng.choice([b'', b'', b'GET / HTTP/1.1\r\n\r\n', b'XYZ']) if framing != 'close' else b''
        return kind, verb, head, body, tail

    def mcase(self, kind, cap, fill, verb, err, msg, frag, reads):
        return 'M %s %d %d %d %d %s %s %s' % (kind, cap, fill, verb, err, hx(msg), frag, reads)

    def term_cuts(self, head):
        """fragmentations whose cut points all lie in the last 6 bytes of the header block (CRLF CRLF cut in every way)"""
        n = len(head)
        pts = list(range(max(1, n - 6), n + 1))
        out = []
        for k in (1, 2, 3):
            for c in itertools.combinations(pts, k):
                c = (0,) + c
                out.append([c[i + 1] - c[i] for i in range(len(c) - 1)])
        return out

    def gen_M(self, rng, big):
        cs = []
        fills = [13, 10, 0, 65, 58, 170, 255, 32]
        # short messages: every split into <= 4 (3) pieces
        shorts = [('Q', 2, b'GET / HTTP/1.1\r\nA: b\r\n\r\n', b''),
                  ('S', 2, b'HTTP/1.1 200 OK\r\nContent-Length: 3\r\n\r\n', b'abc'),
                  ('S', 2, b'HTTP/1.1 200 OK\r\nTransfer-Encoding: chunked\r\n\r\n', b'2\r\nhi\r\n0\r\n\r\n'),
                  ('Q', 4, b'POST /x HTTP/1.0\r\nx:\r\nX: 1\r\n\r\n', b'tail')]
        for kind, verb, head, body in shorts:
            msg = head + body
            mp = 3 if (len(msg) > 30 and not big) else 4
            if len(msg) > 45: mp = 3
            for sp_ in all_splits(len(msg), mp):
                cs.append(self.mcase(kind, 16384, 13 if len(sp_) % 2 else 65, verb, 0, msg, spec(sp_), '2*'))
        for _ in range(2500 if big else 350):
            kind, verb, head, body, tail = self.gen_message(rng)
            msg = head + body + tail
            cap = rng.choice([16384, 16384, 65535, 8191, 32768])
            reads = self.rreads(rng, len(msg))
            frs = ['-', '1*', self.rfrag(rng, len(msg)), self.rfrag(rng, len(head))]
            tc = self.term_cuts(head)
            frs += [spec(rng.choice(tc)) for _ in range(3)]
            if len(msg) > 3000: frs.remove('1*') if rng.random() < 0.8 else None
            for fr in frs:
                cs.append(self.mcase(kind, cap, rng.choice(fills), verb, 0, msg, fr, reads))
        # all terminator cuts of a few messages
        for _ in range(30 if big else 6):
            kind, verb, head, body, tail = self.gen_message(rng, nh=rng.choice([0, 2, 4]))
            msg = head + body[:200] if False else head + body + tail
            if len(msg) > 2000: continue
            for c in self.term_cuts(head):
                cs.append(self.mcase(kind, 16384, rng.choice(fills), verb, 0, msg, spec(c), '7*'))
        # many headers (> 16: distinct lower-case names only), header block near / over the buffer limit
        for _ in range(60 if big else 12):
            nh = rng.choice([17, 30, 100, 400])
            hs = [(('h%03d-%s' % (i, 'q' * rng.randrange(0, 12))).encode(), self.rvalue(rng)) for i in range(nh)]
            rng.shuffle(hs)
            head = b'HTTP/1.1 200 OK\r\n' + b''.join(k + b': ' + v + CRLF for k, v in hs) + b'Content-Length: 4\r\n\r\n'
            for cap in (65535, 16384, len(head) + 5121 + 8 * nh, len(head) + 5000):
                cs.append(self.mcase('S', cap, rng.choice(fills), 2, 0, head + b'body', self.rfrag(rng, len(head)), '3*'))
        big_head = b'GET / HTTP/1.1\r\n' + b''.join(b'k%d: %s\r\n' % (i, b'v' * 200) for i in range(400))
        for cap in (8191, 16384, 65535):
            for fr in ('-', '4096*', '1000*'):
                cs.append(self.mcase('Q', cap, 0, 0, 0, big_head + CRLF, fr, '3*'))
        # malformed stream
        mal = [b'GET / HTTP/1.1\r\nabc\r\n\r\n', b'GET / HTTP/1.1\r\nabc\r\nHost: x\r\n\r\n', b'GET /\r\n\r\nx HTTP/1.1\r\nfoo: bar\r\n\r\n', b'GET\r\n\r\n', b'\r\n\r\n',
               b'FOO / HTTP/1.1\r\n\r\n', b'GET / HTTP/1.1\n\nA: b\n\n\r\n\r\n', b'GET / HTTP/1.1\rA: b\r\r\n\r\n', b'GET / HTTP/1.1234567\r\n\r\n',
               b'GET  /  HTTP/1.1\r\nA:b\r\n\r\n', b'GET / HTTP/1.1\r\n: v\r\n\r\n', b'GET / HTTP/1.1\r\nA: b\r\n \r\n\r\n', b'GET / HTTP/1.1\r\nA: b\r\n\rX\r\n\r\n',
               b'GET / HTTP/1.1\r\nContent-Length: -5\r\n\r\nhello', b'GET / HTTP/1.1\r\nContent-Length: 99999999999999999999\r\n\r\nhello',
               b'GET / HTTP/1.1\r\nContent-Length: 18446744073709551615\r\n\r\nhello', b'GET / HTTP/1.1\r\nContent-Length: 5x\r\n\r\nhello',
               b'GET / HTTP/1.1\r\nContent-Length: 3\r\nContent-Length: 5\r\n\r\nhello', b'GET / HTTP/1.1\r\nContent-Length: 3\r\nTransfer-Encoding: chunked\r\n\r\n2\r\nhi\r\n0\r\n\r\n',
               b'GET / HTTP/1.1\r\nTransfer-Encoding: Chunked\r\n\r\n2\r\nhi\r\n0\r\n\r\n', b'GET / HTTP/1.1\r\nTransfer-Encoding: gzip, chunked\r\n\r\n2\r\nhi\r\n0\r\n\r\n',
               b'HTTP/1.1 200\r\n\r\n', b'HTTP/1.1 0 x\r\n\r\n', b'HTTP/1.1 1000 x\r\n\r\n', b'HTTP/1.1 99999999999999999999200 x\r\n\r\n', b'HTTP/1.1  200 OK\r\n\r\n', b'HTTX/1.1 200 OK\r\n\r\n',
               b'HTTP/1.1 206 PC\r\nContent-Range: bytes 5-9/100\r\n\r\n0123456789', b'HTTP/1.1 206 PC\r\nContent-Range: bytes */7\r\n\r\n0123456789',
               b'HTTP/1.1 206 PC\r\nContent-Range: bytes 9-5/x\r\n\r\n0123456789', b'HTTP/1.1 206 PC\r\nContent-Range: bytes  -3--1z\r\n\r\n0123456789',
               b'HTTP/1.1 206 PC\r\nContent-Range: bytes\r\nA: 1-2\r\n\r\n0123456789', b'HTTP/1.1 206 PC\r\nContent-Range: bytes 1-\r\nZ: 1\r\n\r\n0123456789',
               b'HTTP/1.1 206 PC\r\nContent-Range: bytes 99999999999999999999999-5/x\r\n\r\n0123456789', b'HTTP/1.1 206 PC\r\nContent-Range: items 1-2\r\n\r\n0123456789',
               b'GET / HTTP/1.1\r\n\x00A: b\r\n\r\n', b'GET / HTTP/1.1\r\n\xffA: b\r\n\x80a: c\r\n\r\n', b'GET / HTTP/1.1\r\nYb234567: 1\r\nya234567: 2\r\nyb: 3\r\n\r\n',
               b'GET / HTTP/1.1\r\nConnection: close\r\nTrailer: x\r\n\r\nrest', b'GET / HTTP/1.0\r\nConnection: keep-alive\r\n\r\nrest', b'GET / HTTP/1.0\r\nConnection: Keep-Alive\r\n\r\nrest']
        for w in mal:
            kind = 'S' if w.startswith(b'HTT') else 'Q'
            for fr in ('-', '1*', '2*', '3*', '5*', '16*'):
                for fill in (13, 65, 0, 58):
                    cs.append(self.mcase(kind, 16384, fill, 2, 0, w, fr, '3*'))
            for sp_ in all_splits(len(w), 2):
                cs.append(self.mcase(kind, 16384, 13, 2, 0, w, spec(sp_), '3*'))
        base = b'POST /p HTTP/1.1\r\nHost: h\r\nContent-Length: 5\r\n\r\nhello'
        base2 = b'HTTP/1.1 200 OK\r\nTransfer-Encoding: chunked\r\n\r\n3\r\nabc\r\n0\r\n\r\n'
        for b in (base, base2):
            for k in range(len(b)):
                for fr in ('-', '1*', '4*'):
                    cs.append(self.mcase('Q' if b is base else 'S', 16384, 13, 2, 0, b[:k], fr, '3*'))
                cs.append(self.mcase('Q' if b is base else 'S', 16384, 65, 2, 1, b[:k], '3*', '3*'))
        for _ in range(3000 if big else 400):
            kind, verb, head, body, tail = self.gen_message(rng, nh=rng.choice([0, 1, 3]))
            w = bytearray(head + body[:60])
            for _ in range(rng.randrange(1, 4)):
                if not w: break
                i = rng.randrange(min(len(w), len(head) + 10))
                m = rng.randrange(4)
                if m == 0: w[i] = rng.choice(b'\r\n: \x00\xffA9')
                elif m == 1: del w[i]
                elif m == 2: w.insert(i, rng.choice(b'\r\n: \x00\xffA9'))
                else: del w[i:]
            w = bytes(w)
            if re.search(rb'(?i)content-range', w) and kind == 'S': pass
            cs.append(self.mcase(kind, 16384, rng.choice(fills), verb, int(rng.random() < 0.1), w, self.rfrag(rng, len(w)), self.rreads(rng)))
        return cs

    # ------------------------------------------------------------------ classification
    def _split(self, data, fr):
        if fr == '-': return [data] if data else []
        cyc = fr.endswith('*'); sizes = [int(x) for x in fr.rstrip('*').split(',')]
        out = []; off = 0; k = 0
        while off < len(data):
            if k >= len(sizes):
                if cyc and any(s > 0 for s in sizes): k = 0; continue
                out.append(data[off:]); break
            n = sizes[k]; k += 1
            if n <= 0: continue
            out.append(data[off:off + n]); off += n
        return out

    def category(self, case):
        f = case.split(' ')
        if f[0] == 'M':
            msg = unhx(f[6]); r = ref_parse(f[1], int(f[4]), msg)
            if r is None: return 'M:' + f[1] + ':malformed'
            return 'M:%s:%s:%s' % (f[1], r['framing'], 'frag' if f[7] != '-' else 'whole')
        if f[0] == 'C':
            w = unhx(f[2]) + unhx(f[4])
            return 'C:' + ('valid' if ref_chunked_decode(w) else 'malformed') + (':partial' if f[2] != '-' else '')
        if f[0] == 'B': return 'B:' + ('close' if int(f[2]) == MAX64 else 'length')
        return f[0]

    def nontrivial(self, case):
        f = case.split(' ')
        if f[0] == 'M':
            msg = unhx(f[6]); t = msg.find(CRLF + CRLF)
            if ref_parse(f[1], int(f[4]), msg) is None: return True
            ps = self._split(msg, f[7]); off = 0
            for p in ps[:-1]:
                off += len(p)
                if off < t + 4: return True
            return len(ps) > 1
        if f[0] in ('C', 'R'):
            return f[2] != '-' or f[-2] != '-'
        if f[0] == 'B': return f[1] != '-' or f[5] != '-'
        return True

    def known_class(self, case):
        return None

    # ------------------------------------------------------------------ oracle (independent of the model)
    def oracle(self, case, out):
        f = case.split(' ')
        if out.startswith('CRASH'): return 'implementation crashed / sanitizer report: ' + out
        if 'STEPBOUND' in out: return 'endless loop: more than 20000 reads returned data'
        if f[0] in ('W', 'X'):
            m = re.match(r'^([WX]) ((?:-?\d+;)*) (?:close=(-?\d+) )?out=(\S+)$', out)
            if not m: return 'unparsable output %r' % out[:200]
            rets = [int(x) for x in m.group(2).split(';') if x]
            ws = [unhx(w) for w in (f[-1].split(',') if f[-1] != '-' else [])]
            wire = unhx(m.group(4))
            if f[0] == 'W':
                size, budget = int(f[1]), int(f[2])
                exp = b''.join(ws)[:size]
                if budget >= len(exp) and (wire != exp or any(r < 0 for r in rets)): return 'fixed-length writer: wire differs from the first `size` bytes written'
                if not exp.startswith(wire): return 'fixed-length writer wrote bytes that were not given to it'
            else:
                budget = int(f[1])
                exp = b''.join(b'%x\r\n%s\r\n' % (len(w), w) for w in ws) + b'0\r\n\r\n'
                if budget >= len(exp) and (wire != exp or rets != [len(w) for w in ws] or m.group(3) != '0'): return 'chunked writer: unexpected wire bytes / return values'
                if not exp.startswith(wire): return 'chunked writer wrote bytes that are not a prefix of the encoding'
            return None
        try: d = parse_out(out)
        except Exception as e: return 'unparsable output %r' % out[:200]
        reads = d['reads']
        got = b''.join(b for r, b in reads if r > 0)
        for r, b in reads:
            if r > 0 and len(b) != r: return 'read returned %d but %d bytes shown' % (r, len(b))
        k = f[0]
        if k == 'B':
            partial, rem, err, stream = unhx(f[1]), int(f[2]), f[3] != '0', unhx(f[4])
            allb = partial + stream
            exp = allb if rem == MAX64 else allb[:rem]
            if any(r < 0 for r, _ in reads):
                if not err: return 'read failed without a socket error'
                if not exp.startswith(got): return 'bytes read are not a prefix of the body'
                return None
            if f[6].endswith('*') and '0' not in f[6].rstrip('*').split(','):
                if got != exp and not (err and exp.startswith(got)): return 'body bytes differ: got %d bytes, expected %d' % (len(got), len(exp))
                if reads[-1][0] != 0 or reads[-2][0] != 0: return 'no stable end-of-body after the payload'
                cons = len(stream) - int(d['rest'])
                if cons > max(0, len(exp) - len(partial)): return 'consumed %d bytes from the socket beyond the body' % (cons - max(0, len(exp) - len(partial)))
            elif not exp.startswith(got): return 'bytes read are not a prefix of the body'
            return None
        if k in ('C', 'R'):
            if k == 'C':
                wire = unhx(f[2]) + unhx(f[4]); err = f[3] != '0'; payload = None
                dec = ref_chunked_decode(wire)
                if dec: payload = dec[0]
            else:
                payload = unhx(f[1]); err = False
                ws = self._split(payload, f[2])
                wire = unhx(d.get('wire', '-'))
                if wire != b''.join(b'%x\r\n%s\r\n' % (len(w), w) for w in ws) + b'0\r\n\r\n': return 'chunked writer produced an unexpected encoding'
            if payload is not None:
                if any(r < 0 for r, _ in reads): return 'read failed on a valid chunked body'
                full = f[-1].endswith('*') and '0' not in f[-1].rstrip('*').split(',')
                if full:
                    if got != payload: return 'chunked body differs: got %d bytes, expected %d' % (len(got), len(payload))
                    if reads[-1][0] != 0 or reads[-2][0] != 0: return 'no stable end-of-body after the payload'
                    if d['fin'] != '1' or d['close'] != '0': return 'stream not finished after a complete chunked body'
                    # (the chunk reader recv()s ahead into its 4 KB line buffer: socket bytes behind the terminator may be
                    #  consumed and dropped - by design, not part of the property; see notes/C13.md)
                elif not payload.startswith(got): return 'bytes read are not a prefix of the payload'
            return None
        if k == 'M':
            kind, verb, msg = f[1], int(f[4]), unhx(f[6])
            r = ref_parse(kind, verb, msg)
            cap = int(f[2])
            key = (kind, f[2], f[3], f[4], f[5], f[6], f[8])
            rh = d.get('rh')
            # room for the head whatever the fragmentation (receive_bytes wants > 5120 free bytes before every recv) and for
            # the 4 KB chunk-line buffer behind the partial body
            fits = r is not None and cap - r['body_off'] > 5120 + 4096 + 4096 + 8 * len(r['headers'])
            # fragmentation independence, for strictly valid messages: compare the implementation with itself
            if r is not None and f[5] == '0' and fits:
                hoff = int(d['hoff']) if 'hoff' in d else None
                sig = (rh, d.get('verb'), d.get('tgt'), d.get('ver'), d.get('code'), d.get('sm'), (d.get('body') or ',').split(',')[0], d.get('ab'),
                       d.get('hoff'), d.get('kv'), d.get('chunked'), d.get('bsize'), got)
                seen = self.__dict__.setdefault('_seen', {})
                if key in seen and seen[key][0] != sig:
                    return 'parse/body result depends on fragmentation: %s vs %s (fragmentation %s)' % (str(sig)[:300], str(seen[key][0])[:300], seen[key][1])
                seen.setdefault(key, (sig, f[7]))
            if r is None or f[5] != '0':
                return None
            t = r['body_off']
            if rh != '0':
                if fits and not (r['framing'] == 'chunked' and False): return 'valid message rejected: receive_header returned %s' % rh
                return None
            if int(d['verb']) != r['verb']: return 'verb %s, expected %d' % (d['verb'], r['verb'])
            sl = lambda s: (lambda o, l: msg[o:o + l])(*map(int, s.split(',')))
            if kind == 'Q' and sl(d['tgt']) != r['target']: return 'target differs'
            if sl(d['ver']) != r['version']: return 'version differs'
            if kind == 'S' and int(d['code']) != r['code']: return 'status code differs'
            if int(d['body'].split(',')[0]) != t: return 'header/body boundary %s, expected %d' % (d['body'], t)
            hoff = int(d['hoff'])
            m = re.match(r'^(\d+)\[(.*)\]$', d['kv'])
            kvs = [tuple(map(int, x.split(','))) for x in m.group(2).split(';') if x]
            hs = sorted((msg[hoff + a:hoff + a + b], msg[hoff + c:hoff + c + e]) for a, b, c, e in kvs)
            if hs != sorted(r['headers']): return 'header multimap differs: %r vs %r' % (hs[:6], sorted(r['headers'])[:6])
            full = f[8].endswith('*') and '0' not in f[8].rstrip('*').split(',')
            if any(x < 0 for x, _ in reads): return 'body read failed on a valid message'
            if full:
                if got != r['payload']: return 'body differs (%s framing): got %d bytes, expected %d' % (r['framing'], len(got), len(r['payload']))
                if reads[-1][0] != 0 or reads[-2][0] != 0: return 'no stable end-of-body'
                if r['framing'] in ('length', 'chunked', 'none'):
                    # bytes already in the receive buffer behind the body may be dropped; the SOCKET must not be read past the message
                    pass
            elif not r['payload'].startswith(got): return 'body bytes are not a prefix of the payload'
            return None
        return None

    def extra(self, ctx):
        """Evidence for the hypothesis of theorem parse_fragmentation_independent: evaluate the extracted `head_ok` on the head of
        every strictly valid generated message that fits its buffer.  Informational (recorded in the evidence), never a violation."""
        try:
            exe, log = build_model_runner('C13hok', 'C13/C13_Hok_Extract.v', 'ocaml/C13_hok_run.ml', 'C13_hok')
            if not exe: raise RuntimeError(log[-500:])
            ks = {}
            for c in getattr(self, '_cases', []):
                f = c.split(' ')
                if f[0] != 'M': continue
                msg = unhx(f[6]); r = ref_parse(f[1], int(f[4]), msg); cap = int(f[2])
                if r is None or not (cap - r['body_off'] > 5120 + 4096 + 4096 + 8 * len(r['headers'])): continue
                ks['K %s %d %d %s' % (f[1], cap, int(f[4]), hx(msg[:r['body_off']]))] = 1
            ks = list(ks)
            out = run_cases(exe, ks, ctx['tmp'], 'hok') if ks else []
            ok = sum(1 for o in out if o == 'K hok=1')
            self.extra_coverage = dict(head_ok_hypothesis=dict(valid_heads_checked=len(ks), head_ok_true=ok,
                                                               first_false=next((k[:400] for k, o in zip(ks, out) if o != 'K hok=1'), None)))
        except Exception as e:
            self.extra_coverage = dict(head_ok_hypothesis=dict(error=str(e)[:300]))
        return []

    def neighbours(self, case, rng):
        f = case.split(' ')
        out = []
        if f[0] == 'M':
            for fr in ('-', '1*', '2*', '3*', '7*'):
                g = list(f); g[7] = fr; out.append(' '.join(g))
        if f[0] == 'C':
            for fr in ('-', '1*', '2*', '3*'):
                g = list(f); g[5] = fr; out.append(' '.join(g))
        return out

    def canon(self, line):
        return line.strip()
