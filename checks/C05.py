# C05 — thread life-cycle: model coq/C05, harnesses harness/C05 (+ engines harness/E2, harness/E3)
#   P-cases  E2 programs (create/yield/usleep/interrupt/join + nthreads/released) on one vCPU:
#            extracted C05_Model.coop_result == real photon trace, line by line
#   A-cases  E3 schedules on the REAL photon::asymmetric_spinLock: extracted C05_Asym.asym_e3 == step log
#   M-cases  E4 controlled multi-vCPU replay (harness/C05/e4_main.cpp includes the REAL thread/thread.cpp): command
#            sequences (which vCPU does what) -> placement dump after every command; extracted C05_E4.cmd_labels run
#            through C05_Model.step == real scheduler, verbatim; oracle on the implementation's dumps alone
#   extra    hardware litmus for F5 (confirm only), multi-vCPU stress runs (search oracle)
import re, stat, itertools
from vlib import *

W = 1 << 64


def parse_prog(case):
    secs = case[1:].split('|')
    progs = []
    for sec in secs[1:]:
        t = sec.strip()
        ops = []
        if t and t != '-':
            for part in t.split(';'):
                f = part.split()
                if f: ops.append((f[0], [int(x) for x in f[1:]]))
        progs.append(ops)
    return progs


def parse_trace(out):
    m = re.match(r'^tr=(\S+) blocked=(\S+) end=(\d+)$', out)
    if not m: return None
    evs = []
    if m.group(1) != '-':
        for e in m.group(1).split(','):
            mm = re.match(r'^(\d+)\.(\d+):(-?\d+)/(-?\d+)@(\d+)$', e)
            if not mm: return None
            evs.append(tuple(int(x) for x in mm.groups()))
    bl = [] if m.group(2) == '-' else [tuple(int(x) for x in b.split('.')) for b in m.group(2).split(',')]
    return evs, bl, int(m.group(3))


def asym_occupancy(log):
    """replay the lock protocol on the step log: who is inside when (independent of the Coq model)"""
    inside = set(); won = set(); mx = 0
    for e in log:
        f = e.split('.')
        p = int(f[0]); kind = f[1]; addr = f[2]; vals = f[3:]
        if p == 0:
            if kind == 'ld' and addr == 'bg' and vals[0] == '0': inside.add(0)          # wait_while(background_locked) ends
            elif kind == 'st' and addr == 'fg' and vals[0] == '0': inside.discard(0)     # foreground_unlock
        else:
            if kind == 'xg' and addr == 'bg': (won.add(p) if vals[1] == '0' else won.discard(p))
            elif kind == 'ld' and addr == 'fg' and p in won:
                if vals[0] == '0': inside.add(p)                                         # re-check passed: return true
                won.discard(p)
            elif kind == 'st' and addr == 'bg' and vals[0] == '0': inside.discard(p); won.discard(p)
        mx = max(mx, len(inside))
        if len(inside) > 1: return 'participants %s are inside the lock together after step %r' % (sorted(inside), e)
    return None



# ---------------------------------------------------------------- E4 (M-cases): parsing + the property on the dumps
M_STRIP = re.compile(r'\{[^}]*\} ?')
V_RE = re.compile(r'V(\d+)\[(?:(off)|r=(\S+) q=(\S+) b=(\S+) n=(\d+))\]')
T_RE = re.compile(r'^T(\d+)=([YRSBD?])(-?\d+)?(z)?(w(?:\d+|\?))?(e-?\d+)?(c(\d)(\d)(-?\d))?$')


def m_parse_case(case):
    secs = case.split('|')
    head = secs[0].split()
    nv = int(head[1]); flags = head[2].split(',')
    progs = []
    for sec in secs[1:-1]:
        t = sec.strip(); ops = []
        if t and t != '-':
            for part in t.split(';'):
                f = part.split()
                if f: ops.append((f[0], [int(x) for x in f[1:]]))
        progs.append(ops)
    return nv, flags, progs, secs[-1].split()


def m_fmt_case(nv, flags, progs, cmds):
    return 'M %d %s | %s | %s' % (nv, ','.join(flags), ' | '.join(';'.join(('%s %s' % (o, ' '.join(map(str, a)))) if a else o for o, a in p) if p else '-' for p in progs), ' '.join(cmds))


def m_parse_dump(toks):
    """tokens of one dump -> (vcpus {v: (runq, sleepq, standby, n)}, threads {k: dict}, notes)"""
    vc = {}; th = {}; notes = []
    def lst(x): return [] if x == '-' else x.split(',')
    text = ' '.join(toks)
    for m in V_RE.finditer(text):
        # a finalised vCPU (vcpu_fini returned) is dumped as V<v>[off]: no queues any more
        vc[int(m.group(1))] = None if m.group(2) else (lst(m.group(3)), lst(m.group(4)), lst(m.group(5)), int(m.group(6)))
    for t in V_RE.sub('', text).split():
        if t.startswith('!'): notes.append(t[1:]); continue
        m = T_RE.match(t)
        if m:
            th[int(m.group(1))] = dict(st=m.group(2), vcpu=int(m.group(3)) if m.group(3) is not None else None, z=bool(m.group(4)),
                                       w=m.group(5), e=m.group(6), started=int(m.group(8)) if m.group(7) else None,
                                       returned=int(m.group(9)) if m.group(7) else None, released=int(m.group(10)) if m.group(7) else None)
            continue
        return None
    return vc, th, notes


def m_check_dump(nv, n, vc, th, notes):
    """placement_unique / one_vcpu_at_a_time / nthreads on ONE dump of the implementation"""
    if notes:
        if any(x.startswith('WRONGCPU') for x in notes):
            return 'a photon thread was executed by the OS thread of a vCPU it does not belong to (%s)' % ' '.join(notes)
        if any(x.startswith('UNLOCKED') for x in notes):
            return 'a hooked access was executed outside the lock(s) that protect it (lockset hook; rule 17 = standby-queue push under standbyq.lock + thread.lock, 12-16 = sleep / dequeue / interrupt / timeout / done under thread.lock): ' + ' '.join(notes)
        return 'inconsistent scheduler internals: ' + ' '.join(notes)
    if sorted(vc) != list(range(nv)): return 'dump does not list every vCPU'
    off = {v for v in range(nv) if vc[v] is None}
    # fini_loses_nothing: a vCPU whose vcpu_fini() has returned owns no live thread (its own main thread and idler are gone too)
    for k, t in sorted(th.items()):
        if t['st'] != 'D' and t['vcpu'] in off:
            return ('thread %d is live (state %s) and belongs to vCPU %d, which has been finalised (vcpu_fini / wait_all returned although the vCPU '
                    'still had a thread): the thread is lost' % (k, t['st'], t['vcpu']))
    for v in off:
        for k in (v, n + v):
            if k in th and th[k]['st'] != 'D': return 'vCPU %d is finalised but its %s thread %d is still live' % (v, 'main' if k == v else 'idler', k)
    vc = {v: (x if x is not None else ([], [], [], 0)) for v, x in vc.items()}
    for v in range(nv):
        if v in off: continue
        r, q, b, cnt = vc[v]
        for name, l in (('run queue', r), ('sleep queue', q), ('standby queue', b)):
            if '?' in l: return 'the %s of vCPU %d holds a thread that does not exist (any more)' % (name, v)
            if len(set(l)) != len(l): return 'a thread is twice in the %s of vCPU %d' % (name, v)
        if not r or str(n + v) not in r: return 'the idler of vCPU %d is not in its run queue' % v
    for k, t in sorted(th.items()):
        occ = {v: (vc[v][0].count(str(k)), vc[v][1].count(str(k)), vc[v][2].count(str(k))) for v in range(nv)}
        if t['st'] == '?': return 'thread %d is in an unknown state' % k
        if t['st'] == 'D':
            for v in range(nv):
                if occ[v] != (0, 0, 0): return 'finished thread %d is still in a queue of vCPU %d' % (k, v)
            continue
        own = t['vcpu']
        if own is None or not (0 <= own < nv): return 'live thread %d belongs to no vCPU' % k
        for v in range(nv):
            if v != own and occ[v] != (0, 0, 0):
                where = ['run', 'sleep', 'standby'][[i for i in range(3) if occ[v][i]][0]]
                return 'thread %d belongs to vCPU %d but is in the %s queue of vCPU %d' % (k, own, where, v)
        o = occ[own]
        if t['z'] != (o[1] == 1): return 'thread %d: idx says %sin a sleep queue, the sleep queue of vCPU %d says otherwise' % (k, '' if t['z'] else 'not ', own)
        if t['st'] in 'YR':
            ok = o == (1, 0, 0)
        elif t['st'] == 'S':
            ok = o == (0, 1, 0)
        else:   # STANDBY: standby queue (+ sleep queue: the documented overlap), or - stolen from a standby queue - a run queue
            ok = o in ((0, 1, 1), (0, 0, 1), (1, 0, 0))
        if not ok: return 'thread %d (state %s) occurs (run,sleep,standby) = %s times in the queues of its vCPU %d' % (k, t['st'], o, own)
        if t['st'] == 'R' and vc[own][0][0] != str(k): return 'thread %d is RUNNING but not the CURRENT thread of vCPU %d' % (k, own)
    for v in range(nv):
        if v in off: continue
        r, q, b, cnt = vc[v]
        for x in r + q + b:
            if int(x) not in th or th[int(x)]['st'] == 'D': return 'vCPU %d queues thread %s, which is not live' % (v, x)
        cur = int(r[0])
        if th[cur]['st'] != 'R': return 'the CURRENT thread %d of vCPU %d is not RUNNING' % (cur, v)
        live = sum(1 for k, t in th.items() if t['st'] != 'D' and t['vcpu'] == v)
        if live != cnt: return 'nthreads of vCPU %d = %d, but %d live threads are placed on it' % (v, cnt, live)
    return None


class Check(DiffCheck):
    id = 'C05'
    # lockset engine (lib/lockset.py): die/standby/dequeue blocks happen under the locks the life-cycle model assumes
    lockset_rules = {12, 13, 14, 15, 16, 17, 25}
    coq_dirs = ['Base', 'E3', 'C05']
    coq_targets = ['C05/C05_AsymProofs.vo', 'C05/C05_AsymTSO.vo', 'C05/C05_Proofs.vo', 'C05/C05_Proofs2.vo', 'C05/C05_Proofs3.vo', 'C05/C05_Proofs4.vo', 'C05/C05_Proofs5.vo', 'C05/C05_PoolProofs.vo', 'C05/C05_E4Proofs.vo', 'C05/C05_FiniProofs.vo']
    properties_v = 'C05/C05_Properties.v'
    extract_v = 'C05/C05_Extract.v'
    runner_ml = 'ocaml/C05_run.ml'
    model_module = 'C05_model'
    case_timeout = 3000      # guard against a hung dispatcher only: the harnesses have their own per-case / per-command limits; on a machine with load > 100 a shard of ~400 cases has needed > 900 s
    rule = ('P: E2 programs of 2-7 threads x 1-8 ops (create joinable/not, yield, usleep, interrupt, join, nthreads, released) on one vCPU '
            'under the virtual clock; non-trivial = a thread is created while another runs/sleeps and is joined or dies non-joinable. '
            'A: E3 schedules for asymmetric_spinLock, exhaustive prefixes for 2 participants, random for 3-4; non-trivial = owner and a '
            'stealer both attempt the lock. '
            'M: E4 controlled replay on 2-3 vCPUs x 2-4 program threads with the REAL thread.cpp compiled into the harness: one vCPU acts at a time '
            '(step to the next gate / park in the yield window / resume_threads / try_work_stealing / idler round / clock tick); the full placement '
            '(per vCPU run-queue order, sleep queue, standby-queue order, nthreads; per thread state, vCPU, in-sleepq, wait queue, error, '
            'started/returned/stack-released) is compared verbatim with the extracted model after EVERY command; generator: every interleaving of '
            'vCPU turns (length 6-11) and every short word over the fine-grained commands around 8 hand-made scenarios (stealable + interrupted '
            'sleeper in one standby queue in both orders, run-queue steals, migration ping-pong, expiry vs cross-vCPU interrupt, 3 vCPUs, dying '
            'threads, steal inside the yield window; vCPU wind-down: wait_all / vcpu_fini of a vCPU into which a thread is migrated before / after / '
            'while its main thread is inside wait_all, with sleepers and cross-vCPU-interrupted sleepers, each ending with a drain of all vCPUs) '
            'plus random programs (40 % with fini / waitall ops of main threads) x random command sequences; non-trivial = a migrate / fini / waitall '
            'op or a stealable thread with a steal scan, and commands for at least two vCPUs')
    assumptions = ['sequential consistency for the interleaving theorems (asymmetric lock additionally under x86-TSO: refuted, F5)',
                   'context-switch assembly and byte-level stacks outside the model; stack release observed through a recording allocator',
                   'vCPUs are created before the run; a vCPU ends with vcpu_fini of its main thread (modelled: wait_all loop + one merged block '
                   'for the final test, go_offline, idler join and vcpu_destroy); nobody migrates a thread into a vCPU whose vcpu_fini has passed its '
                   'last wait_all test (undefined in C++: stuck in the model); main/idler threads are never migrated']
    partial_note = ('PARTIAL: cross-vCPU transitions (migrate, cross-vCPU wake, drain, steal from run queue and standby queue) are proved for every '
                    'interleaving in the model and tied to the code by the controlled E4 replay at GATE granularity (one vCPU acts at a time, between '
                    'ops / idler calls / inside the yield window): interleavings INSIDE a block (two vCPUs inside their critical sections at once, lock '
                    'hand-over, try_lock failures, memory-model effects) are covered by the lockset engine, the E3 tie of the run-queue lock and the '
                    'stress run only; the library idler() loop itself is replaced by a commanded loop calling the same functions')

    # ---------------------------------------------------------------- build
    def build_impl(self):
        import concurrent.futures as cf
        jobs = {
            'e2': (['harness/E2/e2_main.cpp', 'harness/E2/ops_core.cpp', 'harness/C05/ops_c05.cpp'], '-I%s' % os.path.join(VERIF, 'harness', 'E2'), 'C05_e2'),
            'a3': (['harness/C05/asym_e3.cpp'], '-I%s' % REPO, 'C05_asym'),
            'litmus': (['harness/C05/litmus.cpp'], '-O2 -I%s' % REPO, 'C05_litmus'),
            'stress': (['harness/C05/stress.cpp'], '-O2', 'C05_stress'),
            'e4': (['harness/C05/e4_main.cpp'], '-I%s' % REPO, 'C05_e4'),
        }
        photon_lib()                                    # build the hook-enabled library once, before the parallel compiles
        res = {}
        with cf.ThreadPoolExecutor(max_workers=5) as ex:
            futs = {k: ex.submit(cxx_build, self.id, src, extra, False, True, os.path.join(BUILD, 'bin', out)) for k, (src, extra, out) in jobs.items()}
            for k, f in futs.items():
                exe, log = f.result()
                if not exe: raise RuntimeError('%s: %s' % (k, log[-3000:]))
                res[k] = exe
        e2, a3, e4 = res['e2'], res['a3'], res['e4']
        self.litmus, self.stress = res['litmus'], res['stress']
        # dispatcher: P lines -> E2 harness, A lines -> E3 harness, M lines -> E4 harness; one output line per input line, in order
        wrap = os.path.join(BUILD, 'bin', 'C05_impl')
        with open(wrap, 'w') as f:
            f.write('''#!/usr/bin/env python3
import sys, subprocess, os
lines = [l.rstrip('\\n') for l in open(sys.argv[1]) if l.strip() and not l.startswith('#')]
i = 0
nretry = 0          # a tree on which many cases hang is broken anyway: only the first few hangs are re-run
while i < len(lines):
    tag = lines[i][0]
    j = i
    while j < len(lines) and lines[j][0] == tag: j += 1
    exe = {'P': %r, 'A': %r, 'M': %r}.get(tag, %r)
    fn = sys.argv[1] + '.%%d.part' %% i
    open(fn, 'w').write('\\n'.join(lines[i:j]) + '\\n')
    p = subprocess.run([exe, fn], stdout=subprocess.PIPE, stderr=subprocess.PIPE, universal_newlines=True, errors='replace')
    out = p.stdout.split('\\n')[:-1] if p.stdout.endswith('\\n') else p.stdout.split('\\n')
    for k in range(j - i):
        # a HANG of the E2 child is a real-time event (20 s without output on a loaded machine): such a case is run again,
        # alone and with a 10x limit, before it is believed
        if tag in 'PM' and k < len(out) and 'HANG' in out[k][:40] and nretry < 4:
            nretry += 1
            one = sys.argv[1] + '.%%d.retry' %% (i + k)
            open(one, 'w').write(lines[i + k] + '\\n')
            env2 = dict(os.environ); env2['E2_TIMEOUT_MS'] = '200000'; env2['E4_TIMEOUT_MS'] = '400000'; env2['E4_STEP_TIMEOUT_S'] = '300'
            for attempt in range(2):
                q = subprocess.run([exe, one], stdout=subprocess.PIPE, stderr=subprocess.PIPE, universal_newlines=True, errors='replace', env=env2)
                o2 = q.stdout.strip().split('\\n')[0] if q.stdout.strip() else out[k]
                if 'HANG' not in o2[:40]:
                    out[k] = o2; break
        # the E3 controller has a 20 s real-time watchdog per step: if the harness died, the remaining schedules are
        # run again one by one (twice at most) before a CRASH is reported
        if tag == 'A' and k >= len(out):
            one = sys.argv[1] + '.%%d.retry' %% (i + k)
            open(one, 'w').write(lines[i + k] + '\\n')
            o2 = ''
            for attempt in range(2):
                q = subprocess.run([exe, one], stdout=subprocess.PIPE, stderr=subprocess.PIPE, universal_newlines=True, errors='replace')
                o2 = q.stdout.strip().split('\\n')[0] if q.stdout.strip() else ''
                if o2: break
            print(o2 if o2 else 'CRASH(%%s): %%s' %% (q.returncode, (q.stderr.strip().splitlines() or [''])[-1][:200]))
        elif k < len(out): print(out[k])
        elif k == len(out): print('CRASH(%%s): %%s' %% (p.returncode, (p.stderr.strip().splitlines() or [''])[-1][:200]))
        else: print('CRASH(skipped)')
    sys.stdout.flush()
    i = j
''' % (e2, a3, e4, a3))
        os.chmod(wrap, os.stat(wrap).st_mode | stat.S_IXUSR | stat.S_IXGRP | stat.S_IXOTH)
        return wrap

    def impl_env(self):
        e = DiffCheck.impl_env(self)
        e['E2_TIMEOUT_MS'] = '20000'
        e['E4_TIMEOUT_MS'] = '120000'
        return e

    # ---------------------------------------------------------------- cases
    def _rand_prog(self, rng):
        n = rng.randrange(2, 8)                      # threads incl. main
        used_d = set()
        def dur():
            for _ in range(50):
                d = rng.choice([1, 2, 3, 5, 7]) * (10 ** rng.randrange(0, 4)) + rng.randrange(0, 3)
                if d not in used_d:
                    used_d.add(d); return d
            return rng.randrange(1, 100000)
        joinable = [False] + [rng.random() < 0.6 for _ in range(n - 1)]
        progs = [[] for _ in range(n)]
        # who creates whom: a random tree rooted at main
        parent = [None] + [rng.randrange(0, k) for k in range(1, n)]
        pending = {k: [c for c in range(1, n) if parent[c] == k] for k in range(n)}
        for k in range(n):
            nops = rng.randrange(0, 7) if k else rng.randrange(2, 9)
            body = []
            for _ in range(nops):
                r = rng.random()
                if r < 0.22: body.append('usleep %d' % dur())
                elif r < 0.40: body.append('yield')
                elif r < 0.50: body.append('interrupt %d %d' % (rng.randrange(0, n), rng.choice([4, 7, 11, 125])))
                elif r < 0.66: body.append('join %d' % rng.randrange(1, n))
                elif r < 0.80: body.append('nthreads')
                elif r < 0.92: body.append('released %d' % rng.randrange(1, n))
                else: body.append('nop')
            # interleave the creates of my children at random positions (mostly early)
            for c in pending[k]:
                pos = rng.randrange(0, len(body) + 1) if rng.random() < 0.5 else 0
                body.insert(pos, 'create %d %d' % (c, 1 if joinable[c] else 0))
            progs[k] = body
        # main usually joins its joinable children and then looks at the counters at quiescence
        if rng.random() < 0.7:
            for c in range(1, n):
                if joinable[c] and rng.random() < 0.8: progs[0].append('join %d' % c)
            if rng.random() < 0.7:
                progs[0].append('usleep %d' % (10 ** 7 + rng.randrange(1000)))
                progs[0].append('nthreads')
                for c in range(1, n):
                    if rng.random() < 0.5: progs[0].append('released %d' % c)
        return 'P - | ' + ' | '.join(';'.join(b) if b else '-' for b in progs)

    def gen_cases(self, tier, rng):
        cs = []
        cp = os.path.join(VERIF, 'replay', 'corpus', 'C05.cases')
        if os.path.exists(cp):
            cs += [l.strip() for l in open(cp) if l.strip() and not l.startswith('#')]
        # --- A: asymmetric lock schedules.  2 participants, 1 round: every schedule prefix of length <= L
        L = 8 if tier == 'quick' else 12
        for ln in range(0, L + 1):
            for sch in itertools.product('01', repeat=ln):
                cs.append('A 2 1 200 ' + ''.join(sch))
        for ln in range(0, 6 if tier == 'quick' else 8):
            for sch in itertools.product('012', repeat=ln):
                cs.append('A 3 1 300 ' + ''.join(sch))
        for _ in range(400 if tier == 'quick' else 6000):
            n = rng.randrange(2, 5); rounds = rng.randrange(1, 4)
            ln = rng.randrange(0, 40)
            # bursts: a participant runs a few steps in a row (windows a few instructions wide)
            s = ''
            while len(s) < ln:
                s += str(rng.randrange(n)) * rng.randrange(1, 5)
            cs.append('A %d %d %d %s' % (n, rounds, 2000, s[:ln]))
        # --- P: E2 programs
        hand = [
            'P - | create 1 1;join 1;released 1;nthreads | usleep 300',
            'P - | create 1 0;released 1;yield;released 1;nthreads | nop',
            'P - | create 1 1;create 2 1;join 2;join 1;nthreads;released 1;released 2 | usleep 50;yield | join 1;nop',
            'P - | create 1 1;usleep 500;released 1;join 1;released 1;nthreads | nop',
            'P - | create 1 1;create 2 0;usleep 10;interrupt 1 7;join 1 | usleep 1000;yield | join 1;nop',
            'P - | create 1 1;create 2 0;nthreads;yield;nthreads;usleep 100000;nthreads | create 3 1;join 3 | usleep 7;nthreads | yield;usleep 3',
            'P - | create 1 1;yield;interrupt 1 4;join 1 | create 2 1;join 2;nthreads | usleep -1',
            'P - | create 1 1;join 1;join 1;released 1 | -',
            'P - | create 1 0;join 1;yield;released 1 | -',
        ]
        cs += hand
        nprog = 500 if tier == 'quick' else 12000
        cand = [self._rand_prog(rng) for _ in range(nprog)]
        cs += self._drop_ties(cand)
        # --- M: E4 controlled multi-vCPU replay
        cs += self._gen_e4(tier, rng)
        return list(dict.fromkeys(cs))

    # ---------------------------------------------------------------- E4 generator
    E4_TEMPLATES = [
        # (name, header, programs, set-up commands).  vCPU 0 = victim (passive), vCPU 1 = thief (active) unless said otherwise
        # A: a stealable migrated thread (T3) and a cross-vCPU-interrupted sleeper (T2) meet in vCPU 0's standby queue
        ('standby-MS', 'M 2 p,a', ['create 2 1 1;usleep 100000', 'create 3 0 1;yield;interrupt 2 4', 'usleep 50000;nop', 'migrate 3 0;nop'], 's0 s0 s0 s0 s1 s1 s1'),
        # B: the same two in the other order (interrupt first, then the migration)
        ('standby-SM', 'M 2 p,a', ['create 2 1 1;usleep 100000', 'create 3 0 1;interrupt 2 4;yield', 'usleep 50000;nop', 'migrate 3 0;nop'], 's0 s0 s0 s0 s1'),
        # C: two stealable threads that yield in vCPU 0's run queue, one non-stealable; thief idle
        ('runq', 'M 2 p,a', ['create 2 1 1;create 3 0 1;create 4 1 0;yield;yield;join 2;nthreads', 'nthreads', 'yield;yield;nthreads', 'yield;usleep 10;nop', 'yield;yield'], 's0 s0 s0'),
        # D: both vCPUs steal and are stolen from; threads migrate back and forth; cross-vCPU join
        ('pingpong', 'M 2 ap,ap', ['create 2 1 1;create 3 1 1;usleep 30;join 2', 'join 3;nthreads', 'migrate 2 1;yield;migrate 2 0;yield', 'yield;migrate 3 1;usleep 7;yield'], 's0 s0'),
        # E: sleepers with deadlines + ticks: expiry (LResume) against cross-vCPU interrupts of the same sleepers
        ('expiry', 'M 2 p,a', ['create 2 1 1;create 3 0 1;usleep 40;interrupt 3 7', 'usleep 15;interrupt 2 4;interrupt 3 11;yield', 'usleep 20;yield;usleep 5', 'usleep 60;nop'], 's0 s0 s0 a0 a0 a0 a0'),
        # F: three vCPUs, two thieves around one victim; migrate of another thread (READY) by its creator
        ('three', 'M 3 p,a,ap', ['create 3 1 1;create 4 0 1;migrate 4 2;yield;join 3', 'yield;interrupt 3 4', 'interrupt 4 4;usleep 9', 'usleep 25;yield;nop', 'yield;usleep 3;yield'], 's0 s0'),
        # H: class of known finding F23: a stealable thread parks inside the yield window (context not saved), the thief scans;
        #    cases in which the thief RUNS it before the victim has saved the context are recognised by the model and not replayed
        ('yieldwin', 'M 2 p,a', ['create 2 1 1;yield;nop', '-', 'yield;yield;nop'], 's0 s0 s0 s1 y0'),
        # G: dying threads, non-joinable and joinable, stolen before they ever ran; join from the other vCPU
        ('die', 'M 2 p,a', ['create 2 1 1;create 3 0 1;usleep 10;released 2;released 3', 'usleep 1;join 2;released 2;nthreads', 'nop', '-'], 's0 s0'),
        # ---- vCPU wind-down (wait_all / vcpu_fini; names start with `fini`: the case ends with a drain, see E4_DRAIN).  vCPU 0 = A is finalised
        # I: vCPU 1 creates T2 and migrates it (READY -> A's standby queue, in no sleep queue) while A's main thread is blocked at its gate
        #    in front of `fini`; every order of the turns: fini first (the migrate is then skipped), migrate first (wait_all must drain it) ...
        ('fini-mig', 'M 2 -,-', ['fini', 'create 2 1 0;migrate 2 0;join 2;nthreads', 'nthreads;nop'], ''),
        # J: T2 migrates ITSELF to A (deferred do_thread_migrate on the next thread's stack); A runs an op first, then fini
        ('fini-self', 'M 2 -,-', ['nop;fini', 'create 2 1 0;yield;join 2', 'migrate 2 0;nthreads;nop'], ''),
        # K: A has a sleeper with a deadline (T3), a sleeper interrupted from vCPU 1 (standby queue + sleep queue overlap), a stealable thread T4,
        #    and receives the migrated T2; vCPU 1 may steal from A's standby queue / run queue while A is inside wait_all
        ('fini-sleepers', 'M 2 p,a', ['create 3 1 0;create 4 0 1;yield;fini', 'create 2 1 1;migrate 2 0;interrupt 3 4;usleep 20;join 2;join 3',
                                      'yield;nop', 'usleep 50;nop', 'usleep 300;yield;nop'], 's0 s0 s0'),
        # L: the public wait_all() (the caller goes on afterwards: nthreads must be 2), then fini; a thread sleeps on A, one is migrated in
        ('fini-waitall', 'M 2 -,-', ['create 3 0 0;waitall;nthreads;fini', 'create 2 1 0;migrate 2 0;usleep 7;nop', 'nop;yield;nop', 'usleep 30;nop'], 's0'),
        # M: three vCPUs, two of them are finalised; threads migrated into both
        ('fini-three', 'M 3 -,-,-', ['fini', 'create 3 1 0;migrate 3 0;create 4 1 0;migrate 4 2;waitall', 'yield;fini', 'nop;nop', 'yield;nop'], ''),
        # N: the target's main thread is INSIDE wait_all (asleep in thread_usleep(1000) because T3 sleeps) when the migration arrives, T3 is then
        #    interrupted from vCPU 1: standby queue holds the migrated thread and the interrupted sleeper together
        ('fini-inside', 'M 2 -,-', ['create 3 0 0;yield;fini', 'create 2 1 0;usleep 3;migrate 2 0;interrupt 3 7;join 2', 'yield;nop', 'usleep 5000;nop'], 's0 s0 s0 s0'),
    ]
    # the drain that ends every wind-down case: turns for every vCPU and clock ticks until nothing can move any more
    @staticmethod
    def _e4_drain(nv):
        rnd = ' '.join('a%d' % v for v in range(nv))
        return ' '.join([rnd] * 4 + ['t1001'] + [rnd] * 4 + ['t100003'] + [rnd] * 5)

    def _gen_e4(self, tier, rng):
        cand = []
        quick = tier == 'quick'
        for name, head, progs, setup in self.E4_TEMPLATES:
            nv = int(head.split()[1])
            base = ('%s | %s | %s' % (head, ' | '.join(progs), setup)).rstrip()
            drain = (' ' + self._e4_drain(nv)) if name.startswith('fini') else ''
            self._e4_cat = getattr(self, '_e4_cat', {})
            # (1) every interleaving of vCPU turns under the library idler's own policy (`a<v>`)
            La = (6 if nv == 2 else 4) if quick else (10 if nv == 2 else 6)
            for w in itertools.product(range(nv), repeat=La):
                c = base + ' ' + ' '.join('a%d' % v for v in w) + drain
                cand.append(c); self._e4_cat[c] = 'M:%s:turns' % name
            # (2) every short word over the fine-grained commands after a random `a` prefix that reaches deeper states
            alpha = ['%s%d' % (k, v) for k in 'srwy' for v in range(nv)] + ['t25']
            Lf = 2 if quick else 3
            for _ in range((1 if drain else 2) if quick else 4):
                pre = ' '.join('a%d' % rng.randrange(nv) for _ in range(0 if name == 'yieldwin' else rng.randrange(0, 9)))   # yieldwin: stay inside the window
                for w in itertools.product(alpha, repeat=Lf):
                    c = (base + ' ' + pre).rstrip() + ' ' + ' '.join(w) + ' ' + ' '.join('a%d' % rng.randrange(nv) for _ in range(4)) + drain
                    cand.append(c); self._e4_cat[c] = 'M:%s:fine' % name
        for _ in range(600 if quick else 8000):
            c = self._rand_e4(rng)
            cand.append(c); self._e4_cat[c] = 'M:random:nv=%s' % c.split()[1]
        cp = [l.strip() for l in open(os.path.join(VERIF, 'replay', 'corpus', 'C05.cases')) if l.startswith('M ')] if os.path.exists(os.path.join(VERIF, 'replay', 'corpus', 'C05.cases')) else []
        rng.shuffle(cand)          # runaway cases of a broken tree (4 s CPU each) spread over the shards instead of queueing in one
        return self._e4_filter(list(dict.fromkeys(cp + cand)))

    def _rand_e4(self, rng):
        nv = rng.choice([2, 2, 2, 3])
        nu = rng.randrange(2, 5)
        n = nv + nu
        flags = [rng.choice(['p', 'a', 'ap', 'ap', '-']) for _ in range(nv)]
        if not any('p' in f for f in flags): flags[rng.randrange(nv)] = 'p'
        if not any('a' in f for f in flags): flags[rng.randrange(nv)] += 'a'
        flags = [f.replace('-a', 'a') for f in flags]
        used = set()
        def dur():
            for _ in range(50):
                d = rng.choice([1, 2, 3, 5, 7]) * rng.choice([1, 10, 100]) + rng.randrange(0, 3)
                if d not in used: used.add(d); return d
            return rng.randrange(1000, 100000)
        progs = [[] for _ in range(n)]
        joinable = {k: rng.random() < 0.5 for k in range(nv, n)}
        ws = {k: rng.random() < 0.75 for k in range(nv, n)}
        for k in range(n):
            body = []
            for _ in range(rng.randrange(1, 6)):
                r = rng.random()
                if r < 0.22: body.append('usleep %d' % dur())
                elif r < 0.42: body.append('yield')
                elif r < 0.56: body.append('interrupt %d %d' % (rng.randrange(0, n), rng.choice([4, 7, 11])))
                elif r < 0.66: body.append('join %d' % rng.randrange(nv, n))
                elif r < 0.86: body.append('migrate %d %d' % ((k if (k >= nv and rng.random() < 0.6) else rng.randrange(nv, n)), rng.randrange(nv)))
                elif r < 0.92: body.append('nthreads')
                elif r < 0.97: body.append('released %d' % rng.randrange(nv, n))
                else: body.append('usleep 0')
            progs[k] = body
        for k in range(nv, n):                      # creator: mostly a main thread, early
            cr = rng.randrange(nv) if rng.random() < 0.8 else rng.randrange(n)
            pos = 0 if rng.random() < 0.7 else rng.randrange(0, len(progs[cr]) + 1)
            progs[cr].insert(pos, 'create %d %d %d' % (k, 1 if joinable[k] else 0, 1 if ws[k] else 0))
        # vCPU wind-down: some main threads end with vcpu_fini() (or call wait_all() somewhere); such cases end with the drain
        wind = rng.random() < 0.4
        if wind:
            for v in range(nv):
                r = rng.random()
                if r < 0.55: progs[v].append('fini')
                elif r < 0.75: progs[v].insert(rng.randrange(0, len(progs[v]) + 1), 'waitall')
            if not any(o in ('fini', 'waitall') for v in range(nv) for o in progs[v]): progs[rng.randrange(nv)].append('fini')
        cmds = []
        for _ in range(rng.randrange(8, 45)):
            r = rng.random(); v = rng.randrange(nv)
            if r < 0.50: cmds.append('a%d' % v)
            elif r < 0.70: cmds.append('s%d' % v)
            elif r < 0.78: cmds.append('r%d' % v)
            elif r < 0.89: cmds.append('w%d' % v)
            elif r < 0.94: cmds.append('y%d' % v)
            else: cmds.append('t%d' % rng.choice([1, 5, 10, 30, 100, 1000]))
            if rng.random() < 0.3: cmds += [cmds[-1][0] + str(v)] * rng.randrange(1, 4) if cmds[-1][0] in 'as' else []
        if wind: cmds.append(self._e4_drain(nv))
        return 'M %d %s | %s | %s' % (nv, ','.join(flags), ' | '.join(';'.join(b) if b else '-' for b in progs), ' '.join(cmds))

    def _e4_model(self, cases):
        exe = os.path.join(BUILD, 'bin', 'C05_model')
        if not os.path.exists(exe) or not cases: return [None] * len(cases)
        return run_cases(exe, cases, os.path.join(BUILD, 'run', 'C05_%d' % os.getpid()), 'e4filter', timeout=600)

    def _e4_filter(self, cand):
        """Cases outside the replayable domain are recognised BY THE MODEL and not used: TIE (two equal finite deadlines in one
        sleep queue: the wake order is C04's subject) and F23RUN (two vCPUs on one stack: the manifestation of known finding F23 —
        the real run is undefined behaviour, confirmed separately by stress mode Y).  Cases in the CLASS of F23 (a steal inside
        the victim's yield window) that stay harmless are kept and remembered for known_class."""
        out = self._e4_model(cand)
        self._f23 = getattr(self, '_f23', {})
        keep = []
        cov = dict(candidates=len(cand), dropped_tie=0, dropped_f23_manifest=0, kept_f23_class=0, steal_labels=0, cases_with_steal=0,
                   scans_taking_2_or_more=0, drain_labels=0, resume_labels=0, standbyq_with_2_or_more=0, standby_sleepq_overlap=0)
        for c, o in zip(cand, out):
            if o is None: keep.append(c); continue
            pre = o[:40]
            if 'TIE ' in pre: cov['dropped_tie'] += 1; continue
            if pre.startswith('STUCK'): cov['dropped_undefined'] = cov.get('dropped_undefined', 0) + 1; continue   # undefined behaviour in C++
            cov['fini_cases'] = cov.get('fini_cases', 0) + int('[off]' in o)
            # the scenario of seeded change C05_2: wait_all / vcpu_fini is entered (main at its gate, only main + idler in the ring, empty sleep
            # queue) while a migrated thread sits in the standby queue, and the vCPU is finalised later
            cov['fini_with_migrated_thread_in_standbyq'] = cov.get('fini_with_migrated_thread_in_standbyq', 0) + int(any(
                re.search(r'V%d\[r=%d,\d+ q=- b=\d' % (v, v), o) and ('V%d[off]' % v) in o for v in range(int(c.split()[1]))))
            if '{F23RUN}' in pre: cov['dropped_f23_manifest'] += 1; continue
            self._f23[c] = '{F23CLASS}' in pre
            cov['kept_f23_class'] += int(self._f23[c])
            labs = ' '.join(re.findall(r'\{([^}]*)\}', o))
            k = labs.count('LSteal')
            cov['steal_labels'] += k; cov['cases_with_steal'] += int(k > 0)
            cov['scans_taking_2_or_more'] += len(re.findall(r'LSteal\d+<\d+:T\d+ LSteal', labs))
            cov['drain_labels'] += labs.count('LDrain'); cov['resume_labels'] += labs.count('LResume')
            cov['standbyq_with_2_or_more'] += int(bool(re.search(r'b=\d+,\d+', o)))
            cov['standby_sleepq_overlap'] += int(bool(re.search(r'=B\dz', o)))
            keep.append(c)
        cov['cases'] = len(keep)
        self.extra_coverage = dict(getattr(self, 'extra_coverage', {}) or {}); self.extra_coverage['e4_replay'] = cov
        return keep

    def _drop_ties(self, cand):
        """the model keeps the sleep queue sorted; equal finite deadlines (order decided by the C04 heap) are outside
        its domain: such programs are recognised by the model itself (TIE) and not used"""
        exe = os.path.join(BUILD, 'bin', 'C05_model')
        if not os.path.exists(exe): return cand
        out = run_cases(exe, cand, os.path.join(BUILD, 'run', 'C05'), 'tiefilter', timeout=600)
        return [c for c, o in zip(cand, out) if o is not None and not o.startswith('TIE') and 'TIE ' not in o[:12]]

    def nontrivial(self, case):
        if case[0] == 'M':
            nv, flags, progs, cmds = m_parse_case(case)
            ops = [o for p in progs for o in p]
            cross = any(o[0] in ('migrate', 'fini', 'waitall') for o in ops) or (any(o[0] == 'create' and len(o[1]) > 2 and o[1][2] for o in ops) and any(c[0] in 'wa' for c in cmds))
            return nv >= 2 and cross and len({c[1:] for c in cmds if c[0] != 't'}) >= 2
        if case[0] == 'A':
            f = case.split(' ')
            s = f[4] if len(f) > 4 else ''
            return int(f[2]) > 0 and ('0' in s or len(s) < 4) and any(c != '0' for c in s + '1')
        progs = parse_prog(case)
        created = any(o[0] == 'create' for p in progs for o in p)
        others = any(o[0] in ('usleep', 'yield') for p in progs for o in p)
        fate = any(o[0] == 'join' for p in progs for o in p) or any(o[0] == 'create' and (len(o[1]) < 2 or o[1][1] == 0) for p in progs for o in p)
        return created and others and fate

    def category(self, case):
        if case[0] == 'M': return getattr(self, '_e4_cat', {}).get(case, 'M:other')
        if case[0] == 'A': return 'A:n=%s' % case.split(' ')[1]
        progs = parse_prog(case)
        ops = [o[0] for p in progs for o in p]
        return 'P:threads=%d%s%s' % (len(progs), ':join' if 'join' in ops else '', ':intr' if 'interrupt' in ops else '')

    def canon(self, line):
        line = line.strip()
        if ' ;; ' in line or line.startswith(('init ', 'STUCK ', 'TIE ', '{F23')):
            line = M_STRIP.sub('', line)               # the model's label lists / class markers are annotations
        return line

    def known_class(self, case):
        if case[0] != 'M': return None
        f = getattr(self, '_f23', {})
        if case not in f:
            o = self._e4_model([case])[0]
            f[case] = bool(o) and '{F23CLASS}' in o[:40]
            self._f23 = f
        return 'F23' if f[case] else None

    # ---------------------------------------------------------------- the property on the implementation's output
    def oracle(self, case, out):
        if case[0] == 'M':
            msg = self._oracle_e4(case, out)
            m = re.search(r'after `([^`]*)`', msg or '')
            if m:       # spell the failing command prefix out as labels of C05_Model.step (computed by the model runner)
                try:
                    mo = self._e4_model([case])[0] or ''
                    k = len(m.group(1).split())
                    labs = [' '.join(re.findall(r'\{([^}]*)\}', seg)) for seg in mo.split(' ;; ')[1:k + 1]]
                    msg += '  [labels of C05_Model.step: %s]' % ' | '.join(labs)
                except Exception:
                    pass
            return msg
        if case[0] == 'A': return self._oracle_asym(case, out)
        return self._oracle_prog(case, out)

    def _oracle_asym(self, case, out):
        if out.startswith('CRASH') or 'E3ERROR' in out: return 'E3 harness failed: ' + out[:300]
        m = re.match(r'^livelock=(\d) steps=(\d+) digest=(\d+) log=(.*)$', out)
        if not m: return 'unparsable output: %r' % out[:200]
        log = m.group(4).split(' ') if m.group(4) else []
        return asym_occupancy(log)

    def _oracle_e4(self, case, out):
        """the property on the implementation's placement dumps, independent of the model"""
        if out.startswith('BADCASE'): return None
        failed = None
        if out.startswith(('CRASH', 'HANG', 'ABORT', 'NONDET', 'NOOUTPUT', 'INITFAIL', 'PIPEFAIL')):
            # the run ended early: what it printed up to there is still judged (a concrete placement violation is the better message)
            failed = 'implementation run failed: ' + out[:300]
            k = out.find('init ')
            if k < 0 or out.startswith('NONDET'): return failed
            out = out[k:]
        nv, flags, progs, cmds = m_parse_case(case)
        n = len(progs)
        segs = out.split(' ;; ')
        if failed:
            if len(segs) > 1 and ' ev=' not in segs[-1]: segs = segs[:-1]          # the command that did not complete
            if len(segs) > len(cmds) + 1: return failed
        elif len(segs) != len(cmds) + 1: return 'unparsable output (%d segments for %d commands): %r' % (len(segs), len(cmds), out[:200])
        attr = {}                                   # k -> (joinable, ws) from the program text
        for p in progs:
            for o, a in p:
                if o == 'create' and a and a[0] not in attr: attr[a[0]] = (len(a) > 1 and a[1] != 0, len(a) > 2 and a[2] != 0)
        nextpc = [0] * n
        joined = set()
        prev = None
        for i, seg in enumerate(segs):
            toks = seg.split()
            where = 'after `%s`: ' % ' '.join(cmds[:i]) if i else 'initially: '
            if i == 0:
                if toks[0] != 'init': return 'unparsable output: %r' % seg[:100]
                evs = '-'; dtoks = toks[1:]; cmd = ''
            else:
                if toks[0] != cmds[i - 1] or not toks[1].startswith('ev='): return 'unparsable output: %r' % seg[:100]
                cmd = toks[0]; evs = toks[1][3:]; dtoks = toks[2:]
            d = m_parse_dump(dtoks)
            if d is None: return 'unparsable dump: %r' % seg[:200]
            vc, th, notes = d
            msg = m_check_dump(nv, n, vc, th, notes)
            if msg: return where + msg
            off = {v for v in range(nv) if vc[v] is None}
            finis = set()
            # ---- events: every op once and in order; join exact; counters
            if evs != '-':
                for e in evs.split(','):
                    mm = re.match(r'^(\d+)\.(\d+):(-?\d+)/(-?\d+)@(\d+)$', e)
                    if not mm: return 'unparsable event %r' % e
                    t, pc, ret, err, now = (int(x) for x in mm.groups())
                    if not (0 <= t < n) or t not in th: return where + 'an op of thread %d ran, which was never created' % t
                    if pc != nextpc[t] or pc >= len(progs[t]):
                        return where + 'thread %d executed op %d, expected op %d: its entry function did not run exactly once in order' % (t, pc, nextpc[t])
                    nextpc[t] += 1
                    name, args = progs[t][pc]
                    if name == 'join' and ret != -2:
                        k = args[0]
                        if k not in attr or not attr[k][0]: return where + 'join %d returned %d for a thread that is not joinable' % (k, ret)
                        if k in joined: return where + 'thread_join(%d) returned twice' % k
                        if nextpc[k] < len(progs[k]) or k not in th or th[k]['returned'] != 1:
                            return where + 'thread_join(%d) returned before the entry function of %d returned' % (k, k)
                        if ret != 1000 + k: return where + 'thread_join(%d) returned %d, the entry function returned %d' % (k, ret, 1000 + k)
                        joined.add(k)
                    elif name == 'fini' and ret != -2:
                        # vcpu_fini() returned on the OS thread of vCPU t: the vCPU is gone, the return value is the number of vCPUs left
                        if t >= nv: return where + 'vcpu_fini was executed by thread %d, which is not the main thread of a vCPU' % t
                        if t not in off: return where + 'vcpu_fini returned on vCPU %d but the vCPU is still there' % t
                        if ret != nv - len(off): return where + 'vcpu_fini of vCPU %d returned %d, but %d vCPUs are left' % (t, ret, nv - len(off))
                        finis.add(t)
                    elif name == 'waitall' and ret != -2:
                        # wait_all() returned: at that moment (the caller went straight to its next gate) the vCPU has nothing but the caller
                        # and the idler in its run queue, and empty sleep and standby queues
                        if ret != 0: return where + 'wait_all returned %d' % ret
                        own = th[t]['vcpu']
                        if own is not None and vc.get(own) is not None:
                            r_, q_, b_, _n = vc[own]
                            if len(r_) > 2 or q_ or b_:
                                return where + ('wait_all() returned on vCPU %d while the vCPU still has other threads (run queue %s, sleep queue %s, '
                                                'standby queue %s)' % (own, ','.join(r_) or '-', ','.join(q_) or '-', ','.join(b_) or '-'))
                    elif name == 'nthreads':
                        if th[t]['vcpu'] is not None and vc.get(th[t]['vcpu']) is not None and ret != vc[th[t]['vcpu']][3]:
                            return where + 'nthreads = %d on vCPU %d whose counter is %d' % (ret, th[t]['vcpu'], vc[th[t]['vcpu']][3])
                    elif name == 'released' and ret != -2:
                        k = args[0]
                        if k in th and th[k]['released'] != ret: return where + 'released %d = %d, the allocator says %d' % (k, ret, th[k]['released'])
            for k, t in th.items():
                if t['started'] is None: continue
                jn = attr.get(k, (False, False))[0]
                if t['started'] > 1: return where + 'the entry function of thread %d was started %d times' % (k, t['started'])
                if t['returned'] > t['started']: return where + 'the entry function of thread %d returned %d times, started %d' % (k, t['returned'], t['started'])
                if t['released'] not in (0, 1): return where + 'the stack of thread %d was released %d times' % (k, t['released'])
                if (t['st'] == 'D') != (t['returned'] == 1): return where + 'thread %d: state %s but its entry function returned %d times' % (k, t['st'], t['returned'])
                if jn and (t['released'] == 1) != (k in joined):
                    return where + 'joinable thread %d: stack released %d times, thread_join has%s returned' % (k, t['released'], '' if k in joined else ' not')
                if not jn and t['released'] != t['returned']:
                    return where + 'non-joinable thread %d: entry function returned %d times, stack released %d times' % (k, t['returned'], t['released'])
            # ---- transitions: never lost, never resurrected; a thread that changes vCPU was in no sleep queue; steal rules
            poff = {v for v in range(nv) if prev[0][v] is None} if prev is not None else set()
            if poff - off: return where + 'finalised vCPU %d is back' % min(poff - off)
            if (off - poff) != finis: return where + 'vCPU %s went offline without a vcpu_fini of its main thread returning' % sorted((off - poff) ^ finis)
            if prev is not None:
                pvc, pth = prev
                for k, t in pth.items():
                    if k not in th: return where + 'thread %d disappeared' % k
                    u = th[k]
                    if t['st'] == 'D' and u['st'] != 'D': return where + 'finished thread %d is live again (state %s)' % (k, u['st'])
                    if t['started'] is not None and (u['started'] < t['started'] or u['returned'] < t['returned'] or u['released'] < t['released']):
                        return where + 'counters of thread %d went backwards' % k
                    if t['st'] != 'D' and u['st'] != 'D' and t['vcpu'] != u['vcpu']:
                        a, b = t['vcpu'], u['vcpu']
                        if t['z']: return where + 'thread %d moved from vCPU %d to vCPU %d while it was still in the sleep queue of vCPU %d' % (k, a, b, a)
                        if cmd[0] == 'w':
                            if b != int(cmd[1:]): return where + 'a steal scan of vCPU %s moved thread %d to vCPU %d' % (cmd[1:], k, b)
                            if not attr.get(k, (False, False))[1]: return where + 'thread %d was stolen although it does not allow work stealing' % k
                            if t['st'] == 'R': return where + 'RUNNING thread %d was stolen from vCPU %d' % (k, a)
                            if 'p' not in flags[a]: return where + 'thread %d was stolen from vCPU %d, which is not passive' % (k, a)
                            if 'a' not in flags[b]: return where + 'vCPU %d stole thread %d although it is not active' % (b, k)
            prev = (vc, th)
        if failed or prev is None: return failed
        # ---- end of the run.  If every vCPU that still exists has gone idle (only its idler in the run queue, nothing in the standby
        # queue) and the last turn of every such vCPU changed nothing, nothing will ever run again: every created program thread must
        # then have run its entry function (exactly once: checked above) and be finished or blocked in a sleep queue — a thread that
        # never ran, or is neither, is LOST.  (The generator ends the fini / wait_all scenarios with a drain: turns for all vCPUs + ticks.)
        vc, th = prev
        on = [v for v in range(nv) if vc[v] is not None]
        if all(vc[v][0] == [str(n + v)] and not vc[v][2] for v in on):
            last = {}
            for i in range(len(segs) - 1, 0, -1):
                if segs[i].split(' ', 2)[2:] != segs[-1].split(' ', 2)[2:] or ' ev=- ' not in segs[i]: break
                if cmds[i - 1][0] in 'as' and cmds[i - 1][1:].isdigit(): last[int(cmds[i - 1][1:])] = True
            if all(v in last for v in on):
                for k, t in sorted(th.items()):
                    if t['started'] is None: continue
                    if t['started'] == 0 and t['st'] != 'D':
                        return 'at the end (every vCPU idle or finalised): thread %d was created but its entry function never ran (state %s, vCPU %s): lost' % (k, t['st'], t['vcpu'])
                    if t['st'] not in 'DS':
                        return 'at the end (every vCPU idle or finalised): thread %d is neither finished nor blocked (state %s): lost' % (k, t['st'])
        return failed

    def _oracle_prog(self, case, out):
        if out.startswith(('CRASH', 'HANG', 'NONDET', 'NOOUTPUT', 'IDLE-LIMIT', 'TRACE-LIMIT', 'INITFAIL')):
            return 'implementation run failed: ' + out[:300]
        if out.startswith('BADCASE'): return None
        pt = parse_trace(out)
        if pt is None: return 'unparsable output: %r' % out[:200]
        evs, blocked, end = pt
        progs = parse_prog(case)
        n = len(progs)
        nextpc = [0] * n
        created = [False] * n; created[0] = True
        joinable = [False] * n
        joined = [False] * n          # join k returned
        claimed = [False] * n
        maybe_dead_empty = set()      # created threads with an empty program: they die when first scheduled
        def finished(k): return nextpc[k] >= len(progs[k])
        for (t, pc, ret, err, now) in evs:
            if not (0 <= t < n): return 'trace names thread %d that is not in the program' % t
            if not created[t]: return 'thread %d executed an op before any create of it returned' % t
            if pc != nextpc[t]:
                return 'thread %d executed op %d, expected op %d: its entry function did not run exactly once in order' % (t, pc, nextpc[t])
            if pc >= len(progs[t]): return 'thread %d executed op %d beyond its program' % (t, pc)
            name, args = progs[t][pc]
            nextpc[t] += 1
            if name == 'create':
                k = args[0]
                if ret == 0:
                    if not (1 <= k < n) or created[k]: return 'create %d returned 0 but the thread exists already / is out of range' % k
                    created[k] = True; joinable[k] = len(args) > 1 and args[1] != 0
                    if not progs[k]: maybe_dead_empty.add(k)
            elif name == 'join':
                k = args[0]
                if ret != -2:
                    if not (0 <= k < n) or not created[k] or not joinable[k]: return 'join %d returned %d for a thread that is not joinable' % (k, ret)
                    if joined[k]: return 'thread_join(%d) returned twice' % k
                    if not finished(k): return 'thread_join(%d) returned before the entry function of %d returned (op %d of %d pending)' % (k, k, nextpc[k], len(progs[k]))
                    if ret != 1000 + k: return 'thread_join(%d) returned %d, the entry function returned %d' % (k, ret, 1000 + k)
                    joined[k] = True
            elif name == 'released':
                k = args[0]
                if ret == -2: continue
                if ret not in (0, 1): return 'stack of thread %d released %d times' % (k, ret)
                if ret == 1:
                    if not finished(k): return 'stack of thread %d released before its entry function returned' % k
                    if joinable[k] and not joined[k]: return 'stack of joinable thread %d released before thread_join returned' % k
                else:
                    if joinable[k] and joined[k]: return 'stack of thread %d still not released after thread_join returned' % k
                    if (not joinable[k]) and finished(k) and progs[k] and t != k:
                        return 'stack of non-joinable thread %d not released although it finished' % k
            elif name == 'nthreads':
                live_lo = live_hi = 2
                for k in range(1, n):
                    if not created[k]: continue
                    if k == t: live_lo += 1; live_hi += 1             # the caller itself is running
                    elif k in maybe_dead_empty: live_hi += 1          # empty program: dead once it was scheduled
                    elif not finished(k): live_lo += 1; live_hi += 1
                if not (live_lo <= ret <= live_hi):
                    return 'nthreads = %d, but main + idler + %d..%d live created threads exist' % (ret, live_lo - 2, live_hi - 2)
        # a thread that started must have run to completion unless it is reported blocked
        bl = dict(blocked)
        for k in range(n):
            if created[k] and not finished(k) and k not in bl:
                return 'thread %d neither finished nor blocked at the end of the run (lost)' % k
            if k in bl and bl[k] != nextpc[k]: return 'blocked pc of thread %d inconsistent with its trace' % k
        return None

    def neighbours(self, case, rng):
        if case[0] == 'M':
            nv, flags, progs, cmds = m_parse_case(case)
            out = []
            for i in range(len(cmds)):
                out.append(m_fmt_case(nv, flags, progs, cmds[:i] + cmds[i + 1:]))
            for k in range(len(progs)):
                for i in range(len(progs[k])):
                    q = [list(p) for p in progs]; del q[k][i]
                    out.append(m_fmt_case(nv, flags, q, cmds))
            return out[:200]
        if case[0] != 'P': return []
        progs = parse_prog(case)
        out = []
        for k in range(len(progs)):
            for i in range(len(progs[k])):
                q = [list(p) for p in progs]
                del q[k][i]
                out.append('P - | ' + ' | '.join(';'.join('%s %s' % (o, ' '.join(map(str, a))) if a else o for o, a in p) if p else '-' for p in q))
        return out[:200]

    # ---------------------------------------------------------------- extra engines
    def extra(self, ctx):
        viol = []
        cov = {}
        env = self.impl_env()
        # 1. hardware litmus for F5 on the real class: confirms the known finding, never required to fire
        ms = 3000 if ctx['tier'] == 'quick' else 10000
        rc, out = sh([self.litmus, str(ms), '8', '16'], timeout=ms / 1000 + 60, env=env)
        m = re.search(r'overlaps=(\d+)', out)
        cov['litmus_F5'] = dict(cmd='C05_litmus %d 8 16' % ms, output=out.strip()[:300],
                                confirms_known_finding=bool(m and int(m.group(1)) > 0))
        if m and int(m.group(1)) > 0:
            print('[C05] litmus on the real asymmetric_spinLock: %s (confirms known finding F5)' % out.strip())
        # 2. multi-vCPU stress runs (search oracle; real time, so only exactly-once / one-at-a-time / counts-restored
        #    are asserted, with generous limits)
        secs = 3 if ctx['tier'] == 'quick' else 15
        #    M: migration + cross-vCPU interrupt/join, work stealing OFF: the run-queue lock has no background side
        #       (F5 cannot fire) and no READY thread is ever taken by another vCPU (F23 cannot fire): must be clean
        rc, out = sh([self.stress, 'M', str(secs), str(ctx['seed'])], timeout=secs * 20 + 120, env=env)
        if rc == 124 and 'STRESS-FAIL' not in out:          # only the outer real-time limit fired (loaded machine): once more, 5x limit
            rc, out = sh([self.stress, 'M', str(secs), str(ctx['seed'])], timeout=(secs * 20 + 120) * 5, env=env)
        cov['stress_migrate'] = out.strip()[-400:]
        if rc != 0 or 'STRESS-OK' not in out:
            viol.append(dict(kind='oracle', message='multi-vCPU stress (migrate/interrupt/join, stealing off) failed: ' + out.strip()[-600:],
                             case='stress M %d %d' % (secs, ctx['seed'])))
        #    S: work stealing ON, stealable threads never yield (the F23 window stays closed).  The asymmetric lock is
        #       used from both sides, so a failure here cannot be told from known finding F5: reported, not a VIOLATION
        rc, out = sh([self.stress, 'S', str(secs), str(ctx['seed'])], timeout=secs * 20 + 120, env=env)
        cov['stress_steal'] = out.strip()[-400:]
        if rc != 0 or 'STRESS-OK' not in out:
            print('[C05] SUSPECT (class of known finding F5): stress run with work stealing failed: %s' % out.strip()[-400:])
        #    Y: confirmation run for F23 (a thread that has just yielded is stolen before its context is saved)
        rc, out = sh([self.stress, 'Y', str(secs), str(ctx['seed'])], timeout=secs * 20 + 120, env=env)
        cov['stress_F23'] = out.strip()[-400:]
        if 'F23-CONFIRMED' in out:
            print('[C05] F23 confirmed on the real library: %s' % out.strip().splitlines()[-1][:300])
        #    J: confirmation run for F24 (ThreadPoolBase::join ended early by an interrupt of the joining thread)
        rc, out = sh([self.stress, 'J', '1', str(ctx['seed'])], timeout=120, env=env)
        cov['stress_F24'] = out.strip()[-300:]
        if 'F24-CONFIRMED' in out:
            print('[C05] F24 confirmed on the real library: %s' % out.strip().splitlines()[-1][:300])
        self.extra_coverage = dict(getattr(self, 'extra_coverage', {}) or {}); self.extra_coverage.update(cov)
        return viol
