# C05 — thread life-cycle: model coq/C05, harnesses harness/C05 (+ engines harness/E2, harness/E3)
#   P-cases  E2 programs (create/yield/usleep/interrupt/join + nthreads/released) on one vCPU:
#            extracted C05_Model.coop_result == real photon trace, line by line
#   A-cases  E3 schedules on the REAL photon::asymmetric_spinLock: extracted C05_Asym.asym_e3 == step log
#   extra    hardware litmus for F5 (confirm only), multi-vCPU stress runs (search oracle)
import re, stat, itertools
from vlib import *

W = 1 << 64


def parse_prog(case):
    secs = case[1:].split('|')
    progs = []
    for sec in secs[1:]:
        t = sec.strip()
        ops = []
        if t and t != '-':
            for part in t.split(';'):
                f = part.split()
                if f: ops.append((f[0], [int(x) for x in f[1:]]))
        progs.append(ops)
    return progs


def parse_trace(out):
    m = re.match(r'^tr=(\S+) blocked=(\S+) end=(\d+)$', out)
    if not m: return None
    evs = []
    if m.group(1) != '-':
        for e in m.group(1).split(','):
            mm = re.match(r'^(\d+)\.(\d+):(-?\d+)/(-?\d+)@(\d+)$', e)
            if not mm: return None
            evs.append(tuple(int(x) for x in mm.groups()))
    bl = [] if m.group(2) == '-' else [tuple(int(x) for x in b.split('.')) for b in m.group(2).split(',')]
    return evs, bl, int(m.group(3))


def asym_occupancy(log):
    """replay the lock protocol on the step log: who is inside when (independent of the Coq model)"""
    inside = set(); won = set(); mx = 0
    for e in log:
        f = e.split('.')
        p = int(f[0]); kind = f[1]; addr = f[2]; vals = f[3:]
        if p == 0:
            if kind == 'ld' and addr == 'bg' and vals[0] == '0': inside.add(0)          # wait_while(background_locked) ends
            elif kind == 'st' and addr == 'fg' and vals[0] == '0': inside.discard(0)     # foreground_unlock
        else:
            if kind == 'xg' and addr == 'bg': (won.add(p) if vals[1] == '0' else won.discard(p))
            elif kind == 'ld' and addr == 'fg' and p in won:
                if vals[0] == '0': inside.add(p)                                         # re-check passed: return true
                won.discard(p)
            elif kind == 'st' and addr == 'bg' and vals[0] == '0': inside.discard(p); won.discard(p)
        mx = max(mx, len(inside))
        if len(inside) > 1: return 'participants %s are inside the lock together after step %r' % (sorted(inside), e)
    return None


class Check(DiffCheck):
    id = 'C05'
    # lockset engine (lib/lockset.py): die/standby/dequeue blocks happen under the locks the life-cycle model assumes
    lockset_rules = {12, 13, 14, 15, 16, 17}
    coq_dirs = ['Base', 'E3', 'C05']
    coq_targets = ['C05/C05_AsymProofs.vo', 'C05/C05_AsymTSO.vo', 'C05/C05_Proofs.vo', 'C05/C05_Proofs2.vo', 'C05/C05_Proofs3.vo', 'C05/C05_Proofs4.vo', 'C05/C05_Proofs5.vo', 'C05/C05_PoolProofs.vo']
    properties_v = 'C05/C05_Properties.v'
    extract_v = 'C05/C05_Extract.v'
    runner_ml = 'ocaml/C05_run.ml'
    model_module = 'C05_model'
    case_timeout = 900
    rule = ('P: E2 programs of 2-7 threads x 1-8 ops (create joinable/not, yield, usleep, interrupt, join, nthreads, released) on one vCPU '
            'under the virtual clock; non-trivial = a thread is created while another runs/sleeps and is joined or dies non-joinable. '
            'A: E3 schedules for asymmetric_spinLock, exhaustive prefixes for 2 participants, random for 3-4; non-trivial = owner and a '
            'stealer both attempt the lock')
    assumptions = ['sequential consistency for the interleaving theorems (asymmetric lock additionally under x86-TSO: refuted, F5)',
                   'context-switch assembly and byte-level stacks outside the model; stack release observed through a recording allocator',
                   'the set of vCPUs is fixed during a run; main/idler threads are never migrated or joined']
    partial_note = ('PARTIAL by design: cross-vCPU transitions (migrate, steal, cross-vCPU wake) are proved for every interleaving in the model '
                    'but tied to the code only by single-vCPU E2 agreement of the same step function plus a non-deterministic stress run; '
                    'engine E4 does not exist')

    # ---------------------------------------------------------------- build
    def build_impl(self):
        import concurrent.futures as cf
        jobs = {
            'e2': (['harness/E2/e2_main.cpp', 'harness/E2/ops_core.cpp', 'harness/C05/ops_c05.cpp'], '-I%s' % os.path.join(VERIF, 'harness', 'E2'), 'C05_e2'),
            'a3': (['harness/C05/asym_e3.cpp'], '-I%s' % REPO, 'C05_asym'),
            'litmus': (['harness/C05/litmus.cpp'], '-O2 -I%s' % REPO, 'C05_litmus'),
            'stress': (['harness/C05/stress.cpp'], '-O2', 'C05_stress'),
        }
        photon_lib()                                    # build the hook-enabled library once, before the parallel compiles
        res = {}
        with cf.ThreadPoolExecutor(max_workers=4) as ex:
            futs = {k: ex.submit(cxx_build, self.id, src, extra, False, True, os.path.join(BUILD, 'bin', out)) for k, (src, extra, out) in jobs.items()}
            for k, f in futs.items():
                exe, log = f.result()
                if not exe: raise RuntimeError('%s: %s' % (k, log[-3000:]))
                res[k] = exe
        e2, a3 = res['e2'], res['a3']
        self.litmus, self.stress = res['litmus'], res['stress']
        # dispatcher: P lines -> E2 harness, A lines -> E3 harness; one output line per input line, in order
        wrap = os.path.join(BUILD, 'bin', 'C05_impl')
        with open(wrap, 'w') as f:
            f.write('''#!/usr/bin/env python3
import sys, subprocess, os
lines = [l.rstrip('\\n') for l in open(sys.argv[1]) if l.strip() and not l.startswith('#')]
i = 0
while i < len(lines):
    tag = lines[i][0]
    j = i
    while j < len(lines) and lines[j][0] == tag: j += 1
    exe = %r if tag == 'P' else %r
    fn = sys.argv[1] + '.%%d.part' %% i
    open(fn, 'w').write('\\n'.join(lines[i:j]) + '\\n')
    p = subprocess.run([exe, fn], stdout=subprocess.PIPE, stderr=subprocess.PIPE, universal_newlines=True, errors='replace')
    out = p.stdout.split('\\n')[:-1] if p.stdout.endswith('\\n') else p.stdout.split('\\n')
    for k in range(j - i):
        # a HANG of the E2 child is a real-time event (20 s without output on a loaded machine): such a case is run again,
        # alone and with a 10x limit, before it is believed
        if tag == 'P' and k < len(out) and 'HANG' in out[k][:40]:
            one = sys.argv[1] + '.%%d.retry' %% (i + k)
            open(one, 'w').write(lines[i + k] + '\\n')
            env2 = dict(os.environ); env2['E2_TIMEOUT_MS'] = '200000'
            for attempt in range(2):
                q = subprocess.run([exe, one], stdout=subprocess.PIPE, stderr=subprocess.PIPE, universal_newlines=True, errors='replace', env=env2)
                o2 = q.stdout.strip().split('\\n')[0] if q.stdout.strip() else out[k]
                if 'HANG' not in o2[:40]:
                    out[k] = o2; break
        # the E3 controller has a 20 s real-time watchdog per step: if the harness died, the remaining schedules are
        # run again one by one (twice at most) before a CRASH is reported
        if tag == 'A' and k >= len(out):
            one = sys.argv[1] + '.%%d.retry' %% (i + k)
            open(one, 'w').write(lines[i + k] + '\\n')
            o2 = ''
            for attempt in range(2):
                q = subprocess.run([exe, one], stdout=subprocess.PIPE, stderr=subprocess.PIPE, universal_newlines=True, errors='replace')
                o2 = q.stdout.strip().split('\\n')[0] if q.stdout.strip() else ''
                if o2: break
            print(o2 if o2 else 'CRASH(%%s): %%s' %% (q.returncode, (q.stderr.strip().splitlines() or [''])[-1][:200]))
        elif k < len(out): print(out[k])
        elif k == len(out): print('CRASH(%%s): %%s' %% (p.returncode, (p.stderr.strip().splitlines() or [''])[-1][:200]))
        else: print('CRASH(skipped)')
    sys.stdout.flush()
    i = j
''' % (e2, a3))
        os.chmod(wrap, os.stat(wrap).st_mode | stat.S_IXUSR | stat.S_IXGRP | stat.S_IXOTH)
        return wrap

    def impl_env(self):
        e = DiffCheck.impl_env(self)
        e['E2_TIMEOUT_MS'] = '20000'
        return e

    # ---------------------------------------------------------------- cases
    def _rand_prog(self, rng):
        n = rng.randrange(2, 8)                      # threads incl. main
        used_d = set()
        def dur():
            for _ in range(50):
                d = rng.choice([1, 2, 3, 5, 7]) * (10 ** rng.randrange(0, 4)) + rng.randrange(0, 3)
                if d not in used_d:
                    used_d.add(d); return d
            return rng.randrange(1, 100000)
        joinable = [False] + [rng.random() < 0.6 for _ in range(n - 1)]
        progs = [[] for _ in range(n)]
        # who creates whom: a random tree rooted at main
        parent = [None] + [rng.randrange(0, k) for k in range(1, n)]
        pending = {k: [c for c in range(1, n) if parent[c] == k] for k in range(n)}
        for k in range(n):
            nops = rng.randrange(0, 7) if k else rng.randrange(2, 9)
            body = []
            for _ in range(nops):
                r = rng.random()
                if r < 0.22: body.append('usleep %d' % dur())
                elif r < 0.40: body.append('yield')
                elif r < 0.50: body.append('interrupt %d %d' % (rng.randrange(0, n), rng.choice([4, 7, 11, 125])))
                elif r < 0.66: body.append('join %d' % rng.randrange(1, n))
                elif r < 0.80: body.append('nthreads')
                elif r < 0.92: body.append('released %d' % rng.randrange(1, n))
                else: body.append('nop')
            # interleave the creates of my children at random positions (mostly early)
            for c in pending[k]:
                pos = rng.randrange(0, len(body) + 1) if rng.random() < 0.5 else 0
                body.insert(pos, 'create %d %d' % (c, 1 if joinable[c] else 0))
            progs[k] = body
        # main usually joins its joinable children and then looks at the counters at quiescence
        if rng.random() < 0.7:
            for c in range(1, n):
                if joinable[c] and rng.random() < 0.8: progs[0].append('join %d' % c)
            if rng.random() < 0.7:
                progs[0].append('usleep %d' % (10 ** 7 + rng.randrange(1000)))
                progs[0].append('nthreads')
                for c in range(1, n):
                    if rng.random() < 0.5: progs[0].append('released %d' % c)
        return 'P - | ' + ' | '.join(';'.join(b) if b else '-' for b in progs)

    def gen_cases(self, tier, rng):
        cs = []
        cp = os.path.join(VERIF, 'replay', 'corpus', 'C05.cases')
        if os.path.exists(cp):
            cs += [l.strip() for l in open(cp) if l.strip() and not l.startswith('#')]
        # --- A: asymmetric lock schedules.  2 participants, 1 round: every schedule prefix of length <= L
        L = 8 if tier == 'quick' else 12
        for ln in range(0, L + 1):
            for sch in itertools.product('01', repeat=ln):
                cs.append('A 2 1 200 ' + ''.join(sch))
        for ln in range(0, 6 if tier == 'quick' else 8):
            for sch in itertools.product('012', repeat=ln):
                cs.append('A 3 1 300 ' + ''.join(sch))
        for _ in range(400 if tier == 'quick' else 6000):
            n = rng.randrange(2, 5); rounds = rng.randrange(1, 4)
            ln = rng.randrange(0, 40)
            # bursts: a participant runs a few steps in a row (windows a few instructions wide)
            s = ''
            while len(s) < ln:
                s += str(rng.randrange(n)) * rng.randrange(1, 5)
            cs.append('A %d %d %d %s' % (n, rounds, 2000, s[:ln]))
        # --- P: E2 programs
        hand = [
            'P - | create 1 1;join 1;released 1;nthreads | usleep 300',
            'P - | create 1 0;released 1;yield;released 1;nthreads | nop',
            'P - | create 1 1;create 2 1;join 2;join 1;nthreads;released 1;released 2 | usleep 50;yield | join 1;nop',
            'P - | create 1 1;usleep 500;released 1;join 1;released 1;nthreads | nop',
            'P - | create 1 1;create 2 0;usleep 10;interrupt 1 7;join 1 | usleep 1000;yield | join 1;nop',
            'P - | create 1 1;create 2 0;nthreads;yield;nthreads;usleep 100000;nthreads | create 3 1;join 3 | usleep 7;nthreads | yield;usleep 3',
            'P - | create 1 1;yield;interrupt 1 4;join 1 | create 2 1;join 2;nthreads | usleep -1',
            'P - | create 1 1;join 1;join 1;released 1 | -',
            'P - | create 1 0;join 1;yield;released 1 | -',
        ]
        cs += hand
        nprog = 500 if tier == 'quick' else 12000
        cand = [self._rand_prog(rng) for _ in range(nprog)]
        cs += self._drop_ties(cand)
        return list(dict.fromkeys(cs))

    def _drop_ties(self, cand):
        """the model keeps the sleep queue sorted; equal finite deadlines (order decided by the C04 heap) are outside
        its domain: such programs are recognised by the model itself (TIE) and not used"""
        exe = os.path.join(BUILD, 'bin', 'C05_model')
        if not os.path.exists(exe): return cand
        out = run_cases(exe, cand, os.path.join(BUILD, 'run', 'C05'), 'tiefilter', timeout=600)
        return [c for c, o in zip(cand, out) if o is not None and not o.startswith('TIE') and 'TIE ' not in o[:12]]

    def nontrivial(self, case):
        if case[0] == 'A':
            f = case.split(' ')
            s = f[4] if len(f) > 4 else ''
            return int(f[2]) > 0 and ('0' in s or len(s) < 4) and any(c != '0' for c in s + '1')
        progs = parse_prog(case)
        created = any(o[0] == 'create' for p in progs for o in p)
        others = any(o[0] in ('usleep', 'yield') for p in progs for o in p)
        fate = any(o[0] == 'join' for p in progs for o in p) or any(o[0] == 'create' and (len(o[1]) < 2 or o[1][1] == 0) for p in progs for o in p)
        return created and others and fate

    def category(self, case):
        if case[0] == 'A': return 'A:n=%s' % case.split(' ')[1]
        progs = parse_prog(case)
        ops = [o[0] for p in progs for o in p]
        return 'P:threads=%d%s%s' % (len(progs), ':join' if 'join' in ops else '', ':intr' if 'interrupt' in ops else '')

    def canon(self, line):
        return line.strip()

    # ---------------------------------------------------------------- the property on the implementation's output
    def oracle(self, case, out):
        if case[0] == 'A': return self._oracle_asym(case, out)
        return self._oracle_prog(case, out)

    def _oracle_asym(self, case, out):
        if out.startswith('CRASH') or 'E3ERROR' in out: return 'E3 harness failed: ' + out[:300]
        m = re.match(r'^livelock=(\d) steps=(\d+) digest=(\d+) log=(.*)$', out)
        if not m: return 'unparsable output: %r' % out[:200]
        log = m.group(4).split(' ') if m.group(4) else []
        return asym_occupancy(log)

    def _oracle_prog(self, case, out):
        if out.startswith(('CRASH', 'HANG', 'NONDET', 'NOOUTPUT', 'IDLE-LIMIT', 'TRACE-LIMIT', 'INITFAIL')):
            return 'implementation run failed: ' + out[:300]
        if out.startswith('BADCASE'): return None
        pt = parse_trace(out)
        if pt is None: return 'unparsable output: %r' % out[:200]
        evs, blocked, end = pt
        progs = parse_prog(case)
        n = len(progs)
        nextpc = [0] * n
        created = [False] * n; created[0] = True
        joinable = [False] * n
        joined = [False] * n          # join k returned
        claimed = [False] * n
        maybe_dead_empty = set()      # created threads with an empty program: they die when first scheduled
        def finished(k): return nextpc[k] >= len(progs[k])
        for (t, pc, ret, err, now) in evs:
            if not (0 <= t < n): return 'trace names thread %d that is not in the program' % t
            if not created[t]: return 'thread %d executed an op before any create of it returned' % t
            if pc != nextpc[t]:
                return 'thread %d executed op %d, expected op %d: its entry function did not run exactly once in order' % (t, pc, nextpc[t])
            if pc >= len(progs[t]): return 'thread %d executed op %d beyond its program' % (t, pc)
            name, args = progs[t][pc]
            nextpc[t] += 1
            if name == 'create':
                k = args[0]
                if ret == 0:
                    if not (1 <= k < n) or created[k]: return 'create %d returned 0 but the thread exists already / is out of range' % k
                    created[k] = True; joinable[k] = len(args) > 1 and args[1] != 0
                    if not progs[k]: maybe_dead_empty.add(k)
            elif name == 'join':
                k = args[0]
                if ret != -2:
                    if not (0 <= k < n) or not created[k] or not joinable[k]: return 'join %d returned %d for a thread that is not joinable' % (k, ret)
                    if joined[k]: return 'thread_join(%d) returned twice' % k
                    if not finished(k): return 'thread_join(%d) returned before the entry function of %d returned (op %d of %d pending)' % (k, k, nextpc[k], len(progs[k]))
                    if ret != 1000 + k: return 'thread_join(%d) returned %d, the entry function returned %d' % (k, ret, 1000 + k)
                    joined[k] = True
            elif name == 'released':
                k = args[0]
                if ret == -2: continue
                if ret not in (0, 1): return 'stack of thread %d released %d times' % (k, ret)
                if ret == 1:
                    if not finished(k): return 'stack of thread %d released before its entry function returned' % k
                    if joinable[k] and not joined[k]: return 'stack of joinable thread %d released before thread_join returned' % k
                else:
                    if joinable[k] and joined[k]: return 'stack of thread %d still not released after thread_join returned' % k
                    if (not joinable[k]) and finished(k) and progs[k] and t != k:
                        return 'stack of non-joinable thread %d not released although it finished' % k
            elif name == 'nthreads':
                live_lo = live_hi = 2
                for k in range(1, n):
                    if not created[k]: continue
                    if k == t: live_lo += 1; live_hi += 1             # the caller itself is running
                    elif k in maybe_dead_empty: live_hi += 1          # empty program: dead once it was scheduled
                    elif not finished(k): live_lo += 1; live_hi += 1
                if not (live_lo <= ret <= live_hi):
                    return 'nthreads = %d, but main + idler + %d..%d live created threads exist' % (ret, live_lo - 2, live_hi - 2)
        # a thread that started must have run to completion unless it is reported blocked
        bl = dict(blocked)
        for k in range(n):
            if created[k] and not finished(k) and k not in bl:
                return 'thread %d neither finished nor blocked at the end of the run (lost)' % k
            if k in bl and bl[k] != nextpc[k]: return 'blocked pc of thread %d inconsistent with its trace' % k
        return None

    def neighbours(self, case, rng):
        if case[0] != 'P': return []
        progs = parse_prog(case)
        out = []
        for k in range(len(progs)):
            for i in range(len(progs[k])):
                q = [list(p) for p in progs]
                del q[k][i]
                out.append('P - | ' + ' | '.join(';'.join('%s %s' % (o, ' '.join(map(str, a))) if a else o for o, a in p) if p else '-' for p in q))
        return out[:200]

    # ---------------------------------------------------------------- extra engines
    def extra(self, ctx):
        viol = []
        cov = {}
        env = self.impl_env()
        # 1. hardware litmus for F5 on the real class: confirms the known finding, never required to fire
        ms = 3000 if ctx['tier'] == 'quick' else 10000
        rc, out = sh([self.litmus, str(ms), '8', '16'], timeout=ms / 1000 + 60, env=env)
        m = re.search(r'overlaps=(\d+)', out)
        cov['litmus_F5'] = dict(cmd='C05_litmus %d 8 16' % ms, output=out.strip()[:300],
                                confirms_known_finding=bool(m and int(m.group(1)) > 0))
        if m and int(m.group(1)) > 0:
            print('[C05] litmus on the real asymmetric_spinLock: %s (confirms known finding F5)' % out.strip())
        # 2. multi-vCPU stress runs (search oracle; real time, so only exactly-once / one-at-a-time / counts-restored
        #    are asserted, with generous limits)
        secs = 3 if ctx['tier'] == 'quick' else 15
        #    M: migration + cross-vCPU interrupt/join, work stealing OFF: the run-queue lock has no background side
        #       (F5 cannot fire) and no READY thread is ever taken by another vCPU (F23 cannot fire): must be clean
        rc, out = sh([self.stress, 'M', str(secs), str(ctx['seed'])], timeout=secs * 20 + 120, env=env)
        if rc == 124 and 'STRESS-FAIL' not in out:          # only the outer real-time limit fired (loaded machine): once more, 5x limit
            rc, out = sh([self.stress, 'M', str(secs), str(ctx['seed'])], timeout=(secs * 20 + 120) * 5, env=env)
        cov['stress_migrate'] = out.strip()[-400:]
        if rc != 0 or 'STRESS-OK' not in out:
            viol.append(dict(kind='oracle', message='multi-vCPU stress (migrate/interrupt/join, stealing off) failed: ' + out.strip()[-600:],
                             case='stress M %d %d' % (secs, ctx['seed'])))
        #    S: work stealing ON, stealable threads never yield (the F23 window stays closed).  The asymmetric lock is
        #       used from both sides, so a failure here cannot be told from known finding F5: reported, not a VIOLATION
        rc, out = sh([self.stress, 'S', str(secs), str(ctx['seed'])], timeout=secs * 20 + 120, env=env)
        cov['stress_steal'] = out.strip()[-400:]
        if rc != 0 or 'STRESS-OK' not in out:
            print('[C05] SUSPECT (class of known finding F5): stress run with work stealing failed: %s' % out.strip()[-400:])
        #    Y: confirmation run for F23 (a thread that has just yielded is stolen before its context is saved)
        rc, out = sh([self.stress, 'Y', str(secs), str(ctx['seed'])], timeout=secs * 20 + 120, env=env)
        cov['stress_F23'] = out.strip()[-400:]
        if 'F23-CONFIRMED' in out:
            print('[C05] F23 confirmed on the real library: %s' % out.strip().splitlines()[-1][:300])
        #    J: confirmation run for F24 (ThreadPoolBase::join ended early by an interrupt of the joining thread)
        rc, out = sh([self.stress, 'J', '1', str(ctx['seed'])], timeout=120, env=env)
        cov['stress_F24'] = out.strip()[-300:]
        if 'F24-CONFIRMED' in out:
            print('[C05] F24 confirmed on the real library: %s' % out.strip().splitlines()[-1][:300])
        self.extra_coverage = cov
        return viol
