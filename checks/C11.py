# C11 — RPC out-of-order engine: model coq/C11, harness harness/C11 (real stub, scripted stream,
# E2 virtual clock), engines E2 (hooks H-clock/H-idle) + E5 (scripted IStream)
import re, itertools, struct
from vlib import *

MAGIC = 0x87de5d02e6ab95c7
MAXU = (1 << 64) - 1


def hdr_bytes(tag, size):
    return struct.pack('<QIIQQQ', MAGIC, 0, size & 0xffffffff, 0, tag & MAXU, 0)

def wire_bytes(wire):
    out = b''
    if wire.strip() == '-': return out
    for it in wire.split(';'):
        f = [x.strip() for x in it.strip().split(',')]
        if f[0] == 'H': out += hdr_bytes(int(f[1]), int(f[2]))
        elif f[0] == 'B': out += bytes((int(f[2]) + j) % 251 for j in range(int(f[1])))
        elif f[0] == 'X': out += bytes.fromhex(f[1])
    return out

def parse_case(case):
    h, cs, w, d = case.split('|')
    calls = [tuple(int(x) for x in c.strip().split(',')) for c in cs.split(';')]
    deliv = []
    if d.strip() != '-':
        for it in d.split(';'):
            t, n = [x.strip() for x in it.strip().split(',')]
            deliv.append((int(t), n if n == 'E' else int(n)))
    return h.strip(), calls, w.strip(), deliv

EV_RE = re.compile(r'^([WHCBXEw])(\d+)(?::(.*))?@(\d+)$')

def parse_out(line):
    toks = line.split(' ')
    evs, tail = [], {}
    for t in toks:
        if '=' in t and t[0] in 'Qbe' and not EV_RE.match(t):
            k, v = t.split('=', 1); tail[k] = v
            continue
        if t == '-': continue
        m = EV_RE.match(t)
        if not m: raise ValueError('bad token %r' % t)
        evs.append((m.group(1), int(m.group(2)), (m.group(3) or '').split(':'), int(m.group(4))))
    return evs, tail


class Check(DiffCheck):
    id = 'C11'
    coq_dirs = ['Base', 'C04', 'C11']
    coq_targets = ['C11/C11_ProofsSafety.vo', 'C11/C11_ProofsResp.vo', 'C11/C11_ProofsIso.vo', 'C11/C11_Proofs.vo']
    properties_v = 'C11/C11_Properties.v'
    extract_v = 'C11/C11_Extract.v'
    runner_ml = 'ocaml/C11_run.ml'
    model_module = 'C11_model'
    case_timeout = 3000
    rule = ('cases: corpus (F12 witness first); every permutation of the responses for k<=4 callers x a delay placed '
            'before the header / between header and body / after the body of every response x caller deadlines '
            'before/at/after that delay; end of stream at EVERY byte k of a two-response wire; an unknown / duplicate tag at every '
            'position among the responses of 2 and 3 callers; PRNG scripts: fragmentation at arbitrary bytes (inside headers), '
            'staggered starts, EOF at byte k, unknown / duplicate tags, garbage headers, zero-length bodies. non-trivial = >= 2 callers and a '
            'response addressed to a caller other than the first reader')
    assumptions = ['one vCPU (rpc.h 69-70)', 'the scripted stream never blocks in writev (class guard of known finding F34, whose witness is replayed on the implementation on every run)', 'm_tag does not wrap (2^64 calls)',
                   'no engine shutdown / set_stream during calls']
    trusted_base = ['E2 hooks H-clock/H-idle (virtual clock) in thread.cpp', 'harness/C11 scripted IStream and its owner registry',
                    'C04 sleep-queue heap model (order of equal deadlines)']

    def fixed_variant(self):
        for f in load_known_findings('C11'):
            if f.get('id') == 'F12' and f.get('status') == 'known':
                return 0
        return 1

    def build_impl(self):
        libdir = photon_lib()
        rc, out = sh('nm -D %s/libphoton.so | grep -c photon_verif_clock' % libdir)
        self.hooks = (rc == 0 and out.strip() not in ('', '0'))
        exe, log = cxx_build(self.id, ['harness/C11/harness.cpp'], extra='-Wl,-z,now', libphoton=True)
        if not exe: raise RuntimeError(log)
        return exe

    # ------------------------------------------------------------------ generation
    def _resp(self, tag, size, seed):
        return ['H,%d,%d' % (tag, size)] + (['B,%d,%d' % (size, seed)] if size else [])

    def _case(self, fix, calls, items, deliv):
        return 'K %d | %s | %s | %s' % (fix, ' ; '.join('%d,%d,%d,%d' % c for c in calls),
                                         ' ; '.join(items) if items else '-',
                                         ' ; '.join('%d,%s' % d for d in deliv) if deliv else '-')

    def gen_cases(self, tier, rng):
        fix = self.fixed_variant()
        if not getattr(self, 'hooks', True):
            return []
        cs = []
        cp = os.path.join(VERIF, 'replay', 'corpus', 'C11.cases')
        if os.path.exists(cp):
            for l in open(cp):
                l = l.strip()
                if l and not l.startswith('#'):
                    cs.append(re.sub(r'^K \d', 'K %d' % fix, l))
        # exhaustive: all permutations, k <= 4, one delay, deadlines around it
        D = 1000
        for k in range(1, 5):
            sizes = [3 + 2 * i for i in range(k)]
            for perm in itertools.permutations(range(k)):
                for di in range(k):                      # which response (in wire order) is delayed
                    for place in range(3):               # before header / between header and body / after body
                        for dlmode in range(4 if k > 1 else 2):
                            if tier == 'quick' and k == 4 and (di + place + dlmode + sum(i * p for i, p in enumerate(perm))) % 3:
                                continue
                            items, deliv, t = [], [], 10
                            victim = perm[di]
                            for j, c in enumerate(perm):
                                items += self._resp(c + 1, sizes[c], 10 * c + 1)
                                if j == di and place == 0: t += D
                                deliv.append((t, 40))
                                if j == di and place == 1: t += D
                                deliv.append((t, sizes[c]))
                                if j == di and place == 2: t += D
                                t += 10
                            # deadlines: none / victim's inside the delay / everybody's inside / victim just after
                            calls = []
                            for c in range(k):
                                tm = -1
                                if dlmode == 1 and c == victim: tm = 10 + 10 * di + D // 2
                                if dlmode == 2: tm = 10 + 10 * di + D // 2 + c
                                if dlmode == 3 and c == victim: tm = 10 + 10 * di + D
                                calls.append((0, tm, 4 + c, [-1, 16, 2, 64][c % 4]))
                            cs.append(self._case(fix, calls, items, deliv))
        # end of stream at every byte k of a two-response wire (delivered in one piece / byte by byte around k)
        calls2 = [(0, -1, 4, -1), (0, -1, 5, 16)]
        items2 = self._resp(2, 5, 11) + self._resp(1, 3, 1)
        total2 = 40 + 5 + 40 + 3
        for kbyte in range(total2 + 1):
            cs.append(self._case(fix, calls2, items2, [(10, kbyte), (20, 'E')] if kbyte else [(20, 'E')]))
            if kbyte % 3 == 0 or tier != 'quick':
                cs.append(self._case(fix, [(0, 500, 4, -1), (0, -1, 5, 16)], items2,
                                     ([(10, max(kbyte - 1, 0))] if kbyte > 1 else []) + ([(30, 1)] if kbyte else []) + [(40, 'E')]))
        # an unknown / duplicate tag at every position among the responses of k = 2, 3 callers
        for k in (2, 3):
            callsk = [(0, -1, 4 + c, [-1, 16, 2][c]) for c in range(k)]
            for perm in itertools.permutations(range(k)):
                base = [self._resp(c + 1, 3 + 2 * c, 10 * c + 1) for c in perm]
                for pos in range(k + 1):
                    for extra in (self._resp(99, 4, 200), self._resp(99, 0, 0), self._resp(perm[0] + 1, 3 + 2 * perm[0], 90)):
                        its = [x for r in (base[:pos] + [extra] + base[pos:]) for x in r]
                        tot = len(wire_bytes(' ; '.join(its)))
                        cs.append(self._case(fix, callsk, its, [(10, tot)]))
                        cs.append(self._case(fix, callsk, its, [(10 + 5 * j, 1 if j % 2 else 39) for j in range(tot // 20 + 2)] + [(900, tot)]))
        # random scripts
        n = 700 if tier == 'quick' else 12000
        for _ in range(n):
            cs.append(self._random_case(fix, rng))
        return list(dict.fromkeys(cs))

    def _random_case(self, fix, rng):
        k = rng.choice([1, 2, 2, 3, 3, 3, 4, 4, 5])
        horizon = rng.choice([200, 1000, 5000])
        stagger = rng.random() < 0.35
        starts = [rng.randrange(0, horizon // 2) if stagger and rng.random() < 0.6 else 0 for _ in range(k)]
        order = sorted(range(k), key=lambda i: (starts[i], i))
        tag_of = {c: r + 1 for r, c in enumerate(order)}
        sizes = [rng.choice([0, 1, 3, 5, 8, 17, 40, 41]) for _ in range(k)]
        perm = list(range(k)); rng.shuffle(perm)
        items = []
        fault = rng.random()
        for c in perm:
            r = rng.random()
            if fault < 0.45 or r > 0.25:
                items += self._resp(tag_of[c], sizes[c], 7 * c + 3)
            elif r < 0.08:
                items += self._resp(rng.choice([99, 0, k + 1, MAXU]), rng.choice([0, 4, 40]), 200)       # unknown tag
                items += self._resp(tag_of[c], sizes[c], 7 * c + 3)
            elif r < 0.14:
                items += self._resp(tag_of[c], sizes[c], 7 * c + 3) + self._resp(tag_of[c], sizes[c], 90)   # duplicate
            elif r < 0.18:
                items.append('X,' + bytes(rng.randrange(256) for _ in range(rng.choice([3, 40, 41]))).hex())  # garbage
            elif r < 0.22:
                pass                                                                                     # response missing
            else:
                items += self._resp(tag_of[c], sizes[c], 7 * c + 3)
        total = len(wire_bytes(' ; '.join(items))) if items else 0
        # fragmentation + times
        deliv, pos, t = [], 0, rng.randrange(0, horizon // 4 + 1)
        mode = rng.randrange(4)
        while pos < total:
            if mode == 0: n = total - pos
            elif mode == 1: n = rng.choice([40, 40, rng.randrange(1, 60)])
            elif mode == 2: n = rng.randrange(1, 12)
            else: n = rng.choice([1, 7, 33, 39, 40, 41, 47, 80])
            n = min(n, total - pos)
            deliv.append((t, n)); pos += n
            if rng.random() < 0.5: t += rng.choice([0, 1, 5, 50, horizon // 3])
            if fault > 0.8 and rng.random() < 0.15:
                deliv.append((t, 'E')); break
        if fault > 0.9 and (not deliv or deliv[-1][1] != 'E') and rng.random() < 0.5:
            deliv.append((t + rng.randrange(0, 50), 'E'))
        times = [d[0] for d in deliv] or [10]
        calls = []
        for c in range(k):
            r = rng.random()
            if r < 0.45: tm = -1
            elif r < 0.50: tm = 0
            else:
                base = rng.choice(times)
                tm = max(1, base - starts[c] + rng.choice([-1, 0, 0, 1, 3, 25, -20]))
            calls.append((starts[c], tm, rng.randrange(0, 20), rng.choice([-1, -1, 0, 4, 17, 64])))
        return self._case(fix, calls, items, deliv)

    # ------------------------------------------------------------------ classification
    def nontrivial(self, case):
        _, calls, w, _ = parse_case(case)
        return len(calls) >= 2 and 'H,' in w

    def category(self, case):
        _, calls, w, deliv = parse_case(case)
        tags = [int(x.split(',')[1]) for x in w.split(';') if x.strip().startswith('H,')]
        fl = []
        if any(c[1] not in (-1,) for c in calls): fl.append('deadline')
        if any(d[1] == 'E' for d in deliv): fl.append('eof')
        if any(t > len(calls) or t == 0 for t in tags) or 'X,' in w: fl.append('badtag')
        if len(set(tags)) < len(tags): fl.append('dup')
        if any(c[0] for c in calls): fl.append('stagger')
        return 'k%d:%s' % (len(calls), '+'.join(fl) or 'benign')

    def known_class(self, case):
        if self.fixed_variant() == 0:
            _, calls, _, _ = parse_case(case)
            if len(calls) >= 2 and any(c[1] != -1 for c in calls): return 'F12'
        return None

    # the property itself on the implementation's trace (independent of the Coq model)
    def oracle(self, case, out):
        if out.startswith(('CRASH', 'HANG', 'NONDET', 'NOOUTPUT', 'INITFAIL', 'BADCASE', 'IDLE-LIMIT', 'TRACE-LIMIT', 'NOHOOKS')):
            return 'implementation run failed: ' + out[:300]
        try:
            evs, tail = parse_out(out)
        except Exception as e:
            return 'unparsable output: %r' % out[:200]
        _, calls, w, deliv = parse_case(case)
        wire = wire_bytes(w)
        tag_of, returned = {}, {}
        for (kind, who, f, t) in evs:
            if kind == 'W': tag_of[who] = int(f[0])
            if kind == 'C':
                owner, dead = int(f[0]), int(f[1])
                if dead or returned.get(owner): return 'ACCESS AFTER RETURN: reader %d wrote %s response bytes into a buffer of call %d at t=%d, after that call had returned' % (who, f[2], owner, t)
            if kind == 'B':
                owner, dead = int(f[0]), int(f[1])
                if dead or (owner >= 0 and returned.get(owner)): return 'ACCESS AFTER RETURN: reader %d was collecting the body for call %d (readv returned at t=%d) after that call had returned' % (who, owner, t)
            if kind == 'E':
                if who in returned: return 'call %d returned twice' % who
                ret = int(f[0].split('/')[0])
                returned[who] = ret
                if ret >= 0:
                    payload = b'' if f[1] == '-' else bytes.fromhex(f[1])
                    if len(payload) != ret: return 'call %d returned %d but its response holds %d bytes' % (who, ret, len(payload))
                    if who not in tag_of: return 'call %d succeeded without sending a request' % who
                    h = hdr_bytes(tag_of[who], ret)
                    ok, p = False, wire.find(h)
                    while p >= 0:
                        if wire[p + 40:p + 40 + ret] == payload and len(wire) >= p + 40 + ret: ok = True; break
                        p = wire.find(h, p + 1)
                    if not ok: return 'WRONG RESPONSE: call %d (tag %d) returned %d bytes %s which do not follow a header carrying its tag on the wire' % (who, tag_of[who], ret, f[1])
        if tail.get('blocked') == '-' and tail.get('Q') != '0':
            return 'all calls returned but ooo_get_queue_count() = %s' % tail.get('Q')
        # benign script: all calls issued at once (t = 0) and nothing delivered before t = 1, no deadline, every call
        # answered exactly once, everything delivered -> every call succeeds
        tags = [int(x.split(',')[1]) for x in w.split(';') if x.strip().startswith('H,')]
        benign = all(c[1] == -1 and c[0] == 0 for c in calls) and 'X,' not in w and sorted(tags) == list(range(1, len(calls) + 1)) \
            and not any(d[1] == 'E' for d in deliv) and sum(d[1] for d in deliv) >= len(wire) \
            and all(d[0] >= 1 for d in deliv)        # nothing arrives before every call has been issued (t = 0)
        if benign:
            for i in range(len(calls)):
                if returned.get(i, -1) < 0: return 'benign script (all responses delivered, no deadline) but call %d did not succeed (%s)' % (i, returned.get(i, 'blocked'))
        return None

    def neighbours(self, case, rng):
        h, calls, w, deliv = parse_case(case)
        out = []
        for i, c in enumerate(calls):
            if c[1] not in (-1, 0):
                for d in (-2, -1, 1, 2, 40):
                    cc = list(calls); cc[i] = (c[0], max(1, c[1] + d), c[2], c[3])
                    out.append(self._case(int(h[2]), cc, [x.strip() for x in w.split(';')] if w != '-' else [], deliv))
        return out

    F34_WITNESS = 'K 1 | 0,-1,8,16 ; 100,-1,8,16,5000 | H,2,16 ; B,16,5 ; H,1,4 ; B,4,9 | 1000,40 ; 9000,16 ; 9500,44'

    def _replay_f34(self, ctx):
        """Known finding F34 (not in the model: it needs a writev that blocks): a response that arrives while its
        request is still blocked in writev.  Replayed on the implementation only.  Reproduces + listed as known ->
        nothing to do (DiffCheck prints the KNOWN-FINDING line); reproduces + not listed -> VIOLATION; clean -> note."""
        out = run_cases(ctx['impl_exe'], [self.F34_WITNESS], ctx['tmp'], 'f34', nshards=1, timeout=self.case_timeout, env=self.impl_env())[0] or ''
        listed = any(f.get('id') == 'F34' and f.get('status') == 'known' for f in load_known_findings('C11'))
        msg = self.oracle(self.F34_WITNESS, self.canon(out))
        cov = getattr(self, 'extra_coverage', None) or {}
        cov['F34_witness'] = dict(case=self.F34_WITNESS, impl=out[:400], reproduces=bool(msg), listed_known=listed)
        self.extra_coverage = cov
        if msg and not listed:
            return [dict(kind='oracle', message='F34 witness (response during a blocked writev): ' + msg, case=self.F34_WITNESS, model_out='(not modelled: blocking writev)', impl_out=out)]
        if not msg:
            print('[C11] NOTE: the F34 witness no longer shows an access after return on this tree: %s' % out[:300])
        return []

    def extra(self, ctx):
        if getattr(self, 'hooks', True) and ctx.get('impl_exe'):
            v = self._replay_f34(ctx)
            if v: return v
        if not getattr(self, 'hooks', True):
            print('[C11] NOTE: libphoton built from %s has no PHOTON_VERIF clock/idle hooks (repo_patches/E2-hooks.diff not applied): '
                  'the model-vs-implementation tie was SKIPPED; proofs and extraction were checked.' % REPO)
            self.extra_coverage = dict(tie_skipped='E2 hooks missing in the tree under test')
        return []


if __name__ == '__main__':
    sys.exit(Check().main(sys.argv[1:]))
