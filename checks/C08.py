# C08 — WorkPool: every task runs exactly once; call() returns after its task finished.
# Engines: E2 (real WorkPool::main_loop on the current vCPU through join_current_vcpu_into_workpool(), all three
# thread modes, under the virtual clock; model coq/C08/C08_Coop.v over coq/Sched) whose runs are ALSO replayed,
# label by label, through the all-interleavings model coq/C08/C08_Model.v (the one the theorems are about);
# plus an uncontrolled multi-OS-thread run (harness/C08/mt_oracle.cpp, ASan) that only feeds the property oracle.
import sys
from vlib import *
sys.path.insert(0, os.path.join(VERIF, 'harness', 'E2'))
import e2lib

ESHUTDOWN, ETIMEDOUT = 108, 110
F1_WITNESS = 'P wp 0 4 | create 1 0;create 2 0;usleep 10;interrupt 2 108;usleep 3000;wp_destroy 0 1 | wp_join 0 | wp_call 0 1 100;nop | wp_tt | wp_tt'


def ring_capacity(c):
    if c <= 1:
        return 2
    p = 2
    while p < c:
        p *= 2
    return p


# ------------------------------------------------------------------ generator -----
def gen_prog(rng, big=False):
    mode = rng.choice([-1, -1, 0, 0, 0, 1, 2, 3])
    ring = rng.choice([1, 2, 2, 3, 4, 4, 5, 8, 16])
    nsub = rng.randint(1, 3)
    njoin = 1 if rng.random() < .75 else 2
    next_id = [1]
    pal = rng.choice([[100, 100, 200], [50, 100, 150], [10, 20, 30, 40], [1, 2, 3], [100], [300, 700, 1100], [1024, 1023, 1025, 2048]])
    nosleep = rng.random() < .45                # yield-only bodies: destruction may overlap running tasks

    def body():
        r = rng.random()
        if nosleep: return [0] * rng.choice([0, 0, 1, 1, 2, 3, 5])
        if r < .30: return []
        if r < .45: return [0]
        if r < .60: return [rng.choice(pal)]
        return [rng.choice([0, rng.choice(pal)]) for _ in range(rng.randint(1, 4))]

    def submit():
        i = next_id[0]; next_id[0] += 1
        kind = 'wp_call' if rng.random() < .45 else 'wp_async'
        return (kind, [0, i] + body())

    def filler():
        r = rng.random()
        if r < .45: return ('usleep', [rng.choice(pal + [0])])
        if r < .8: return ('yield', [])
        return ('nop', [])

    threads = [[]]
    # joiners first: their first op is wp_join
    for j in range(njoin):
        ops = [('wp_join', [0])]
        if rng.random() < .3: ops.append(('usleep', [rng.choice(pal)]))
        threads.append(ops)
    burst = rng.random() < .4
    for s in range(nsub):
        ops = []
        n = rng.randint(1, 7 if not big else 14)
        for _ in range(n):
            if not burst and rng.random() < .35: ops.append(filler())
            ops.append(submit())
        if burst and rng.random() < .5:
            ops = [o for o in ops if o[0] != 'wp_call'] + [o for o in ops if o[0] == 'wp_call'][:1]
        threads.append(ops)
    n = len(threads)
    # the main thread yields once right after the creates so that the joiners register before anything else
    t0 = [('create', [k, 0]) for k in range(1, n)] + [('yield', [])]
    if rng.random() < .3:
        t0.append(submit())
    style = rng.random()
    if style < .35:
        pass                                    # destruction right after the creates: races with everything
    elif style < .55:
        t0.append(('yield', []))
    elif style < .7:
        t0 += [('yield', [])] * rng.randint(2, 6)
    else:
        t0.append(('usleep', [rng.choice([1, 50, 100, 500, 1024, 3000, 5000])]))
    # interrupts to callers, dispatchers, senders, sleeping task bodies' threads: EINTR-class (semaphore::wait retries them)
    # and ESHUTDOWN / ETIMEDOUT (semaphore::wait gives up: finding F37, fixed — do_call must wait again)
    if rng.random() < .4:
        for _ in range(rng.randint(1, 4)):
            t0.append(('interrupt', [rng.randrange(1, n), rng.choice([4, 11, 125, 108, 108, 110])]))
            if rng.random() < .5: t0.append(('usleep', [rng.choice(pal)]))
    threads[0] = t0
    # bodies that sleep need the quiescence gate (q = 1): E2's virtual time stands still while the destructor spins
    sleepy = any(a > 0 for t in threads for o in t if o[0] in ('wp_call', 'wp_async') for a in o[1][2:])
    q = 1 if sleepy else rng.choice([0, 0, 1])
    if rng.random() < .15:                     # a second destroyer racing
        k = rng.randrange(1 + njoin, n)
        threads[k].insert(rng.randint(0, len(threads[k])), ('wp_destroy', [0, q]))
    t0.append(('wp_destroy', [0, q]))
    ntasks = next_id[0]
    slot = 'wp_tt' if mode == 0 else 'wp_pt'
    if mode >= 0:
        threads += [[(slot, [])] for _ in range(ntasks + 1)]
    return e2lib.fmt_case([('wp', [mode, ring])], threads)


def analyse(case, out):
    """the property evaluated on the IMPLEMENTATION's trace, independent of the Coq models"""
    if out.startswith(('CRASH', 'HANG', 'NONDET', 'NOOUTPUT', 'BADCASE', 'INITFAIL', 'PIPEFAIL')):
        return 'implementation failed: ' + out[:200]
    r = e2lib.parse_result(out)
    if r is None:
        return 'unparsable output: %r' % out[:200]
    if r['flag']:
        return 'run did not end normally: ' + r['flag']
    decls, threads = e2lib.parse_case(case)
    ops = {}
    for k, t in enumerate(threads):
        for pc, (name, args) in enumerate(t):
            ops[(k, pc)] = (name, args)
    start, fin, dele = {}, {}, {}
    destroy_at = None
    pos = 0
    submitted = {}     # id -> kind, for submissions known to have been accepted
    for pos, (tid, pc, ret, err, tm) in enumerate(r['tr']):
        if tid >= 1000:
            i = tid - 1000
            d = (start, fin, dele)[pc] if pc in (0, 1, 2) else None
            if d is None:
                return 'unknown task event %d.%d' % (tid, pc)
            if i in d:
                return 'task %d: event %s happened twice' % (i, ('start', 'finish', 'delete')[pc])
            if ret != 1:
                return 'task %d: counter of %s is %d' % (i, ('start', 'finish', 'delete')[pc], ret)
            d[i] = pos
            if pc == 1 and i not in start: return 'task %d finished without starting' % i
            if pc == 2 and i not in fin: return 'task %d deleted before it finished' % i
            if destroy_at is not None:
                return 'task %d event after the destructor returned' % i
            continue
        name, args = ops.get((tid, pc), ('?', []))
        if name == 'wp_call' and ret != e2lib_SKIPPED:
            i = args[1]
            if ret != 1 or i not in fin:
                return 'call() of task %d returned before the task finished (finished flag %d)' % (i, ret)
            submitted[i] = 'call'
        if name == 'wp_async' and ret != e2lib_SKIPPED:
            submitted[args[1]] = 'async'
        if name == 'wp_destroy' and ret == 0:
            destroy_at = pos
            for i in start:
                if i not in fin:
                    return 'destructor returned while task %d was still running' % i
            for i, kind in submitted.items():
                if i not in fin:
                    return 'destructor returned before accepted task %d finished' % i
                if kind == 'async' and i not in dele:
                    return 'destructor returned before async task %d was deleted' % i
    for i in dele:
        if submitted.get(i) == 'call':
            return 'call task %d was deleted' % i
    if destroy_at is not None:
        for (k, pc) in r['blocked']:
            nm = ops.get((k, pc), ('?', []))[0]
            if nm in ('wp_join', 'wp_call', 'wp_async', 'wp_destroy'):
                return 'thread %d still blocked in %s after the pool was destroyed' % (k, nm)
    return None


e2lib_SKIPPED = -2


class Check(DiffCheck):
    id = 'C08'
    needs_libphoton = True
    coq_dirs = ['C08']
    coq_targets = ['C08/C08_Model.vo', 'C08/C08_Coop.vo', 'C08/C08_Proofs.vo']
    properties_v = 'C08/C08_Properties.v'
    extract_v = 'C08/C08_Extract.v'
    model_module = 'C08_model'
    case_timeout = 900
    rule = ('E2 programs: one WorkPool(0,0,0,mode,ring) with mode in {-1,0,1,2,3} and ring in {1..16}; 1-2 photon threads join the pool '
            '(join_current_vcpu_into_workpool), 1-3 submitters issue call()/async_call() bursts with bodies that sleep/yield, the main thread '
            'destroys the pool at a random moment (often right after the last submit), EINTR-class and ESHUTDOWN/ETIMEDOUT interrupts of callers/dispatchers/senders. Non-trivial = more tasks than '
            'ring slots, or a task body that blocks.')
    partial_note = ('PARTIAL by design: the cross-OS-thread interleavings (submitters on other vCPUs / plain OS threads, several worker vCPUs, the '
                    'destructor racing with them) are proved on the model (coq/C08/C08_Model.v) and only SAMPLED on the implementation by the '
                    'uncontrolled multi-thread oracle run; they are not replayed under a controlled scheduler.')

    def __init__(self):
        self.runner_ml = e2lib.make_runner(self.id, ['ocaml/E2_lib.ml', 'ocaml/C08_run.ml'])

    def build_impl(self):
        return e2lib.build_impl(self.id, ['harness/C08/ops_wp.cpp'])

    def gen_cases(self, tier, rng):
        cases = []
        corpus = os.path.join(VERIF, 'replay', 'corpus', 'C08.cases')
        if os.path.exists(corpus):
            cases += [l.strip() for l in open(corpus) if l.strip() and not l.startswith('#')]
        n = 300 if tier == 'quick' else 2000
        for k in range(n):
            cases.append(gen_prog(rng, big=(k % 5 == 4)))
        return list(dict.fromkeys(cases))

    def nontrivial(self, case):
        if not case.startswith('P'):
            return True
        decls, threads = e2lib.parse_case(case)
        cap = ring_capacity(decls[0][1][1]) if decls else 2
        subs = [o for t in threads for o in t if o[0] in ('wp_call', 'wp_async')]
        return len(subs) > cap or any(len(o[1]) > 2 for o in subs)

    def impl_env(self):
        e = DiffCheck.impl_env(self)
        e['E2_TIMEOUT_MS'] = '180000'      # real-time guard only (a livelocked case); generous: the machine may be loaded
        return e

    def oracle(self, case, impl_out):
        if not case.startswith('P'):
            return None
        return analyse(case, impl_out)

    def category(self, case):
        if not case.startswith('P'):
            return case[:1]
        decls, _ = e2lib.parse_case(case)
        return 'mode=%d ring=%d' % (decls[0][1][0], ring_capacity(decls[0][1][1]))

    # ------------------------------------------------------------------ extra engines -----
    def gen_mt(self, tier, rng):
        cases = ['M -1 1 1 0 1 1 2 12 1', 'M 0 2 2 1 2 1 3 20 2', 'M 3 1 1 1 1 2 2 15 3', 'M 0 64 3 0 3 0 1 40 4', 'M -1 2 3 1 0 2 4 10 5']
        n = 6 if tier == 'quick' else 60
        for _ in range(n):
            mode = rng.choice([-1, 0, 0, 1, 2, 4])
            ring = rng.choice([1, 2, 2, 4, 8, 64, 1024])
            nworkers = rng.randint(1, 4)
            joiner = rng.choice([0, 0, 1])
            nstd = rng.randint(0, 3)
            npos = rng.randint(0 if nstd else 1, 2)
            pper = rng.randint(1, 4)
            each = rng.choice([5, 10, 20, 40])
            cases.append('M %d %d %d %d %d %d %d %d %d' % (mode, ring, nworkers, joiner, nstd, npos, pper, each, rng.randrange(1 << 30)))
        return cases

    @staticmethod
    def mt_oracle(case, out):
        m = re.match(r'^n=(\d+) unfinished_at_destroy=(\d+) bad=(\S+)$', (out or '').strip())
        if not m:
            return 'multi-thread run failed: %r' % (out or '')[:300]
        if m.group(2) != '0':
            return '~WorkPool returned while %s accepted tasks had not finished' % m.group(2)
        if m.group(3) != '-':
            return 'tasks not run exactly once / call() returned early / wrong delete count (id kind:runs.fin.del.flag): ' + m.group(3)[:300]
        return None

    @staticmethod
    def run_retry(exe, cases, tmp, tag, **kw):
        """run_cases, repeated while the loader reports libphoton.so being re-linked by a concurrent check (infrastructure, not a result)"""
        for attempt in range(6):
            got = run_cases(exe, cases, tmp, '%s%d' % (tag, attempt), **kw)
            if not any('error while loading shared libraries' in (g or '') for g in got):
                return got
            time.sleep(30)
        return got

    def extra(self, ctx):
        out = []
        cov = self.extra_coverage = {}
        tmp = ctx['tmp']
        # (a) the refutation witnesses and a sample run through the EXTRACTED step function of C08_Model
        a_cases = [
            ('A 0 4 1 0 1 | submit:1 intr:0', 'tasks=0.0.0.0.1 badcopy=0 uaf=0 badcount=0 ringuaf=0 destroyed=0'),      # pre-fix code
            ('A 0 4 1 0 0 | submit:1 intr:0', 'tasks=0.0.0.0.0 badcopy=0 uaf=0 badcount=0 ringuaf=0 destroyed=0'),      # fixed code: waits again
            ('A 0 4 1 0 1 | submit:1 intr:0 recv:0 dispatch:0 yieldto:0 copy:0 start:0', 'tasks=1.0.0.0.1 badcopy=0 uaf=1 badcount=0 ringuaf=0 destroyed=0'),
            ('A 0 4 0 0 0 | submit:0 dbegin dfinal', 'tasks=0.0.0.0.0 badcopy=0 uaf=0 badcount=0 ringuaf=0 destroyed=1'),
            ('A 0 4 1 0 0 | submit:1 recv:0 dispatch:0 recv:0', 'REJECT@3'),
            ('A 0 2 1 0 0 | submit:1 submit:0 recv:0 dispatch:0 yieldto:0 copy:0 start:0 yield:0:- dbegin recv:0 dispatch:0 yieldto:0 copy:1 start:1 '
             'finish:1 delete:1 dec:1:0 finish:0 signal:0 dec:0:- return:0 dpush recv:0 stop:0 drained:0 dfinal',
             'tasks=1.1.0.1.1,1.1.1.0.0 badcopy=0 uaf=0 badcount=0 ringuaf=0 destroyed=1'),
        ]
        if ctx.get('model_exe'):
            got = run_cases(ctx['model_exe'], [c for c, _ in a_cases], tmp, 'amodel', nshards=1, timeout=120)
            for (c, want), g in zip(a_cases, got):
                if (g or '').strip() != want:
                    out.append(dict(kind='correspondence', message='extracted C08_Model.step disagrees with the proved witness: got %r want %r' % (g, want), case=c))
            cov['model_A_witness_replays'] = len(a_cases)
        # (b) finding F37 (fixed by /repo f4b1a02): ESHUTDOWN / ETIMEDOUT interrupt to a caller blocked in call()
        if ctx.get('impl_exe'):
            wit = [F1_WITNESS, F1_WITNESS.replace('interrupt 2 108', 'interrupt 2 110'),
                   F1_WITNESS.replace('wp 0 4', 'wp -1 4'), F1_WITNESS.replace('wp 0 4', 'wp 2 4').replace('wp_tt', 'wp_pt')]
            got = self.run_retry(ctx['impl_exe'], wit, tmp, 'f37', nshards=1, timeout=900, env=self.impl_env())
            repro = [(c, g) for c, g in zip(wit, got) if analyse(c, (g or '').strip())]
            cov['finding_F37_witnesses_pass'] = not repro
            if repro and not any(f.get('status') == 'known' and 'ESHUTDOWN' in f.get('what', '') for f in load_known_findings(self.id)):
                c, g = repro[0]
                out.append(dict(kind='oracle', case=c, impl_out=g,
                                message='call() returned before its task finished: the caller was interrupted with ESHUTDOWN/ETIMEDOUT: '
                                        + (analyse(c, (g or '').strip()) or '')))
        # (c) the uncontrolled multi-OS-thread oracle run (ASan)
        exe, log = cxx_build(self.id, ['harness/C08/mt_oracle.cpp'], asan=True, libphoton=True, out=os.path.join(BUILD, 'bin', 'C08_mt'))
        if not exe:
            out.append(dict(kind='build', message='mt_oracle does not build: ' + log[-1500:], case=None))
            return out
        mt = self.gen_mt(ctx['tier'], ctx['rng'])
        env = DiffCheck.impl_env(self)
        got = self.run_retry(exe, mt, tmp, 'mt', nshards=min(len(mt), 6), timeout=240, env=env)   # a run takes seconds; a call() that never returns must not cost hours
        ntasks = 0
        for c, g in zip(mt, got):
            o = self.mt_oracle(c, g)
            m = re.match(r'^n=(\d+)', (g or ''))
            ntasks += int(m.group(1)) if m else 0
            if o:
                out.append(dict(kind='oracle', message='multi-thread oracle: ' + o, case=c, impl_out=g))
                break
        cov['mt_oracle_runs'] = len(mt)
        cov['mt_oracle_tasks'] = ntasks
        return out


if __name__ == '__main__':
    sys.exit(Check().main(sys.argv[1:]))
