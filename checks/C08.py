# C08 — WorkPool: every task runs exactly once; call() returns after its task finished.
import sys
from vlib import *
sys.path.insert(0, os.path.join(VERIF, 'harness', 'E2'))
import e2lib


class Check(DiffCheck):
    id = 'C08'
    needs_libphoton = True
    coq_dirs = ['C08']
    coq_targets = ['C08/C08_Model.vo', 'C08/C08_Coop.vo', 'C08/C08_Proofs.vo']
    properties_v = 'C08/C08_Properties.v'
    extract_v = 'C08/C08_Extract.v'
    model_module = 'C08_model'

    def __init__(self):
        self.runner_ml = e2lib.make_runner(self.id, ['ocaml/E2_lib.ml', 'ocaml/C08_run.ml'])

    def build_impl(self):
        return e2lib.build_impl(self.id, ['harness/C08/ops_wp.cpp'])

    def gen_cases(self, tier, rng):
        return [l.strip() for l in open('/tmp/C08_t/a.cases') if l.strip()][:5]


if __name__ == '__main__':
    sys.exit(Check().main(sys.argv[1:]))
