# C01 — mutex / spinlocks: one owner at a time, lock() result matches ownership.
# Engine E2: thread programs over photon::mutex / seq_mutex / recursive_mutex on the real scheduler
# (single vCPU, virtual clock) vs the cooperative run of the FINE-GRAINED Coq model
# (coq/C01/C01_Model.v `tstep`, driven by coq/C01/C01_Coop.v through Sched/Prog.v).
import sys, stat, itertools
from vlib import *
sys.path.insert(0, os.path.join(VERIF, 'harness', 'E2'))
import e2lib

MAX64 = (1 << 64) - 1
ETIMEDOUT = 110
LOCK_OPS = ('lock', 'try_lock', 'rlock', 'rtry_lock')
UNLOCK_OPS = ('unlock', 'runlock')


def gen_prog(rng, style=None):
    n = rng.randint(2, 6)
    nm = rng.randint(1, 3)
    decls = []
    for _ in range(nm):
        r = rng.random()
        if r < .45: decls.append(('mutex', [rng.choice([0, 0, 1, 2, 2, 100]), 1 if rng.random() < .25 else 0]))
        elif r < .65: decls.append(('seq_mutex', []))
        else: decls.append(('rmutex', [rng.choice([0, 1, 2]), 1 if rng.random() < .2 else 0]))
    hold = rng.choice([[100], [100, 200], [50, 100, 150], [10, 20, 30], [100, 100, 300], [1, 2, 3]])
    errs = [4, 4, 11, 125, 4, -1, 0]
    style = rng.random() if style is None else style

    def tmo():
        # timeouts drawn AROUND the hold times so that expiry lands before / at / after the hand-off
        r = rng.random()
        if r < .25: return -1
        if r < .30: return 0
        h = rng.choice(hold)
        return max(0, h * rng.choice([1, 1, 1, 2, 2, 3]) + rng.choice([-1, 0, 0, 0, 1, -h // 2, h // 2]))

    def rec(i):
        return decls[i][0] == 'rmutex'

    def section(k):
        """lock i ; hold ; unlock i  (mostly well-bracketed)"""
        i = rng.randrange(nm)
        L, T, Un = ('rlock', 'rtry_lock', 'runlock') if rec(i) else ('lock', 'try_lock', 'unlock')
        ops = []
        ops.append((T, [i]) if rng.random() < .2 else (L, [i, tmo()]))
        if rec(i) and rng.random() < .4:
            ops.append((L, [i, tmo()]))
            ops.append((Un, [i]))
        r = rng.random()
        if r < .6: ops.append((rng.choice(['usleep', 'musleep']), [rng.choice(hold)]))
        elif r < .8: ops.append((rng.choice(['yield', 'myield']), []))
        if rng.random() < .25:           # nested second mutex
            j = rng.randrange(nm)
            L2, T2, U2 = ('rlock', 'rtry_lock', 'runlock') if rec(j) else ('lock', 'try_lock', 'unlock')
            ops.append((L2, [j, tmo()])); ops.append((U2, [j]))
        if rng.random() < .93: ops.append((Un, [i]))
        return ops

    def filler(k):
        r = rng.random()
        if r < .35: return [(rng.choice(['interrupt', 'minterrupt']), [rng.randrange(n), rng.choice(errs)])]
        if r < .55: return [(rng.choice(['usleep', 'musleep']), [rng.choice(hold + [0])])]
        if r < .70: return [(rng.choice(['yield', 'myield']), [])]
        if r < .80: return [('nop', [])]
        if r < .88: return [(rng.choice(UNLOCK_OPS), [rng.randrange(nm)])]      # unlock without holding / wrong class
        if r < .94: return [(rng.choice(LOCK_OPS), [rng.randrange(nm), tmo()])]  # unbracketed / wrong class
        return [('nop', [])]

    threads = []
    for k in range(n):
        ops = []
        target = rng.randint(3, 12)
        while len(ops) < target:
            ops += section(k) if rng.random() < (.75 if style < .8 else .45) else filler(k)
        threads.append(ops[:14])
    if style > .9:                       # one dedicated interrupter aiming at the waiters
        threads[n - 1] = []
        for _ in range(rng.randint(4, 12)):
            threads[n - 1] += [(rng.choice(['usleep', 'musleep']), [rng.choice(hold) // rng.choice([1, 2, 3]) + rng.choice([0, 0, 1])]),
                               (rng.choice(['interrupt', 'minterrupt']), [rng.randrange(n - 1), rng.choice(errs)])]
    if .8 <= style < .9 and n >= 3:
        # interrupts landing on lockers that are READY inside the retries loop (thread_yield in mutex::lock):
        # one holder sleeps inside, the others spin through their retries while an interrupter alternates
        # interrupt / yield
        decls[0] = ('mutex', [rng.choice([1, 2, 2, 100]), 0])
        threads[1] = [('lock', [0, -1]), ('usleep', [rng.choice(hold)]), ('unlock', [0])] + threads[1][:4]
        for k in range(2, n - 1):
            threads[k] = [('lock', [0, tmo()]), (rng.choice(['yield', 'usleep']), [] if rng.random() < .5 else [rng.choice(hold)]), ('unlock', [0])] + threads[k][:4]
            if threads[k][1][0] == 'yield': threads[k][1] = ('yield', [])
            elif not threads[k][1][1]: threads[k][1] = ('usleep', [rng.choice(hold)])
        threads[n - 1] = []
        for _ in range(rng.randint(3, 8)):
            threads[n - 1] += [(rng.choice(['interrupt', 'minterrupt']), [rng.randrange(2, n), rng.choice(errs)]), (rng.choice(['yield', 'myield']), [])]
    for k in range(1, n):
        threads[0].insert(k - 1, ('create', [k, 0]))
    return e2lib.fmt_case(decls, threads)


def analyse(case, out):
    """The property evaluated on the IMPLEMENTATION's trace only (independent of the Coq model):
    occupancy per mutex, lock() result vs ownership, no stuck mutex at the end."""
    pr = e2lib.parse_result(out)
    if pr is None:
        return 'unparsable implementation output: %s' % out[:200]
    if pr['flag']:
        return 'implementation run flagged %s' % pr['flag']
    decls, threads = e2lib.parse_case(case)
    depth = [dict() for _ in decls]          # per mutex: thread -> successes not yet unlocked
    for (t, pc, ret, err, now) in pr['tr']:
        if t >= len(threads) or pc >= len(threads[t]):
            return 'trace names an op that does not exist: %d.%d' % (t, pc)
        name, args = threads[t][pc]
        if ret == -2:
            continue
        if name in LOCK_OPS:
            i = args[0]
            if ret >= 7777:
                return 'occupancy %d > 1 inside mutex %d after %s by thread %d at t=%d' % (ret - 7777, i, name, t, now)
            if ret == 0:
                others = [u for u, d in depth[i].items() if d > 0 and u != t]
                if others:
                    return '%s of mutex %d by thread %d returned 0 at t=%d while thread(s) %s are inside' % (name, i, t, now, others)
                if decls[i][0] != 'rmutex' and depth[i].get(t, 0) > 0:
                    return 'plain mutex %d re-acquired by its holder %d' % (i, t)
                depth[i][t] = depth[i].get(t, 0) + 1
            elif ret != -1:
                return '%s returned %d' % (name, ret)
            elif name in ('lock', 'rlock') and err == 0:
                return '%s failed with errno 0' % name
        elif name in UNLOCK_OPS:
            i = args[0]
            if depth[i].get(t, 0) > 0:
                depth[i][t] -= 1
        elif name == 'locked':
            i = args[0]
            inside = any(d > 0 for d in depth[i].values())
            if inside and ret != 1:
                return 'locked() = %d of mutex %d at t=%d while a thread is inside' % (ret, i, now)
    # a thread still blocked in lock() for ever although nobody is inside and nobody will unlock:
    # the mutex was left stuck (owner set to a thread that does not know it)
    for (t, pc) in pr['blocked']:
        if t < len(threads) and pc < len(threads[t]) and threads[t][pc][0] in ('lock', 'rlock'):
            i = threads[t][pc][1][0]
            if 0 <= i < len(decls) and not any(d > 0 for d in depth[i].values()):
                # legitimate only if the blocked thread itself... (a plain self-relock is never issued)
                return 'thread %d blocked for ever in %s of mutex %d that nobody holds (stuck mutex)' % (t, threads[t][pc][0], i)
    return None


# ------------------------------------------------------------------ E3: spinlock / ticket / qspinlock
B36 = '0123456789abcdefghijklmnopqrstuvwxyz'


def gen_spin(tier, rng):
    cases = []
    # exhaustive: 2 participants x 1-2 lock/unlock rounds, every schedule word of length L (tail = round-robin)
    for kind in ('tas', 'tkl', 'qsl'):
        for scripts, L in ((['LU', 'LU'], 8 if tier == 'quick' else 12), (['LULU', 'LULU'], 6 if tier == 'quick' else 11)):
            for w in itertools.product('01', repeat=L):
                cases.append('S %s 400 | %s | %s | %s' % (kind, scripts[0], scripts[1], ''.join(w)))
        if kind != 'tkl':
            for scripts in (['TU', 'LU'], ['TUTU', 'LUTU'], ['LUTU', 'TLU']):
                for w in itertools.product('01', repeat=7 if tier == 'quick' else 11):
                    cases.append('S %s 400 | %s | %s | %s' % (kind, scripts[0], scripts[1], ''.join(w)))
    # random bursty schedules for 3-4 participants, with a victim that is stalled at a chosen step
    nrand = 400 if tier == 'quick' else 6000
    for _ in range(nrand):
        kind = rng.choice(['tas', 'tkl', 'qsl', 'qsl'])
        n = rng.choice([3, 3, 4])
        ops = 'LU' if kind == 'tkl' else 'LUT'
        scripts = []
        for p in range(n):
            r = rng.random()
            if r < .6: sc = 'LU' * rng.randint(1, 3)
            else: sc = ''.join(rng.choice(ops) for _ in range(rng.randint(2, 6)))
            scripts.append(sc + 'U')        # always release at the end: a livelock is then a real failure
        sched = []
        victim = rng.randrange(n)
        stall_at = rng.randint(1, 6)
        vsteps = 0
        for _ in range(rng.randint(10, 60)):
            p = rng.randrange(n)
            if p == victim:
                if vsteps >= stall_at and rng.random() < .9: continue
                vsteps += 1
            sched += [p] * (1 if rng.random() < .6 else rng.randint(2, 5))
        cases.append('S %s 600 | %s | %s' % (kind, ' | '.join(scripts), ''.join(B36[p] for p in sched[:80])))
    return cases


def spin_oracle(case, out):
    """exclusion (and ticket FIFO) evaluated on the IMPLEMENTATION's step log alone"""
    if out.startswith('CRASH') or 'E3ERROR' in out or out.startswith('BADCASE'):
        return 'E3 harness failed: ' + out[:300]
    m = re.match(r'^steps=(\d+) livelock=([01]) digest=\S+ log=(.*)$', out)
    if not m:
        return 'unparsable: ' + out[:200]
    kind = case.split()[1]
    if m.group(2) == '1':
        return 'livelock: the lock never lets the remaining participants finish (bound reached): ' + out[:200]
    inside = set()
    ticket = {}
    order = []
    for ent in m.group(3).split():
        f = ent.split('.')
        p, k = int(f[0]), f[1]
        enter = leave = False
        if kind == 'tas':
            enter = k == 'xg' and f[-1] == '0'
            leave = k == 'st'
        elif kind == 'tkl':
            if k == 'fa': ticket[p] = int(f[-1])
            enter = k == 'ld' and p not in inside and p in ticket and int(f[-1]) == ticket[p]
            if k == 'st': leave = True; ticket.pop(p, None)
        else:
            enter = (k == 'xg' and f[-1] == 'null') or (k == 'cas' and f[3] == 'null' and f[-1] == '1') or \
                    (k == 'ld' and f[2].startswith('hgot') and f[-1] == '1')
            leave = k == 'ld' and f[2].startswith('hnext') and p in inside
        if enter:
            if inside:
                return 'participant %d enters (%s) while %s inside' % (p, ent, sorted(inside))
            inside.add(p)
            if kind == 'tkl': order.append(ticket[p])
        elif leave:
            inside.discard(p)
    if kind == 'tkl' and order != sorted(order):
        return 'ticket lock admitted out of ticket order: %s' % order
    return None


class Check(DiffCheck):
    id = 'C01'
    # lockset engine (lib/lockset.py): mutex slow path enqueues with splock held (deferred unlock), hand-off under splock + head's thread.lock
    lockset_rules = {10, 11, 12, 13, 14, 15, 20, 26}
    # E4S (lib/e4s.py): controlled 2-vCPU schedule search with this property's oracle (preemption at every lock boundary)
    e4s_props = {'C01'}
    needs_libphoton = True
    coq_dirs = ['Base', 'C04', 'Sched', 'E3', 'C01']
    # ownership / lock-result / not-stuck development: C01_Eff (case analysis + effect lemmas), C01_Cls (own_inv),
    # C01_J1..J4 (its clauses), C01_Own2, C01_Live / C01_K1 / C01_K2 (live_inv, wit_inv), C01_Own3 (final statements),
    # C01_Ex (non-vacuity examples); each file < ~2 min, < 0.6 GB
    coq_targets = ['C01/C01_Excl.vo', 'C01/C01_I2a.vo', 'C01/C01_I2b.vo', 'C01/C01_I2c.vo', 'C01/C01_I2.vo',
                   'C01/C01_Handoff.vo', 'C01/C01_Finding.vo',
                   'C01/C01_Eff.vo', 'C01/C01_Cls.vo', 'C01/C01_J1.vo', 'C01/C01_J2.vo', 'C01/C01_J3.vo', 'C01/C01_J4.vo',
                   'C01/C01_Own.vo', 'C01/C01_Own2.vo', 'C01/C01_Live.vo', 'C01/C01_K1.vo', 'C01/C01_K2.vo',
                   'C01/C01_Own3.vo', 'C01/C01_Ex.vo',
                   'C01/C01_Spin_Proofs.vo', 'C01/C01_Mcs2.vo', 'C01/C01_Coop.vo']
    properties_v = 'C01/C01_Properties.v'
    extract_v = 'C01/C01_Extract.v'
    model_module = 'C01_model'
    rule = ('E2 programs: 2-6 photon threads x 3-14 ops over 1-3 mutex objects (mutex retries in {0,1,2,100} / contending, '
            'seq_mutex, recursive_mutex), timed lock with timeouts drawn around the hold times, interrupts aimed at waiters; '
            'non-trivial = at least two threads contend for one object and one blocks, times out or is interrupted')
    assumptions = ['sequential consistency', 'single vCPU in the correspondence run (E2)']
    trusted_base = ['E2 engine: hooks H-clock/H-idle in thread.cpp, harness/E2, coq/Sched (owner C04)',
                    'glue C01_Coop.v (view of the Sched state / mirroring of wake-ups)']
    partial_note = ''
    case_timeout = 7000

    def __init__(self):
        self.runner_ml = e2lib.make_runner(self.id, ['ocaml/E2_lib.ml', 'ocaml/C01_spin_run.ml', 'ocaml/C01_run.ml'])

    def build_impl(self):
        e2 = e2lib.build_impl(self.id, ['harness/C01/ops_mutex.cpp'], out=os.path.join(BUILD, 'bin', 'C01_e2'))
        sp, log = cxx_build(self.id, ['harness/C01/spin_e3.cpp'], '-I%s' % REPO, False, True, os.path.join(BUILD, 'bin', 'C01_spin'))
        if not sp:
            raise RuntimeError('spin_e3: ' + log[-3000:])
        # dispatcher: P lines -> E2 harness, S lines -> E3 spinlock harness; one output line per input line, in order
        wrap = os.path.join(BUILD, 'bin', 'C01_impl')
        with open(wrap, 'w') as f:
            f.write('''#!/usr/bin/env python3
import sys, subprocess
lines = [l.rstrip('\\n') for l in open(sys.argv[1]) if l.strip() and not l.startswith('#')]
i = 0
while i < len(lines):
    tag = lines[i][0]
    j = i
    while j < len(lines) and lines[j][0] == tag: j += 1
    exe = %r if tag == 'P' else %r
    fn = sys.argv[1] + '.%%d.part' %% i
    open(fn, 'w').write('\\n'.join(lines[i:j]) + '\\n')
    p = subprocess.run([exe, fn], stdout=subprocess.PIPE, stderr=subprocess.PIPE, universal_newlines=True, errors='replace')
    out = p.stdout.split('\\n')
    if out and out[-1] == '': out = out[:-1]
    for k in range(j - i):
        if k < len(out): print(out[k])
        elif k == len(out): print('CRASH(%%s): %%s' %% (p.returncode, (p.stderr.strip().splitlines() or [''])[-1][:200]))
        else: print('CRASH(skipped)')
    sys.stdout.flush()
    i = j
''' % (e2, sp))
        os.chmod(wrap, os.stat(wrap).st_mode | stat.S_IXUSR | stat.S_IXGRP | stat.S_IXOTH)
        return wrap

    def gen_cases(self, tier, rng):
        cases = []
        corpus = os.path.join(VERIF, 'replay', 'corpus', 'C01.cases')
        if os.path.exists(corpus):
            cases += [l.strip() for l in open(corpus) if l.strip() and not l.startswith('#')]
        n = int(os.environ.get('C01_N', '0')) or (100 if tier == 'quick' else 6000)
        for _ in range(n):
            cases.append(gen_prog(rng))
        return cases + gen_spin(tier, rng)

    def impl_env(self):
        e = DiffCheck.impl_env(self)
        e['E2_TIMEOUT_MS'] = '300000'      # real-time watchdog only; generous because the machine may be loaded
        return e

    def nontrivial(self, case):
        if case[0] == 'S':
            return sum(1 for sc in case.split('|')[1:-1] if 'L' in sc or 'T' in sc) >= 2
        decls, threads = e2lib.parse_case(case)
        users = {}
        for t, ops in enumerate(threads):
            for name, args in ops:
                if name in LOCK_OPS and args:
                    users.setdefault(args[0], set()).add(t)
        return any(len(v) >= 2 for v in users.values())

    def oracle(self, case, impl_out):
        if case[0] == 'S':
            return spin_oracle(case, impl_out)
        return analyse(case, impl_out)

    def category(self, case):
        if case[0] == 'S':
            return 'E3/%s/%dp' % (case.split()[1], len(case.split('|')) - 2)
        decls, threads = e2lib.parse_case(case)
        return '%dthr/%s' % (len(threads), '+'.join(sorted(set(d[0] for d in decls))))

    def extra(self, ctx):
        """F33 confirmation on the real library (prints only, never a violation): needs the guarded hook
        photon_verif_intr_window (repo_patches/C01-hook-interrupt-window.diff) in the tree under test"""
        try:
            exe, log = cxx_build(self.id, ['harness/C01/f33_confirm.cpp'], '-ldl', False, True, os.path.join(BUILD, 'bin', 'C01_f33'))
            if exe:
                rc, out = sh([exe], timeout=300)
                line = (out.strip().splitlines() or ['(no output)'])[-1]
                print('[C01] F33 confirmation run: %s' % line[:300])
                self.extra_coverage = dict(f33_confirmation=line[:300])
        except Exception as e:
            print('[C01] F33 confirmation run skipped: %s' % str(e)[:200])
        return []

    def neighbours(self, case, rng):
        if case[0] == 'S':
            return gen_spin('quick', rng)[-300:]
        return [gen_prog(rng) for _ in range(300)]


if __name__ == '__main__':
    sys.exit(Check().main(sys.argv[1:]))
