# C01 — mutex / spinlocks: one owner at a time, lock() result matches ownership.
# Engine E2: thread programs over photon::mutex / seq_mutex / recursive_mutex on the real scheduler
# (single vCPU, virtual clock) vs the cooperative run of the FINE-GRAINED Coq model
# (coq/C01/C01_Model.v `tstep`, driven by coq/C01/C01_Coop.v through Sched/Prog.v).
import sys
from vlib import *
sys.path.insert(0, os.path.join(VERIF, 'harness', 'E2'))
import e2lib

MAX64 = (1 << 64) - 1
ETIMEDOUT = 110
LOCK_OPS = ('lock', 'try_lock', 'rlock', 'rtry_lock')
UNLOCK_OPS = ('unlock', 'runlock')


def gen_prog(rng, style=None):
    n = rng.randint(2, 6)
    nm = rng.randint(1, 3)
    decls = []
    for _ in range(nm):
        r = rng.random()
        if r < .45: decls.append(('mutex', [rng.choice([0, 0, 1, 2, 2, 100]), 1 if rng.random() < .25 else 0]))
        elif r < .65: decls.append(('seq_mutex', []))
        else: decls.append(('rmutex', [rng.choice([0, 1, 2]), 1 if rng.random() < .2 else 0]))
    hold = rng.choice([[100], [100, 200], [50, 100, 150], [10, 20, 30], [100, 100, 300], [1, 2, 3]])
    errs = [4, 4, 11, 125, 4, -1, 0]
    style = rng.random() if style is None else style

    def tmo():
        # timeouts drawn AROUND the hold times so that expiry lands before / at / after the hand-off
        r = rng.random()
        if r < .25: return -1
        if r < .30: return 0
        h = rng.choice(hold)
        return max(0, h * rng.choice([1, 1, 1, 2, 2, 3]) + rng.choice([-1, 0, 0, 0, 1, -h // 2, h // 2]))

    def rec(i):
        return decls[i][0] == 'rmutex'

    def section(k):
        """lock i ; hold ; unlock i  (mostly well-bracketed)"""
        i = rng.randrange(nm)
        L, T, Un = ('rlock', 'rtry_lock', 'runlock') if rec(i) else ('lock', 'try_lock', 'unlock')
        ops = []
        ops.append((T, [i]) if rng.random() < .2 else (L, [i, tmo()]))
        if rec(i) and rng.random() < .4:
            ops.append((L, [i, tmo()]))
            ops.append((Un, [i]))
        r = rng.random()
        if r < .6: ops.append((rng.choice(['usleep', 'musleep']), [rng.choice(hold)]))
        elif r < .8: ops.append((rng.choice(['yield', 'myield']), []))
        if rng.random() < .25:           # nested second mutex
            j = rng.randrange(nm)
            L2, T2, U2 = ('rlock', 'rtry_lock', 'runlock') if rec(j) else ('lock', 'try_lock', 'unlock')
            ops.append((L2, [j, tmo()])); ops.append((U2, [j]))
        if rng.random() < .93: ops.append((Un, [i]))
        return ops

    def filler(k):
        r = rng.random()
        if r < .35: return [(rng.choice(['interrupt', 'minterrupt']), [rng.randrange(n), rng.choice(errs)])]
        if r < .55: return [(rng.choice(['usleep', 'musleep']), [rng.choice(hold + [0])])]
        if r < .70: return [(rng.choice(['yield', 'myield']), [])]
        if r < .80: return [('nop', [])]
        if r < .88: return [(rng.choice(UNLOCK_OPS), [rng.randrange(nm)])]      # unlock without holding / wrong class
        if r < .94: return [(rng.choice(LOCK_OPS), [rng.randrange(nm), tmo()])]  # unbracketed / wrong class
        return [('nop', [])]

    threads = []
    for k in range(n):
        ops = []
        target = rng.randint(3, 12)
        while len(ops) < target:
            ops += section(k) if rng.random() < (.75 if style < .8 else .45) else filler(k)
        threads.append(ops[:14])
    if style > .9:                       # one dedicated interrupter aiming at the waiters
        threads[n - 1] = []
        for _ in range(rng.randint(4, 12)):
            threads[n - 1] += [(rng.choice(['usleep', 'musleep']), [rng.choice(hold) // rng.choice([1, 2, 3]) + rng.choice([0, 0, 1])]),
                               (rng.choice(['interrupt', 'minterrupt']), [rng.randrange(n - 1), rng.choice(errs)])]
    for k in range(1, n):
        threads[0].insert(k - 1, ('create', [k, 0]))
    return e2lib.fmt_case(decls, threads)


def analyse(case, out):
    """The property evaluated on the IMPLEMENTATION's trace only (independent of the Coq model):
    occupancy per mutex, lock() result vs ownership, no stuck mutex at the end."""
    pr = e2lib.parse_result(out)
    if pr is None:
        return 'unparsable implementation output: %s' % out[:200]
    if pr['flag']:
        return 'implementation run flagged %s' % pr['flag']
    decls, threads = e2lib.parse_case(case)
    depth = [dict() for _ in decls]          # per mutex: thread -> successes not yet unlocked
    for (t, pc, ret, err, now) in pr['tr']:
        if t >= len(threads) or pc >= len(threads[t]):
            return 'trace names an op that does not exist: %d.%d' % (t, pc)
        name, args = threads[t][pc]
        if ret == -2:
            continue
        if name in LOCK_OPS:
            i = args[0]
            if ret >= 7777:
                return 'occupancy %d > 1 inside mutex %d after %s by thread %d at t=%d' % (ret - 7777, i, name, t, now)
            if ret == 0:
                others = [u for u, d in depth[i].items() if d > 0 and u != t]
                if others:
                    return '%s of mutex %d by thread %d returned 0 at t=%d while thread(s) %s are inside' % (name, i, t, now, others)
                if decls[i][0] != 'rmutex' and depth[i].get(t, 0) > 0:
                    return 'plain mutex %d re-acquired by its holder %d' % (i, t)
                depth[i][t] = depth[i].get(t, 0) + 1
            elif ret != -1:
                return '%s returned %d' % (name, ret)
            elif name in ('lock', 'rlock') and err == 0:
                return '%s failed with errno 0' % name
        elif name in UNLOCK_OPS:
            i = args[0]
            if depth[i].get(t, 0) > 0:
                depth[i][t] -= 1
        elif name == 'locked':
            i = args[0]
            inside = any(d > 0 for d in depth[i].values())
            if inside and ret != 1:
                return 'locked() = %d of mutex %d at t=%d while a thread is inside' % (ret, i, now)
    # a thread still blocked in lock() for ever although nobody is inside and nobody will unlock:
    # the mutex was left stuck (owner set to a thread that does not know it)
    for (t, pc) in pr['blocked']:
        if t < len(threads) and pc < len(threads[t]) and threads[t][pc][0] in ('lock', 'rlock'):
            i = threads[t][pc][1][0]
            if 0 <= i < len(decls) and not any(d > 0 for d in depth[i].values()):
                # legitimate only if the blocked thread itself... (a plain self-relock is never issued)
                return 'thread %d blocked for ever in %s of mutex %d that nobody holds (stuck mutex)' % (t, threads[t][pc][0], i)
    return None


class Check(DiffCheck):
    id = 'C01'
    needs_libphoton = True
    coq_dirs = ['Base', 'C04', 'Sched', 'E3', 'C01']
    coq_targets = ['C01/C01_Excl.vo', 'C01/C01_I2.vo', 'C01/C01_Handoff.vo', 'C01/C01_Finding.vo',
                   'C01/C01_Spin_Proofs.vo', 'C01/C01_Coop.vo']
    properties_v = 'C01/C01_Properties.v'
    extract_v = 'C01/C01_Extract.v'
    model_module = 'C01_model'
    rule = ('E2 programs: 2-6 photon threads x 3-14 ops over 1-3 mutex objects (mutex retries in {0,1,2,100} / contending, '
            'seq_mutex, recursive_mutex), timed lock with timeouts drawn around the hold times, interrupts aimed at waiters; '
            'non-trivial = at least two threads contend for one object and one blocks, times out or is interrupted')
    assumptions = ['sequential consistency', 'single vCPU in the correspondence run (E2)']
    trusted_base = ['E2 engine: hooks H-clock/H-idle in thread.cpp, harness/E2, coq/Sched (owner C04)',
                    'glue C01_Coop.v (view of the Sched state / mirroring of wake-ups)']
    partial_note = ''
    case_timeout = 7000

    def __init__(self):
        self.runner_ml = e2lib.make_runner(self.id, ['ocaml/E2_lib.ml', 'ocaml/C01_run.ml'])

    def build_impl(self):
        return e2lib.build_impl(self.id, ['harness/C01/ops_mutex.cpp'])

    def gen_cases(self, tier, rng):
        cases = []
        corpus = os.path.join(VERIF, 'replay', 'corpus', 'C01.cases')
        if os.path.exists(corpus):
            cases += [l.strip() for l in open(corpus) if l.strip() and not l.startswith('#')]
        n = int(os.environ.get('C01_N', '0')) or (200 if tier == 'quick' else 6000)
        for _ in range(n):
            cases.append(gen_prog(rng))
        return cases

    def impl_env(self):
        e = DiffCheck.impl_env(self)
        e['E2_TIMEOUT_MS'] = '300000'      # real-time watchdog only; generous because the machine may be loaded
        return e

    def nontrivial(self, case):
        decls, threads = e2lib.parse_case(case)
        users = {}
        for t, ops in enumerate(threads):
            for name, args in ops:
                if name in LOCK_OPS and args:
                    users.setdefault(args[0], set()).add(t)
        return any(len(v) >= 2 for v in users.values())

    def oracle(self, case, impl_out):
        return analyse(case, impl_out)

    def category(self, case):
        decls, threads = e2lib.parse_case(case)
        return '%dthr/%s' % (len(threads), '+'.join(sorted(set(d[0] for d in decls))))

    def neighbours(self, case, rng):
        return [gen_prog(rng) for _ in range(300)]


if __name__ == '__main__':
    sys.exit(Check().main(sys.argv[1:]))
