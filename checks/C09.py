# C09 — go-style channel: model coq/C09, direct harness harness/C09 (real photon, one vCPU), E2/E3 ties in extra()
import re, itertools
from vlib import *
sys.path.insert(0, os.path.join(VERIF, 'harness', 'E2'))
import e2lib

def has_fix():
    try:
        return 'm_handoff_seq' in open(os.path.join(REPO, 'thread', 'go.h')).read()
    except Exception:
        return False

def has_fix11():
    try:
        return 'Re-check now that the registration is visible' in open(os.path.join(REPO, 'thread', 'go.h')).read()
    except Exception:
        return False

def parse_case(case):
    secs = case.split('|')
    hd = secs[0].split()
    kind = hd[0][0]
    cap = int(hd[1]) if kind == 'B' else 0
    progs = [s.split() for s in secs[1:]]
    return kind, cap, progs

def parse_out(line):
    """-> (events, blocked) ; event = (t, K, res, value|None)"""
    if ' / blocked=' not in line:
        return None
    a, b = line.split(' / blocked=')
    evs = []
    if a.strip() != '-':
        for w in a.split():
            f = w.split('.')
            v = (int(f[3]), int(f[4])) if len(f) >= 5 else None
            evs.append((int(f[0]), f[1], int(f[2]), v))
    blocked = [] if b.strip() == '-' else [int(x) for x in b.split(',')]
    return evs, blocked

SENDERS = ['Sn', 'Sn Sn', 's', 'S0', 's Sn', 'Y Sn', 's s', 'Sn s']
RECEIVERS = ['Rn', 'Rn Rn', 'r', 'R0', 'Y Rn', 'r Rn', 'r r', 'Rn r']
CLOSERS = ['C', 'Y C', 'Y Y C']

class Check(DiffCheck):
    id = 'C09'
    coq_dirs = ['Base', 'C09', 'C04', 'Sched']
    coq_targets = ['C09/C09_Proofs.vo', 'C09/C09_BufTimeProofs.vo', 'C09/C09_UnbufRelease.vo', 'C09/C09_Witness2.vo',
                   'C09/C09_Release.vo', 'C09/C09_E2.vo', 'C09/C09_E3.vo', 'C09/C09_E3U.vo']
    needs_libphoton = True
    properties_v = 'C09/C09_Properties.v'
    extract_v = 'C09/C09_Extract.v'
    runner_ml = 'ocaml/C09_run.ml'
    model_module = 'C09_model'
    rule = ('cases: corpus; every arrival (creation) order of up to 5 threads drawn from sender/receiver/closer role programs '
            '(1-3 senders, 1-3 receivers, optional closer) on capacities 0,1,2; PRNG programs of up to 5 threads x up to 4 ops; '
            'Timeout(0) and Timeout(never) only in the direct harness. non-trivial = at least two threads on one side, or a '
            'close / expired timeout while somebody is blocked')
    assumptions = ['one channel per program; values are (sender, seq) pairs (int 1000*sender+seq in the harness)',
                   'direct harness: single vCPU, no finite timeouts (those go through E2)']
    trusted_base = ['mutex/condition_variable/semaphore/MPMC ring used through their C01/C02/C03/C07 specifications in the fine-grained model']

    def build_impl(self):
        self.fx = has_fix(); self.fxb = has_fix11()
        exe, log = cxx_build(self.id, ['harness/C09/harness.cpp'], libphoton=True)
        if not exe: raise RuntimeError(log)
        return exe

    def tag(self, case):
        # the model must follow the code under test: 'Ux' = go.h with the F10 repair, 'Bx' = with the F11 repair
        if getattr(self, 'fx', None) is None: self.fx = has_fix()
        if getattr(self, 'fxb', None) is None: self.fxb = has_fix11()
        hd, rest = case.split('|', 1)
        w = hd.split()
        base = w[0].rstrip('x')
        w[0] = base + ('x' if ((base == 'U' and self.fx) or (base == 'B' and self.fxb)) else '')
        return ' '.join(w) + ' |' + rest

    def gen_cases(self, tier, rng):
        self.fx = has_fix(); self.fxb = has_fix11()
        cs = []
        cp = os.path.join(VERIF, 'replay', 'corpus', 'C09.cases')
        if os.path.exists(cp):
            cs += [l.strip() for l in open(cp) if l.strip() and not l.startswith('#')]
        heads = ['U', 'B 1', 'B 2']
        # exhaustive arrival orders
        nsr = 3 if tier == 'quick' else 5
        for hd in heads:
            for ns in (1, 2, 3):
                for nr in (1, 2, 3):
                    if ns + nr > 5: continue
                    for wc in (0, 1):
                        if ns + nr + wc > 5: continue
                        for S in itertools.combinations_with_replacement(SENDERS[:nsr], ns):
                            for R in itertools.combinations_with_replacement(RECEIVERS[:nsr], nr):
                                for Cc in ([()] if not wc else [(c,) for c in CLOSERS[:2 if tier == 'quick' else 3]]):
                                    roles = list(S) + list(R) + list(Cc)
                                    perms = set(itertools.permutations(roles))
                                    if tier == 'quick' and len(roles) == 5:
                                        perms = rng.sample(sorted(perms), min(len(perms), 6))
                                    for p in sorted(perms):
                                        cs.append(hd + ' | ' + ' | '.join(p))
        # random programs
        nrand = 3000 if tier == 'quick' else 60000
        ops = ['Sn', 'Sn', 'Rn', 'Rn', 's', 'r', 'S0', 'R0', 'C', 'Y']
        for _ in range(nrand):
            hd = rng.choice(['U', 'U', 'B 1', 'B 2', 'B 3', 'B 4'])
            n = rng.randint(2, 5)
            progs = []
            for k in range(n):
                m = rng.randint(1, 4)
                role = rng.random()
                if role < 0.4: pool = ['Sn', 'Sn', 's', 'S0', 'Y']
                elif role < 0.8: pool = ['Rn', 'Rn', 'r', 'R0', 'Y']
                else: pool = ops
                progs.append(' '.join(rng.choice(pool) for _ in range(m)))
            cs.append(hd + ' | ' + ' | '.join(progs))
        cs = list(dict.fromkeys(cs))
        return [self.tag(c) for c in cs]

    def nontrivial(self, case):
        kind, cap, progs = parse_case(case)
        ns = sum(1 for p in progs if any(o[0] in 'Ss' for o in p))
        nr = sum(1 for p in progs if any(o[0] in 'Rr' for o in p))
        return ns >= 2 or nr >= 2 or any('C' in p or 'S0' in p or 'R0' in p for p in progs)

    def category(self, case):
        kind, cap, progs = parse_case(case)
        return '%s%d/%dthr' % (kind, cap, len(progs))

    def oracle(self, case, impl_out):
        """the property evaluated on the implementation's trace (independent of the model)"""
        kind, cap, progs = parse_case(case)
        po = parse_out(impl_out)
        if po is None:
            return 'implementation produced no trace: %s' % impl_out[:200]
        evs, blocked = po
        attempted, sent_true, recvd = set(), [], []
        closed_at = None
        nev = {}
        for i, (t, K, res, v) in enumerate(evs):
            k = nev.get(t, 0); nev[t] = k + 1
            if k >= len(progs[t - 1]) or progs[t - 1][k][0] != K:
                return 'trace does not follow the program of thread %d' % t
            opw = progs[t - 1][k]
            if K in 'Ss':
                attempted.add(v)
                if res == 1: sent_true.append(v)
            if K in 'Rr' and res == 1:
                recvd.append(v)
            if K == 'C' and closed_at is None: closed_at = i
            # false only because of close() or an expired timeout
            if K in 'SR' and res != 1:
                if res == 2 and closed_at is None:
                    return 'op %d of thread %d returned false/closed but close() was never called' % (k, t)
                if res == 3 and not opw.endswith('0'):
                    return 'op %d of thread %d returned false/ETIMEDOUT without a finite timeout' % (k, t)
                if res not in (2, 3):
                    return 'op %d of thread %d returned false for no reason' % (k, t)
        # values still to be attempted by blocked senders
        for t in blocked:
            k = nev.get(t, 0)
        # no invention, at most once
        for v in recvd:
            if recvd.count(v) > 1: return 'value %s delivered %d times' % (v, recvd.count(v))
        for v in recvd:
            s, q = v
            if not (1 <= s <= len(progs)) or q >= sum(1 for o in progs[s - 1] if o[0] in 'Ss'):
                return 'value %s delivered but never sent' % (v,)
        # per-sender order
        last = {}
        for s, q in recvd:
            if s in last and q < last[s]: return 'values of sender %d delivered out of order' % s
            last[s] = q
        # exactly once: a value reported sent is delivered, or still in the channel at quiescence
        inflight = [v for v in sent_true if v not in recvd]
        room = cap if kind == 'B' else 1
        blocked_ops = {}
        for t in blocked:
            k = nev.get(t, 0)
            if k < len(progs[t - 1]): blocked_ops[t] = progs[t - 1][k]
        blocked_recv = [t for t, o in blocked_ops.items() if o[0] == 'R']
        blocked_send = [t for t, o in blocked_ops.items() if o[0] == 'S']
        if kind == 'U':
            # a blocking send returns true only after its value was taken; only try_send leaves a value in the slot
            bl = [v for v in inflight if self._op_of(progs, v) == 'S']
            if bl: return 'send of %s returned true but the value is never delivered (lost)' % (bl[0],)
        if len(inflight) > room:
            return '%d values reported sent are neither delivered nor can fit in the channel (lost): %s' % (len(inflight), inflight[:3])
        if inflight and blocked_recv:
            return 'receiver %d is blocked at quiescence while value %s reported sent is undelivered' % (blocked_recv[0], inflight[0])
        # release: nobody stays blocked while a partner / slot / item / close exists
        if closed_at is not None and blocked_ops:
            return 'thread %d still blocked after close()' % sorted(blocked_ops)[0]
        if blocked_send and blocked_recv:
            return 'sender %d and receiver %d both blocked at quiescence' % (blocked_send[0], blocked_recv[0])
        if kind == 'B' and blocked_send:
            # items in the buffer = pushed - popped; a blocked sender's value is not pushed
            if len(inflight) < cap:
                return 'sender %d blocked at quiescence with a free slot (%d of %d used)' % (blocked_send[0], len(inflight), cap)
        if kind == 'U' and blocked_send:
            # the blocked sender's current value must not have been delivered
            for t in blocked_send:
                q = sum(1 for o in progs[t - 1][:nev.get(t, 0)] if o[0] in 'Ss')
                if (t, q) in recvd:
                    return 'sender %d is still blocked although its value %s was delivered' % (t, (t, q))
        for t, o in blocked_ops.items():
            if o[0] not in 'SR': return 'thread %d blocked in a non-blocking operation %s' % (t, o)
        return None

    @staticmethod
    def _op_of(progs, v):
        s, q = v
        k = 0
        for o in progs[s - 1]:
            if o[0] in 'Ss':
                if k == q: return o[0]
                k += 1
        return '?'

    def known_class(self, case):
        # F10: unbuffered channel and at least two send/try_send calls (a second value can reach the
        # occupied hand-off slot).  Only on the unrepaired go.h.
        kind, cap, progs = parse_case(case)
        if case.split()[0].endswith('x'): return None
        if kind == 'U' and sum(1 for p in progs for o in p if o[0] in 'Ss') >= 2:
            return 'F10'
        return None

    def neighbours(self, case, rng):
        kind, cap, progs = parse_case(case)
        hd = case.split('|')[0].strip()
        out = []
        for i in range(len(progs)):
            q = progs[:i] + progs[i + 1:]
            if len(q) >= 1: out.append(hd + ' | ' + ' | '.join(' '.join(p) for p in q))
            for j in range(len(progs[i])):
                q = [list(p) for p in progs]; del q[i][j]
                if all(q): out.append(hd + ' | ' + ' | '.join(' '.join(p) for p in q))
        for p in itertools.islice(itertools.permutations(progs), 24):
            out.append(hd + ' | ' + ' | '.join(' '.join(x) for x in p))
        return out

    # ---- engine E2: timed programs on the real scheduler under the virtual clock -------------------
    def gen_e2(self, rng, n):
        out = []
        for _ in range(n):
            cap = rng.choice([0, 0, 0, 1, 1, 2, 3])
            nt = rng.randint(2, 4)
            progs = []
            for k in range(1, nt + 1):
                ops = []
                role = rng.random()
                for _ in range(rng.randint(1, 3)):
                    d = rng.choice([-1, -1, 0, 100, 200, 300, 500])
                    if rng.random() < 0.35: ops.append('usleep %d' % rng.choice([50, 100, 150, 200, 250, 300, 400]))
                    if role < 0.42: ops.append(rng.choice(['send 0 %d' % d] * 4 + ['try_send 0']))
                    elif role < 0.84: ops.append(rng.choice(['recv 0 %d' % d] * 4 + ['try_recv 0']))
                    else: ops.append(rng.choice(['close 0', 'yield', 'send 0 %d' % d, 'recv 0 %d' % d]))
                progs.append(';'.join(ops))
            main = ';'.join('create %d 0' % k for k in range(1, nt + 1))
            out.append('P chan %d %d | %s | %s' % (cap, 1 if (self.fx if cap == 0 else self.fxb) else 0, main, ' | '.join(progs)))
        # the F10 witness with timeouts, and a close during a hand-off
        out.insert(0, 'P chan 0 %d | create 1 0;create 2 0;create 3 0 | recv 0 -1 | send 0 500 | send 0 500' % (1 if self.fx else 0))
        out.insert(1, 'P chan 0 %d | create 1 0;create 2 0;create 3 0 | send 0 400 | usleep 100;recv 0 -1 | usleep 200;close 0' % (1 if self.fx else 0))
        return out

    def e2_oracle(self, case, line):
        decls, threads = e2lib.parse_case(case)
        cap = decls[0][1][0]
        res = e2lib.parse_result(line)
        if res is None or res['flag']:
            return 'E2 run did not end normally: %s' % line[:200]
        sent_true, recvd, nsend = [], [], {}
        for (t, pc, ret, err, tm) in res['tr']:
            name, args = threads[t][pc]
            if name in ('send', 'try_send'):
                q = nsend.get(t, 0); nsend[t] = q + 1
                if ret == 1: sent_true.append((t, q, name))
            if name in ('recv', 'try_recv') and ret >= 0:
                recvd.append((ret // 1000, ret % 1000))
        for v in recvd:
            if recvd.count(v) > 1: return 'value %s delivered twice' % (v,)
            s, q = v
            if not (0 <= s < len(threads)) or q >= sum(1 for n, _ in threads[s] if n in ('send', 'try_send')):
                return 'value %s delivered but never sent' % (v,)
        last = {}
        for s, q in recvd:
            if s in last and q < last[s]: return 'values of sender %d out of order' % s
            last[s] = q
        infl = [(t, q, n) for (t, q, n) in sent_true if (t, q) not in recvd]
        if cap == 0 and any(n == 'send' for (_, _, n) in infl):
            return 'unbuffered send returned true but its value was never delivered: %s' % (infl[0],)
        if len(infl) > max(cap, 1):
            return '%d values reported sent are neither delivered nor fit the channel' % len(infl)
        return None

    def e2_known(self, case):
        decls, threads = e2lib.parse_case(case)
        if self.fx or decls[0][1][0] != 0: return None
        return 'F10' if sum(1 for th in threads for n, _ in th if n in ('send', 'try_send')) >= 2 else None

    # ---- engine E3: the buffered path of the real go.h + real ring under the lock-step controller ---------
    E3_WITNESSES = ['E 1 | S S | R | 0000000001100',      # F11 (a) sender asleep with a free slot
                    'E 1 | R | S | 0011111100',           # F11 (b) receiver asleep with an item buffered
                    'E 1 | R | C | 0011100']              # F11 (c) close() vs receiver registration

    # F40 (residual lost wake-up of the REPAIRED buffered path, capacity >= 2, a send with a finite Timeout): a sender that
    # consumed a wake-up retries, its read_available() is torn (tail loaded, head later passes it: size_t wrap = "full"),
    # its Timeout has expired (op A of the clock participant) and it returns false; another sender sleeps with a free slot.
    # model-level schedule (one digit = one model step of that participant); T100 = send with Timeout(100), A = now += 200
    F40_WITNESS = ('E 2 | S S S | T100 | S | S | R R R | A | ' + '0' * 12 + '1' * 8 + '0' * 8 + '2' * 8 + '3' * 8 +
                   '444' + '11' + '444' + '00' + '11' + '000000' + '444' + '2' * 8 + '5' + '1')

    def gen_e3(self, rng, n):
        cs = list(self.E3_WITNESSES)
        for _ in range(n):
            cap = rng.choice([1, 1, 2, 3])
            k = rng.randint(2, 4)
            scripts = []
            for p in range(k):
                role = rng.random()
                pool = ['S', 'S', 's'] if role < 0.4 else (['R', 'R', 'r'] if role < 0.8 else ['S', 'R', 'C', 's', 'r'])
                scripts.append(' '.join(rng.choice(pool) for _ in range(rng.randint(1, 3))))
            L = rng.randint(0, 40)
            ms = ''
            while len(ms) < L: ms += str(rng.randrange(k)) * rng.randint(1, 6)
            cs.append('E %d | %s | %s' % (cap, ' | '.join(scripts), ms[:L]))
        if self.fxb: cs = ['Ex' + c[1:] for c in cs]
        return cs

    @staticmethod
    def e3_lost_wakeup(case, line):
        """the release clause on the implementation's outcome: a participant is still blocked when nobody else can
        move, although a free slot / an item / close() exists"""
        m = re.match(r'^res=(\S*) blocked=(\S+) q=(\d+) closed=(\d) ', line)
        if not m or m.group(2) == '-': return None
        secs = case.split('|'); cap = int(secs[0].split()[1]); scripts = [x.split() for x in secs[1:-1]]
        res = m.group(1).split('|'); q = int(m.group(3)); closed = m.group(4) == '1'
        for p in [int(x) for x in m.group(2).split(',')]:
            done = len([x for x in res[p].split(',') if x != '']) if p < len(res) else 0
            op = scripts[p][done] if done < len(scripts[p]) else '?'
            if closed: return 'participant %d (%s) asleep on a closed channel' % (p, op)
            if op == 'S' and q < cap: return 'sender %d asleep with a free slot (%d of %d used)' % (p, q, cap)
            if op == 'R' and q > 0: return 'receiver %d asleep with %d item(s) buffered' % (p, q)
        return None

    def e3_step(self, ctx):
        mexe, mlog = build_model_runner('C09e3', 'C09/C09_E3_Extract.v', 'ocaml/C09_e3_run.ml', 'C09_e3_model')
        if not mexe:
            return [dict(kind='proof', message='E3 model runner does not build: ' + mlog[-800:], case=None)], {}
        self.e3_mexe = mexe
        iexe, ilog = cxx_build('C09e3', ['harness/C09/e3_chan.cpp'], libphoton=True)
        if not iexe:
            return [dict(kind='build', message='E3 harness for go.h does not build: ' + ilog[-1200:], case=None)], {}
        cases = self.gen_e3(ctx['rng'], 1200 if ctx['tier'] == 'quick' else 30000)
        f40 = None
        if self.fxb:                      # the witness is a schedule of the repaired code (the re-check adds steps)
            f40 = 'Ex' + self.F40_WITNESS[1:]
            cases.append(f40)
        mo = run_cases(mexe, cases, ctx['tmp'], 'e3model', timeout=600)
        hc, exp = [], []
        for c, o in zip(cases, mo):
            o = (o or '').strip()
            if ' ' not in o or o.startswith('BADCASE'):
                return [dict(kind='correspondence', message='E3 model runner failed on a case: %s' % o[:200], case=c)], {}
            sched, summ = o.split(' ', 1)
            if sched == '-': sched = ''
            secs = c.split('|')
            hc.append('E %s %d |%s| %s' % (secs[0].split()[1], len(sched) + 10, '|'.join(secs[1:-1]), sched)); exp.append(summ)
        io = run_cases(iexe, hc, ctx['tmp'], 'e3impl', timeout=1200, env=self.impl_env())
        vio, agree, lost = [], 0, 0
        for c, h, e, i in zip(cases, hc, exp, io):
            i = (i or '').strip()
            lw = self.e3_lost_wakeup(h, i)
            if lw and c == f40:
                # known residual defect F40: reported, not a verdict (model == implementation is still required below)
                if i == e:
                    print('KNOWN-FINDING: property=C09 F40 buffered channel (capacity >= 2): a timed sender that consumed a wake-up '
                          'leaves by timeout after a torn tail/head read; another sender sleeps with a free slot — reproduced on the '
                          'real go.h + real ring under E3 (%s); Coq: chan_release_buffered_repaired_refuted' % lw)
                lw = None
            if lw:
                lost += 1
                if self.fxb and not vio:
                    vio.append(dict(kind='oracle', message='E3: ' + lw, case=h, model_out=e, impl_out=i))
            if i != e and not vio:
                vio.append(dict(kind='correspondence', message='E3 (buffered channel, atomic-step replay): model and implementation disagree',
                                case=h, model_out=e, impl_out=i))
            if i == e: agree += 1
        if lost and not self.fxb:
            print('KNOWN-FINDING: property=C09 F11 buffered channel: check-then-register lost wake-up across vCPUs reproduced on the real '
                  'go.h under E3 in %d of %d schedules (incl. the 3 witnesses); repair delivered as repo_patches/C09-fix-buffered-lost-wakeup.diff' % (lost, len(cases)))
        return vio, dict(e3_f40_witness_replayed=bool(f40), e3_cases=len(cases), e3_outcomes_agreeing=agree, e3_lost_wakeups_on_impl=lost,
                         e3_rule='3 F11 witnesses + random scripts (2-4 participants, capacities 1-3) x random bursty model-level schedules, '
                                 'expanded by the model to atomic-step schedules of the real code')


    # ---- engine E3, UNBUFFERED channel: the real go.h between OS threads, photon::mutex / condition_variable replaced by
    # instrumented stand-ins (harness/C09/e3_uchan.cpp); model side = `ustep` of C09_Unbuf.v driven by the same schedule
    # (coq/C09/C09_E3U.v).  Ties the unbuffered model to the code on MULTI-vCPU interleavings (the direct harness and E2 are
    # single-vCPU: the mutex is never held across a switch there).
    # scenarios enumerated COMPLETELY (every path of the model's transition system = every interleaving at the granularity
    # "one section under m_unbuf_mutex, cut at every m_closed access / cv wait"); (scripts, quick?)
    E3U_FULL = [('S | R | r', 1), ('S | R | R', 1), ('S | r | r', 1), ('s | R | r', 1), ('s | R | R', 1),
                ('S | S | R', 1), ('S | s | R', 1), ('s | s | R', 1), ('S | s | r', 1),
                ('S | R | C', 1), ('R | R | C', 1), ('S | S | C', 1), ('s | R | C', 1), ('S | r | C', 1), ('R | r | C', 0),
                ('T100 | R | A', 1), ('T100 | V100 | A', 1), ('S | V100 | A', 1), ('T300 | V100 | A A', 1), ('T100 | V300 | A A', 0),
                ('T100 | V100 | A A', 0), ('S | R', 1), ('s | R', 1), ('S | r', 1), ('S | C', 1), ('R | C', 1), ('T0 | R', 1), ('S | V0', 1),
                ('S S | R | r', 0), ('S S | R | R', 0), ('S | s | R R', 0), ('S | s | R r', 0), ('S | R R | C', 0), ('S | S | R R', 0)]
    # bigger scenarios: every enabled PREFIX of the given length (completed lowest-thread-first), sampled
    E3U_PREFIX = [('S | S | R | R', 7), ('S | S | R | r', 7), ('S | R | r | C', 7), ('S | s | R | R', 7), ('S S | R r | r', 9),
                  ('T100 | S | R | A', 8), ('S | V100 | r | A', 8), ('T100 | S | R | R | A', 7)]
    # coarse interleavings of 4-5 participants: every word of L bursts, a burst = one participant runs until it blocks / returns
    # (or: the timer of a timed participant fires); words with the same expansion are run once.  (scripts, L quick, L thorough)
    E3U_BURST = [('T100 | S | R | R | A', 7, 8), ('S | S | R | R', 7, 10), ('S | s | R | r', 7, 10), ('S | R | r | C', 7, 10),
                 ('T100 | S | V100 | R | A', 6, 7), ('S S | s | R R | r', 6, 9)]
    # seeded C09_3 (try_recv tests m_handoff_ready before taking the mutex): receiver asleep, sender deposits, try_recv
    # starts (sees the slot full), the receiver takes the value, try_recv gets the mutex
    E3U_WITNESSES = ['Ux | R | S | r | 000111112002', 'Ux | S | R | r | 111000002112']

    def gen_e3u(self, rng, tier, mexe, tmp):
        quick = tier == 'quick'
        D = '0123456789abcdefghijklmnopqrstuvwxyz'
        reqs, meta = [], []
        for sc, q in self.E3U_FULL:
            if quick and not q: continue
            reqs.append('UxN 60 %d | %s |' % (4000 if quick else 40000, sc)); meta.append((sc, None))
        for sc, d in self.E3U_PREFIX:
            reqs.append('UxN %d 200000 | %s |' % (d if quick else d + 2, sc)); meta.append((sc, 350 if quick else 6000))
        eo = run_cases(mexe, reqs, tmp, 'e3uenum', timeout=600)
        cs, nfull, npre, trunc = list(self.E3U_WITNESSES), 0, 0, []
        for (sc, cap), o in zip(meta, eo):
            o = (o or '').strip()
            if not o.startswith('ENUM'):
                raise RuntimeError('E3U enumeration failed on %s: %s' % (sc, o[:200]))
            ws = ['' if w == '-' else w for w in o.split()[1:]]
            if cap is None:
                nfull += len(ws)
                if len(ws) >= (4000 if quick else 40000): trunc.append(sc)      # enumeration cut at the limit: not complete
            else:
                if len(ws) > cap: ws = rng.sample(ws, cap)
                npre += len(ws)
            cs += ['Ux | %s | %s' % (sc, w) for w in ws]
        nburst = 0
        for sc, lq, lt in self.E3U_BURST:
            scr = [x.split() for x in sc.split('|')]; n = len(scr)
            letters = [D[p] * 9 for p in range(n)] + [D[p + n] for p in range(n) if any(o[0] in 'TV' for o in scr[p])]
            clock = [D[p] * 9 for p in range(n) if 'A' in scr[p]]
            words = [w for w in itertools.product(letters, repeat=(lq if quick else lt))
                     if all(a != b or a in clock for a, b in zip(w, w[1:]))]
            bc = ['Ux | %s | %s' % (sc, ''.join(w)) for w in words]
            bo = run_cases(mexe, bc, tmp, 'e3uburst', timeout=600)
            uniq = {}
            for c, o in zip(bc, bo):
                uniq.setdefault((o or '').split(' ')[0], c)
            nburst += len(uniq)
            cs += list(uniq.values())
        # random scripts x random bursty schedules, 2-4 participants (+ a clock participant for the timed ones)
        nrand = 1200 if quick else 30000
        for _ in range(nrand):
            k = rng.randint(2, 4)
            timed = rng.random() < 0.4
            scripts = []
            for p in range(k):
                role = rng.random()
                sp = ['S', 'S', 's'] + (['T100', 'T300', 'T0'] if timed else [])
                rp = ['R', 'R', 'r'] + (['V100', 'V300', 'V0'] if timed else [])
                pool = sp if role < 0.4 else (rp if role < 0.8 else ['S', 'R', 'C', 's', 'r'])
                scripts.append(' '.join(rng.choice(pool) for _ in range(rng.randint(1, 3))))
            n = k
            if timed:
                scripts.append(' '.join('A' for _ in range(rng.randint(1, 3)))); n = k + 1
            L = rng.randint(0, 40)
            ms = ''
            while len(ms) < L:
                t = rng.randrange(n)
                if timed and rng.random() < 0.15: ms += D[t + n]            # the timer of t fires (skipped unless enabled)
                else: ms += D[t] * rng.randint(1, 6)
            cs.append('Ux | %s | %s' % (' | '.join(scripts), ms[:L]))
        cs = list(dict.fromkeys(cs))
        return cs, dict(e3u_complete_enumeration_cases=nfull, e3u_prefix_cases=npre, e3u_burst_cases=nburst, e3u_random_cases=nrand, e3u_enumeration_truncated=trunc)

    @staticmethod
    def e3u_oracle(case, line):
        """property C09 evaluated on the implementation's outcome alone (case = harness case 'U <bound> | scripts | sched')"""
        if line.startswith('CRASH') or line == '':
            sig = {'CRASH(-11)': 'SIGSEGV: e.g. a value moved out of an EMPTY hand-off slot (null m_handoff_ptr)', 'CRASH(-6)': 'SIGABRT', 'CRASH(-8)': 'SIGFPE'}
            why = next((v for k, v in sig.items() if line.startswith(k)), line[:80] or 'no output')
            return 'the implementation crashed (%s)' % why
        m = re.match(r'^res=(\S*) blocked=(\S+) slot=(-?\d+) closed=(\d) sw=(-?\d+) rw=(-?\d+) seq=(\d+) scv=(\S+) rcv=(\S+) mtx=(\S+)$', line)
        if not m:
            return None                       # E3ERROR / malformed: left to the correspondence comparison
        secs = case.split('|'); scripts = [x.split() for x in secs[1:-1]]; n = len(scripts)
        res = [[int(x) for x in r.split(',') if x != ''] for r in m.group(1).split('|')]
        if len(res) != n: return 'malformed result line'
        blocked = [] if m.group(2) == '-' else [int(x) for x in m.group(2).split(',')]
        slot = int(m.group(3)); closed = m.group(4) == '1'
        close_done = closed                   # m_closed is only ever set, by close()
        ticks = sum(1 for p in range(n) for o in scripts[p][:len(res[p])] if o == 'A')
        started, sent_true, sent_false, kind_of, recvd = set(), [], [], {}, []
        for p in range(n):
            if len(res[p]) > len(scripts[p]): return 'participant %d produced more results than ops' % p
            if len(res[p]) < len(scripts[p]) and p not in blocked: return 'participant %d stopped early' % p
            k = 0
            for i, o in enumerate(scripts[p]):
                if o[0] in 'STs':
                    v = 1000 * p + k; k += 1; kind_of[v] = o
                    if i < len(res[p]):
                        started.add(v); (sent_true if res[p][i] == 1 else sent_false).append(v)
                    elif i == len(res[p]) and p in blocked: started.add(v)
            last = {}
            for i, r in enumerate(res[p]):
                o = scripts[p][i]
                if o[0] in 'RVr':
                    if r >= 0:
                        recvd.append(r)
                        s = r // 1000
                        if s in last and r <= last[s]: return 'receiver %d got values of sender %d out of order' % (p, s)
                        last[s] = r
                    elif r != -1: return 'receiver %d returned the value %d that nobody sent' % (p, r)
                    # false only on close() or timeout
                    if r < 0 and o[0] == 'R' and not close_done: return 'recv of participant %d returned false, no close(), no timeout' % p
                    if r < 0 and o[0] == 'V' and not close_done and int(o[1:]) != 0 and ticks * 200 < int(o[1:]):
                        return 'timed recv of participant %d returned false before its timeout, no close()' % p
                if o[0] == 'S' and r != 1 and not close_done: return 'send of participant %d returned false, no close(), no timeout' % p
                if o[0] == 'T' and r != 1 and not close_done and int(o[1:]) != 0 and ticks * 200 < int(o[1:]):
                    return 'timed send of participant %d returned false before its timeout, no close()' % p
        for v in recvd:
            if v not in started: return 'value %d was received but never sent' % v
            if recvd.count(v) > 1: return 'value %d delivered %d times' % (v, recvd.count(v))
        if slot != -1 and (slot not in started or slot in recvd):
            return 'the hand-off slot holds %d: %s' % (slot, 'already delivered' if slot in recvd else 'never sent')
        for v in sent_true:
            if v in recvd: continue
            if kind_of[v] == 's' and slot == v: continue          # try_send only deposits
            return '%s of value %d returned true but the value is never delivered (lost)' % ('try_send' if kind_of[v] == 's' else 'send', v)
        for v in sent_false:
            if v in recvd and not closed: return 'send of value %d returned false (timeout / no receiver) but the value was delivered' % v
            if v == slot and not closed: return 'send of value %d returned false but the value is in the hand-off slot' % v
        # release: nobody blocked at the end (nobody else can move, expired timers have fired) while a partner / value / close() exists
        bops = {p: scripts[p][len(res[p])] for p in blocked if len(res[p]) < len(scripts[p])}
        for p, o in bops.items():
            if o[0] not in 'STRV': return 'participant %d is blocked in the non-blocking operation %s' % (p, o)
            if closed: return 'participant %d (%s) still blocked on a closed channel' % (p, o)
        bs = [p for p, o in bops.items() if o[0] in 'ST']; br = [p for p, o in bops.items() if o[0] in 'RV']
        if br and slot != -1: return 'receiver %d blocked while value %d sits in the hand-off slot' % (br[0], slot)
        if bs and br: return 'sender %d and receiver %d both blocked at the end' % (bs[0], br[0])
        for p in bs:
            v = 1000 * p + sum(1 for o in scripts[p][:len(res[p])] if o[0] in 'STs')
            if v in recvd: return 'sender %d still blocked although its value %d was delivered' % (p, v)
        if m.group(10) != '-': return 'the channel mutex is still held (by %s) at the end' % m.group(10)
        if int(m.group(5)) != len(bs) or int(m.group(6)) != len(br):
            return 'waiter counters sw=%s rw=%s do not match the blocked senders %s / receivers %s' % (m.group(5), m.group(6), bs, br)
        return None

    def e3u_step(self, ctx):
        if not self.fx:
            print('[C09] note: E3 replay of the unbuffered channel skipped (the model adapter C09_E3U.v follows go.h WITH the F10 repair)')
            return [], dict(e3u_skipped='go.h without m_handoff_seq')
        mexe = getattr(self, 'e3_mexe', None)
        if not mexe:
            mexe, mlog = build_model_runner('C09e3', 'C09/C09_E3_Extract.v', 'ocaml/C09_e3_run.ml', 'C09_e3_model')
            if not mexe:
                return [dict(kind='proof', message='E3 model runner does not build: ' + mlog[-800:], case=None)], {}
        iexe, ilog = cxx_build('C09e3u', ['harness/C09/e3_uchan.cpp'], libphoton=True)
        if not iexe:
            return [dict(kind='build', message='E3 harness for the unbuffered go.h path does not build: ' + ilog[-1200:], case=None)], {}
        cases, cov = self.gen_e3u(ctx['rng'], ctx['tier'], mexe, ctx['tmp'])
        mo = run_cases(mexe, cases, ctx['tmp'], 'e3umodel', timeout=600)
        hc, exp = [], []
        for c, o in zip(cases, mo):
            o = (o or '').strip()
            if ' ' not in o or o.startswith('BADCASE'):
                return [dict(kind='correspondence', message='E3 model runner failed on a case: %s' % o[:200], case=c)], {}
            sched, summ = o.split(' ', 1)
            if sched == '-': sched = ''
            secs = c.split('|')
            hc.append('U %d |%s| %s' % (len(sched) + 10, '|'.join(secs[1:-1]), sched)); exp.append(summ)
        io = run_cases(iexe, hc, ctx['tmp'], 'e3uimpl', timeout=1200, env=self.impl_env())
        ovio, cvio, agree, nblocked, redo = [], [], 0, 0, []
        D = '0123456789abcdefghijklmnopqrstuvwxyz'
        def better(v, h): return not v or len(h) < len(v[0]['case'])
        for c, h, e, i in zip(cases, hc, exp, io):
            i = (i or '').strip()
            if re.match(r'^CRASH\((timeout|97)\)', i) or 'Resource temporarily unavailable' in i:
                continue                   # the machine was too slow for the E3 watchdog / out of threads: not a verdict
            msched = c.split('|')[-1].strip() or '-'
            if i == e:
                # lock-step agreement up to the model's quiescent end state: the outcome is final, evaluate the property on it
                agree += 1
                if 'blocked=-' not in i: nblocked += 1
                o = self.e3u_oracle(h, i)
                if o and better(ovio, h):
                    ovio = [dict(kind='oracle', message='E3 (unbuffered channel, OS threads; model-level schedule %s): %s' % (msched, o), case=h, model_out=e, impl_out=i)]
                continue
            if better(cvio, h):
                cvio = [dict(kind='correspondence', message='E3 (unbuffered channel, lock-step replay between OS threads): model and implementation disagree',
                             case=h, model_out=e, impl_out=i)]
            if i.startswith('CRASH'):
                if better(ovio, h):
                    ovio = [dict(kind='oracle', message='E3 (unbuffered channel, OS threads; model-level schedule %s): %s' % (msched, self.e3u_oracle(h, i)),
                                 case=h, model_out=e, impl_out=i)]
            elif len(redo) < 400:
                redo.append((c, h, e))
        if redo:
            # the implementation left the model's path: its run was cut by the step bound, not finished.  Replay the same
            # schedule followed by a fair tail (every participant in turn, with and without the timer flavor) so that the
            # implementation's OWN final outcome is judged by the oracle
            rc = []
            for c, h, e in redo:
                secs = h.split('|'); n = len(secs) - 2; sched = secs[-1].strip()
                sched += ''.join(D[p] + D[p + n] for p in range(n)) * 60 + ''.join(D[p + 2 * n] for p in range(n))   # .. then dismiss the sleepers
                rc.append('U %d |%s| %s' % (len(sched) + 10, '|'.join(secs[1:-1]), sched))
            ro = run_cases(iexe, rc, ctx['tmp'], 'e3uredo', timeout=1200, env=self.impl_env())
            best = None
            for (c, h, e), r, i in zip(redo, rc, ro):
                i = (i or '').strip()
                if re.match(r'^CRASH\((timeout|97)\)', i) or 'Resource temporarily unavailable' in i: continue
                o = self.e3u_oracle(r, i)
                if o and (best is None or len(r) < len(best[1])): best = (c, r, e, i, o, h)
            if best and better(ovio, best[1]):
                c, r, e, i, o, h = best
                # shortest fair tail that gives the same final outcome (readability of the reported schedule only)
                secs = h.split('|'); n = len(secs) - 2
                alts = []
                for k in (1, 2, 3, 5, 8, 13, 21, 34):
                    sched = secs[-1].strip() + ''.join(D[p] + D[p + n] for p in range(n)) * k + ''.join(D[p + 2 * n] for p in range(n))
                    alts.append('U %d |%s| %s' % (len(sched) + 2 * n, '|'.join(secs[1:-1]), sched))
                ao = run_cases(iexe, alts, ctx['tmp'], 'e3ushrink', timeout=600, env=self.impl_env())
                for a, x in zip(alts, ao):
                    if (x or '').strip() == i: r = a; break
                ovio = [dict(kind='oracle', message='E3 (unbuffered channel, OS threads; model-level schedule %s, then every participant in turn until '
                             'nobody can move): %s' % (c.split('|')[-1].strip() or '-', o), case=r, model_out=e, impl_out=i)]
        cov.update(e3u_cases=len(cases), e3u_outcomes_agreeing=agree, e3u_cases_ending_blocked=nblocked,
                   e3u_rule='unbuffered go::channel between OS threads (mutex/condition_variable stand-ins with every operation a point): '
                            'COMPLETE enumeration of all model-level interleavings of the 2-3 participant scenarios (1 sender + 2 receivers incl. '
                            'try_recv, 2 senders incl. try_send + 1 receiver, close vs waiters, timed ops with a clock participant), all enabled '
                            'prefixes (sampled) and all run-until-blocked burst orders for the 4-6 participant ones, random bursty schedules with timer firings')
        return ovio + cvio, cov

    def extra(self, ctx):
        if not getattr(self, 'fx', has_fix()):
            print('KNOWN-FINDING: property=C09 F10 unbuffered channel: a second sender overwrites the hand-off slot '
                  '(both sends true, one value lost); repair delivered as repo_patches/C09-fix-unbuffered-overwrite.diff')
        if ctx['tier'] not in ('quick', 'thorough'):
            return []
        vio = []
        runner = e2lib.make_runner('C09e2', ['ocaml/E2_lib.ml', 'ocaml/C09_e2_run.ml'])
        mexe, mlog = build_model_runner('C09e2', 'C09/C09_E2_Extract.v', runner, 'C09_e2_model')
        if not mexe:
            return [dict(kind='proof', message='E2 model runner does not build: ' + mlog[-800:], case=None)]
        try:
            iexe = e2lib.build_impl('C09e2', ['harness/C09/ops_chan.cpp'])
        except Exception as ex:
            return [dict(kind='build', message='E2 harness for go.h does not build: %s' % str(ex)[-1200:], case=None)]
        cases = self.gen_e2(ctx['rng'], 160 if ctx['tier'] == 'quick' else 3000)
        mo = run_cases(mexe, cases, ctx['tmp'], 'e2model', timeout=1200)
        env = self.impl_env(); env['E2_TIMEOUT_MS'] = '60000'
        io = run_cases(iexe, cases, ctx['tmp'], 'e2impl', timeout=1800, env=env)
        agree = 0
        skipped = 0
        for c, m, i in zip(cases, mo, io):
            m, i = (m or '').strip(), (i or '').strip()
            if re.match(r'^(HANG|CRASH\(timeout\)|NOOUTPUT|PIPEFAIL|INITFAIL)', i):
                skipped += 1          # the machine was too slow for the harness watchdog: not a verdict
                continue
            o = self.e2_oracle(c, i)
            if o and not self.e2_known(c):
                vio.append(dict(kind='oracle', message='E2: ' + o, case=c, model_out=m, impl_out=i)); break
            if m != i:
                vio.append(dict(kind='correspondence', message='E2 (timed programs): model and implementation disagree', case=c, model_out=m, impl_out=i)); break
            agree += 1
        e3v, e3cov = self.e3_step(ctx)
        vio += e3v
        e3uv, e3ucov = self.e3u_step(ctx)
        vio += e3uv
        self.extra_coverage = dict(e3=e3cov, e3u=e3ucov, e2_cases=len(cases), e2_traces_agreeing=agree, e2_skipped_watchdog=skipped,
                                   e2_rule='random timed programs (2-4 threads, capacities 0-3, Timeout in {never,0,100..500}, usleep, close) + F10 witness with timeouts')
        return vio

if __name__ == '__main__':
    sys.exit(Check().main(sys.argv[1:]))
