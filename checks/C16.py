# C16 — file adaptors (aligned / linear / stripe): model coq/C16, harness harness/C16, engine E1/E5
# (adaptor compiled from /repo's working tree with ASan, stacked on a recording in-memory IFile)
import re
from vlib import *

PRE = 0xCC          # harness prefill of read buffers


def unhex(s):
    return bytearray() if s == '-' else bytearray.fromhex(s)


def hexs(b):
    return '-' if len(b) == 0 else bytes(b).hex()


class Case:
    """parsed case line (see harness/C16/harness.cpp for the format)"""
    def __init__(self, line):
        t = line.split(' ')
        self.kind = t[0]
        k = 1
        self.p = 0; self.am = False
        if self.kind == 'A':
            self.p = int(t[1]); self.am = t[2] == '1'; k = 3
        elif self.kind in ('LF', 'ST'):
            self.p = int(t[1]); k = 3
        elif self.kind == 'LV':
            k = 2
        self.files = [unhex(x) for x in t[k].split(',')]
        self.ops = []
        for o in t[k + 1:]:
            f = o.split(':')
            if f[0] == 'R': self.ops.append(('R', int(f[1]), [(int(f[2]), int(f[3]))]))
            elif f[0] == 'W': self.ops.append(('W', int(f[1]), [(int(f[2]), unhex(f[3]))]))
            elif f[0] == 'RV':
                items = [x.split('/') for x in f[2].split(',')] if len(f) > 2 and f[2] else []
                self.ops.append(('RV', int(f[1]), [(int(m), int(l)) for m, l in items]))
            elif f[0] == 'WV':
                items = [x.split('/') for x in f[2].split(',')] if len(f) > 2 and f[2] else []
                self.ops.append(('WV', int(f[1]), [(int(m), unhex(h)) for m, h in items]))
            elif f[0] == 'F': self.ops.append(('F', 0, []))
            elif f[0] == 'T': self.ops.append(('T', int(f[1]), []))

    # logical content of the composite, computed from the underlay files (independent of the adaptor code)
    def logical(self, files):
        if self.kind == 'A': return bytearray(files[0])
        if self.kind == 'LF':
            out = bytearray()
            for f in files: out += f[:self.p]
            return out
        if self.kind == 'LV':
            out = bytearray()
            for f in files: out += f
            return out
        if self.kind == 'ST':
            out = bytearray(); n = len(files); s = self.p
            per = len(files[0])
            for blk in range(per // s):
                for i in range(n): out += files[i][blk * s:(blk + 1) * s]
            return out

    def precondition(self):
        """None if the configuration is one the property talks about, else why not"""
        if self.kind == 'A':
            if self.p <= 0 or self.p & (self.p - 1): return 'alignment is not a power of two'
        if self.kind == 'LF':
            if self.p <= 0: return 'unit size 0'
            if any(len(f) != self.p for f in self.files): return 'a sub-file is not exactly one unit long'
        if self.kind == 'LV':
            if any(len(f) == 0 for f in self.files): return 'an empty sub-file (key points not strictly ascending)'
        if self.kind == 'ST':
            s = self.p
            if s <= 0 or s & (s - 1): return 'stripe size is not a power of two'
            if any(len(f) == 0 or len(f) % s or len(f) != len(self.files[0]) for f in self.files): return 'sub-files are not equal non-zero multiples of the stripe size'
        return None


class Check(DiffCheck):
    id = 'C16'
    coq_dirs = ['Base', 'C15', 'C16']
    coq_targets = ['C16/C16_Lists.vo', 'C16/C16_AlignedProofs.vo', 'C16/C16_AlignedProofs2.vo', 'C16/C16_Proofs.vo',
                   'C16/C16_XGeneric.vo', 'C16/C16_XProofs.vo', 'C16/C16_XInst.vo', 'C16/C16_XOps.vo',
                   'C16/C16_XPow2.vo', 'C16/C16_XZero.vo', 'C16/C16_XZeroInst.vo', 'C16/C16_XVar.vo', 'C16/C16_XFinal.vo', 'C16/C16_XTrace.vo']
    properties_v = 'C16/C16_Properties.v'
    extract_v = 'C16/C16_Extract.v'
    runner_ml = 'ocaml/C16_run.ml'
    model_module = 'C16_model'
    rule = ('cases: corpus; aligned adaptor: every (offset, length) with both <= 3*alignment for alignment 4 (and 8 with align_memory, '
            'aligned and mis-aligned buffers) over file sizes around multiples of the alignment, for pread/pwrite/preadv/pwritev with '
            'several segmentations; alignment 512 at offsets/lengths/sizes around multiples of 512; linear (unit 4, 8, 12), variable '
            'linear and stripe (4, 8; 2-4 sub-files) composites: every (offset, length) over the whole composite and one past it; '
            'PRNG operation sequences (3-12 ops) on every adaptor kind. non-trivial = some operation is un-aligned on an end, crosses a '
            'sub-file / stripe boundary, or runs past end of file')
    assumptions = ['underlay files are well behaved (no short I/O other than at EOF, no errors)',
                   'requests starting at/after EOF are outside the property (modelled and compared, not judged by the oracle)',
                   'offsets/lengths in the correspondence run are < 4096 (the model uses unary nat for list positions)']
    partial_note = ('proved: aligned adaptor (all four operations, every alignment 2^k, requests aligned, sequences); '
                    'FixedSizeLinearFile (both splitters), VariableSizeLinearFile and StripeFile incl. VirtualFile::piov_copy and '
                    'sequences, for requests of every length (zero included) starting inside the composite, logical content of the '
                    'linear files = concat files, factories\' own is_power_of_2 test as hypothesis; the sub-file requests of a composite tile '
                    'the clipped range (linear_trace, linear_vi_trace, stripe_trace). Outside the property (proved as such: '
                    'composite_out_of_range): requests starting at/after the end of a composite are refused with EIO')
    trusted_base = ['recording in-memory IFile of harness/C16/harness.cpp is the well-behaved plain file',
                    'ASan malloc_fill_byte=0xbe stands for uninitialised bounce-buffer content']

    def build_impl(self):
        R = REPO
        exe, log = cxx_build(self.id, ['harness/C16/harness.cpp', R + '/fs/aligned-file.cpp', R + '/fs/xfile.cpp',
                                       R + '/fs/virtual-file.cpp', R + '/common/iovector.cpp'],
                             extra='-O2 -fno-sanitize=undefined', asan=True, libphoton=True)
        if not exe: raise RuntimeError(log)
        return exe

    def impl_env(self):
        e = dict(os.environ)
        e['ASAN_OPTIONS'] = 'detect_leaks=0:abort_on_error=0:exitcode=99:allocator_may_return_null=1:malloc_fill_byte=190:max_malloc_fill_size=65536:quarantine_size_mb=1'
        return e

    # ------------------------------------------------------------------ generators
    @staticmethod
    def _content(rng, n):
        return bytearray(rng.randrange(0, 0x80) for _ in range(n))

    @staticmethod
    def _segment(rng, n, mises, maxseg=4, zero_ok=True):
        """cut n bytes into 1..maxseg pieces (zero-length pieces allowed); returns [(mis, len)]"""
        k = rng.randrange(1, maxseg + 1)
        cuts = sorted(rng.randrange(0, n + 1) for _ in range(k - 1))
        lens = [b - a for a, b in zip([0] + cuts, cuts + [n])]
        if not zero_ok: lens = [l for l in lens if l > 0] or [n]
        return [(rng.choice(mises), l) for l in lens]

    def _op(self, rng, kind, off, n, mises, segs=None):
        """format one op of `kind` at offset `off`, total length n"""
        if kind == 'R': return 'R:%d:%d:%d' % (off, rng.choice(mises), n)
        if kind == 'W': return 'W:%d:%d:%s' % (off, rng.choice(mises), hexs(self._content(rng, n)))
        if segs is None: segs = self._segment(rng, n, mises)
        if kind == 'RV': return 'RV:%d:%s' % (off, ','.join('%d/%d' % (m, l) for m, l in segs))
        if kind == 'WV': return 'WV:%d:%s' % (off, ','.join('%d/%s' % (m, hexs(self._content(rng, l))) for m, l in segs))

    def gen_cases(self, tier, rng):
        cs = []
        cp = os.path.join(VERIF, 'replay', 'corpus', 'C16.cases')
        if os.path.exists(cp):
            cs += [l.strip() for l in open(cp) if l.strip() and not l.startswith('#')]
        thorough = tier != 'quick'
        # ---- aligned adaptor, exhaustive small
        def aligned_sweep(A, am, sizes, mises, lim, kinds):
            for sz in sizes:
                base = hexs(self._content(rng, sz))
                for off in range(lim + 1):
                    for n in range(lim + 1):
                        for kd in kinds:
                            if kd in ('R', 'W'):
                                for m in mises:
                                    cs.append('A %d %d %s %s' % (A, am, base, self._op(rng, kd, off, n, [m])))
                            else:
                                cs.append('A %d %d %s %s' % (A, am, base, self._op(rng, kd, off, n, mises)))
        aligned_sweep(4, 0, [0, 1, 3, 4, 5, 8, 10, 12, 13] + ([2, 7, 9, 16, 17] if thorough else []), [0], 12, ['R', 'W', 'RV', 'WV'])
        aligned_sweep(8, 1, [0, 5, 8, 13, 16, 24, 27] + ([1, 7, 9, 17, 32] if thorough else []), [0, 4] + ([1, 8] if thorough else []), 24 if thorough else 13, ['R', 'W', 'RV', 'WV'])
        aligned_sweep(4, 1, [5, 8], [0, 2], 9, ['R', 'W', 'RV', 'WV'])         # alignment < sizeof(void*): finding F30 (fixed)
        aligned_sweep(8, 0, [0, 7, 8, 20], [0, 3], 17 if thorough else 12, ['R', 'W'])
        aligned_sweep(1, 1, [0, 3], [0, 1], 4, ['R', 'W', 'RV', 'WV'])
        aligned_sweep(2, 0, [0, 3, 4], [1], 5, ['R', 'W', 'RV', 'WV'])
        # ---- alignment 512 around multiples
        pts = [0, 1, 511, 512, 513, 1023, 1024, 1025]
        lens = [1, 511, 512, 513, 1024, 1025, 1536]
        for sz in [0, 1, 511, 512, 513, 1024, 1300, 1536, 2048] + ([700, 1535, 1537] if thorough else []):
            base = hexs(self._content(rng, sz))
            for am in (0, 1):
                for off in pts:
                    for n in lens:
                        for kd in ('R', 'W', 'RV', 'WV'):
                            if not thorough and rng.random() < 0.5: continue
                            cs.append('A 512 %d %s %s' % (am, base, self._op(rng, kd, off, n, [0, 8, 512, 1])))
        # ---- composites, exhaustive over the whole range and a little beyond
        def comp_sweep(head, files, total, kinds=('R', 'W', 'RV', 'WV')):
            for off in range(-1, total + 2):
                for n in range(0, total + 3):
                    for kd in kinds:
                        cs.append('%s %s %s' % (head, ','.join(hexs(f) for f in files), self._op(rng, kd, off, n, [0])))
        def mk(sizes): return [self._content(rng, s) for s in sizes]
        comp_sweep('LF 4 3', mk([4, 4, 4]), 12)
        comp_sweep('LF 8 2', mk([8, 8]), 16)
        comp_sweep('LF 12 2', mk([12, 12]), 24, ('R', 'W') if not thorough else ('R', 'W', 'RV', 'WV'))
        comp_sweep('LF 4 4', mk([4, 4, 4, 4]), 16, ('R', 'W'))
        comp_sweep('LF 3 3', mk([3, 3, 3]), 9)
        comp_sweep('LF 1 2', mk([1, 1]), 2)
        comp_sweep('LF 4 2', mk([2, 4]), 8, ('R', 'W'))                     # short sub-file: precondition class
        comp_sweep('LF 4 2', mk([6, 4]), 8, ('R', 'W'))                     # long sub-file
        for sizes in ([3, 1, 5], [4, 4], [1, 1, 1, 1], [2, 0, 3], [7], [5, 2]):
            comp_sweep('LV %d' % len(sizes), mk(sizes), sum(sizes))
        comp_sweep('ST 4 2', mk([8, 8]), 16)
        comp_sweep('ST 4 3', mk([4, 4, 4]), 12)
        comp_sweep('ST 8 2', mk([16, 16]), 32, ('R', 'W'))
        comp_sweep('ST 4 4', mk([8, 8, 8, 8]), 32, ('R', 'W') if not thorough else ('R', 'W', 'RV', 'WV'))
        comp_sweep('ST 1 2', mk([3, 3]), 6)
        comp_sweep('ST 2 1', mk([6]), 6, ('R', 'W'))
        for head, sizes in (('ST 4 2', [8, 4]), ('ST 4 2', [6, 6]), ('ST 3 2', [3, 3]), ('ST 4 2', [0, 0]), ('LF 0 2', [1, 1])):
            cs.append('%s %s R:0:0:4 W:1:0:0102' % (head, ','.join(hexs(f) for f in mk(sizes))))
        for head, fl in (('A 4 0', '0001020304'), ('A 8 1', '0001020304'), ('LF 4 2', '00010203,04050607'), ('LV 2', '0001,020304'), ('ST 4 2', '00010203,04050607')):
            cs.append('%s %s RV:1: WV:1: RV:1:0/0 WV:1:0/- RV:1:0/0,0/0 WV:2:0/-,0/- R:0:0:8' % (head, fl))
        # ---- random operation sequences
        nseq = 1500 if not thorough else 30000
        for _ in range(nseq):
            cs.append(self._random_seq(rng))
        return list(dict.fromkeys(cs))

    def _random_seq(self, rng):
        r = rng.random()
        if r < 0.5:
            A = rng.choice([4, 4, 8, 8, 512, 2, 16])
            am = rng.choice([0, 1]) if A >= 8 else (1 if rng.random() < 0.03 else 0)
            sz = rng.choice([0, 1, A - 1, A, A + 1, 2 * A, 2 * A + rng.randrange(A), 3 * A, rng.randrange(0, 4 * A + 1)])
            head = 'A %d %d' % (A, am)
            files = [self._content(rng, sz)]
            mises = [0, A, 1, A // 2, 8]
            step = A
            fixed = False
        else:
            k = rng.choice(['LF', 'LF', 'LV', 'ST', 'ST'])
            n = rng.randrange(1, 5) if rng.random() < 0.2 else rng.randrange(2, 5)
            if k == 'LF':
                u = rng.choice([4, 8, 12, 4, 8, 12, 1, 3, 5, 16])
                head = 'LF %d %d' % (u, n); files = [self._content(rng, u) for _ in range(n)]; step = u
            elif k == 'LV':
                sizes = [rng.choice([1, 2, 3, 4, 5, 8, 12]) for _ in range(n)]
                head = 'LV %d' % n; files = [self._content(rng, s) for s in sizes]; step = 4
            else:
                s = rng.choice([4, 8, 4, 8, 2, 1, 16]); blocks = rng.randrange(1, 4)
                head = 'ST %d %d' % (s, n); files = [self._content(rng, s * blocks) for _ in range(n)]; step = s
            sz = sum(len(f) for f in files)
            mises = [0]
            fixed = True
        ops = []
        cur = sz
        for _ in range(rng.randrange(3, 13)):
            kd = rng.choice(['R', 'W', 'RV', 'WV', 'R', 'W', 'RV', 'WV', 'F'] + ([] if fixed else ['T']))
            if kd == 'F': ops.append('F'); continue
            if kd == 'T':
                cur = max(0, cur + rng.choice([-step, -1, 1, step, -cur, 0, step + 1, -(step // 2 + 1)]))
                ops.append('T:%d' % cur); continue
            m = rng.randrange(6)
            blk = rng.randrange(0, max(1, cur // step + 1)) * step
            if m == 0:   off = blk; n_ = rng.randrange(1, 3) * step                     # fully aligned
            elif m == 1: off = blk + rng.randrange(step); n_ = rng.randrange(0, 3 * step + 2)
            elif m == 2: off = rng.randrange(0, cur + 1); n_ = rng.randrange(0, 2 * step + 2)
            elif m == 3: off = max(0, cur - rng.randrange(0, step + 2)); n_ = rng.randrange(0, 2 * step + 2)   # around EOF
            elif m == 4: off = rng.randrange(0, cur + 1); n_ = max(0, blk + step - off) if rng.random() < 0.5 else rng.randrange(0, cur + 2)
            else:        off = cur + rng.randrange(0, step + 2); n_ = rng.randrange(0, step + 2)            # at/after EOF
            if fixed and rng.random() < 0.02: off = -1                 # negative offsets: only the composites check for them
            n_ = min(n_, 2100)
            ops.append(self._op(rng, kd, off, n_, mises))
            if not fixed and kd in ('W', 'WV') and n_ > 0 and off >= 0: cur = max(cur, off + n_)
        return '%s %s %s' % (head, ','.join(hexs(f) for f in files), ' '.join(ops))

    # ------------------------------------------------------------------ classification
    def _interesting(self, c):
        """per op: is it un-aligned on an end / crossing a boundary / past EOF"""
        sz = len(c.logical(c.files)) if not c.precondition() else sum(len(f) for f in c.files)
        step = c.p if c.kind in ('A', 'LF', 'ST') else 0
        res = []
        for (k, off, segs) in c.ops:
            if k in ('F', 'T'): res.append(None); continue
            n = sum((l if isinstance(l, int) else len(l)) for _, l in segs)
            tags = []
            if n > 0 and off >= 0:
                if step:
                    if off % step or (off + n) % step: tags.append('unaligned')
                    if off // step != (off + n - 1) // step: tags.append('cross')
                else:
                    tags.append('cross' if n > 1 else 'unaligned')
                if off + n > sz: tags.append('pastEOF')
                if off >= sz: tags.append('startEOF')
            res.append(tags)
        return res

    def nontrivial(self, case):
        c = Case(case)
        return any(t and ('unaligned' in t or 'cross' in t or 'pastEOF' in t) for t in self._interesting(c))

    def category(self, case):
        c = Case(case)
        kinds = ''.join(sorted(set(k for k, _, _ in c.ops)))
        return '%s%s:%s:%s' % (c.kind, (str(c.p) + ('m' if c.am else '')) if c.kind == 'A' else '', 'seq' if len(c.ops) > 1 else 'one', kinds if len(c.ops) == 1 else 'mix')

    def known_class(self, case):
        c = Case(case)
        if c.precondition(): return 'precondition'
        return None

    # ------------------------------------------------------------------ the property, on the implementation's output
    def oracle(self, case, out):
        if out.startswith('CRASH'): return 'implementation crashed: ' + out
        c = Case(case)
        parts = out.split(' ; ')
        m = re.match(r'init=(ok|NULL)\[(.*)\]$', parts[0])
        if not m: return 'unparsable output: %r' % out[:200]
        pre = c.precondition()
        if m.group(1) == 'NULL':
            return None if pre else 'factory refused a valid configuration'
        if len(parts) != len(c.ops) + 2: return 'unparsable output (%d parts for %d ops)' % (len(parts), len(c.ops))
        if pre: return None
        ref = c.logical(c.files)
        fixed = c.kind != 'A'
        for idx, ((k, off, segs), p) in enumerate(zip(c.ops, parts[1:-1])):
            mm = re.match(r'(-?\d+),(\d+),([^,]*),\[(.*)\],(.*)$', p)
            if not mm: return 'unparsable op output %r' % p[:200]
            ret, err, bufs, trace, state = int(mm.group(1)), int(mm.group(2)), mm.group(3), mm.group(4), mm.group(5)
            where = 'op %d (%s@%d)' % (idx, k, off)
            if '!' in bufs: return '%s: %s' % (where, bufs[bufs.index('!'):])
            # every request issued to the underlay is aligned
            if c.kind == 'A':
                for ev in [e for e in trace.split(',') if e]:
                    fi, opn, eo, el, mem = ev.split('.')
                    if opn in ('pread', 'pwrite', 'preadv', 'pwritev'):
                        if int(eo) % c.p or int(el) % c.p: return '%s: un-aligned underlay request %s (alignment %d)' % (where, ev, c.p)
                        if c.am and mem != '1': return '%s: underlay request %s with un-aligned memory' % (where, ev)
            size = len(ref)
            files_now = [unhex(x) for x in state.split(',')] if state != '=' else None
            if k in ('R', 'RV'):
                lens = [l for _, l in segs]; n = sum(lens)
                if 0 <= off < size:
                    exp = ref[off:off + n]
                    flat = bytearray(exp) + bytearray([PRE] * (n - len(exp)))
                    expb = []; q = 0
                    for l in lens: expb.append(flat[q:q + l]); q += l
                    expbufs = '/'.join(hexs(b) for b in expb) if k == 'RV' and expb else (hexs(flat) if k == 'R' else '-')
                    if ret != len(exp): return '%s: returned %d, a plain file of size %d returns %d' % (where, ret, size, len(exp))
                    if bufs != expbufs: return '%s: data read %s, plain file gives %s' % (where, bufs, expbufs)
            elif k in ('W', 'WV'):
                data = bytearray()
                for _, d in segs: data += d
                if 0 <= off < size:
                    w = data[:size - off] if fixed else data
                    if ret != len(w): return '%s: returned %d, a plain file of size %d writes %d' % (where, ret, size, len(w))
                    if len(w):
                        if off + len(w) > len(ref): ref += bytearray(off + len(w) - len(ref))
                        ref[off:off + len(w)] = w
                    got = c.logical(files_now)
                    if got != ref: return '%s: content after the write is %s, plain file has %s' % (where, hexs(got), hexs(ref))
                else:
                    ref = c.logical(files_now)        # outside the statement: re-synchronise the reference
            elif k == 'F':
                if ret != size: return '%s: fstat size %d, plain file has %d' % (where, ret, size)
            elif k == 'T':
                if not fixed:
                    if ret != 0: return '%s: ftruncate returned %d' % (where, ret)
                    ref = ref[:off] + bytearray(max(0, off - len(ref)))
                    got = c.logical(files_now)
                    if got != ref: return '%s: content after ftruncate is %s, plain file has %s' % (where, hexs(got), hexs(ref))
        mm = re.match(r'final=(.*)$', parts[-1])
        if not mm: return 'unparsable final state'
        got = c.logical([unhex(x) for x in mm.group(1).split(',')])
        if got != ref: return 'final content %s, plain file has %s' % (hexs(got), hexs(ref))
        return None

    def neighbours(self, case, rng):
        """single-op variants of every op of the case at nearby offsets/lengths, from the initial state"""
        c = Case(case)
        t = case.split(' ')
        k = {'A': 4, 'LF': 4, 'ST': 4, 'LV': 3}[c.kind]
        head = ' '.join(t[:k])
        out = []
        for (kd, off, segs) in c.ops:
            if kd in ('F', 'T'): continue
            n = sum((l if isinstance(l, int) else len(l)) for _, l in segs)
            for do in (-1, 0, 1):
                for dn in (-1, 0, 1):
                    if off + do >= 0 and n + dn >= 0:
                        out.append('%s %s' % (head, self._op(rng, kd, off + do, n + dn, [0])))
        # every prefix of the sequence
        for j in range(1, len(t) - k):
            out.append(' '.join(t[:k + j]))
        return out
