# C06 — rwlock / qrwlock: writers exclusive, readers shared, failed lock is a no-op.
# Engines: E2 (`P` cases: reader/writer programs on the real scheduler under the virtual clock — this is the tie of the
# BLOCKING paths rwlock::lock/unlock and qrwlock::lock(mode, timeout)/unlock: do_lock slow path, cv_unique/cv_shared, try_wake) and
# E3 (`Q` cases: qrwlock's state word + spinlock, atomic-step schedules between OS threads; try_lock/unlock only;
# `B` cases: the BLOCKING path lock(mode, timeout)/try_lock/unlock between OS threads with instrumented stand-ins of the scheduler entry
# points behind cv_unique/cv_shared and a harness clock — harness/C06/qrw_e3b.cpp <-> coq/C06/C06_QE3B.v, notes/C06.md addendum 2).
# Model: coq/C06 (fine-grained step functions; C06_E2.v runs them cooperatively over coq/Sched).
import sys, stat
from vlib import *
sys.path.insert(0, os.path.join(VERIF, 'harness', 'E2'))
sys.path.insert(0, os.path.join(VERIF, 'harness', 'C06'))
import e2lib

MAX64 = (1 << 64) - 1
RLOCK, WLOCK = 4096, 8192
ETIMEDOUT, EINVAL, ENOLCK = 110, 22, 37
SKIPPED = -2


def u64(x):
    return x + (1 << 64) if x < 0 else x


# ------------------------------------------------------------------ generator -----
def gen_prog(rng, kind=None, big=False):
    kind = kind or rng.choice(['rw', 'q'])
    nobj = 1 if rng.random() < .8 else 2
    decls = [('rwlock' if kind == 'rw' else 'qrwlock', []) for _ in range(nobj)]
    if rng.random() < .05:
        decls.append(('qrwlock' if kind == 'rw' else 'rwlock', []))
    pre = 'rw_' if kind == 'rw' else 'q_'
    n = rng.randint(2, 6)
    hold = rng.choice([[100], [100, 200], [100, 200, 300], [50, 100, 150], [10, 20, 30]])
    unit = hold[0]
    tmos = [-1, -1, 0, unit // 2, unit, unit + unit // 2, 2 * unit, 3 * unit, 10 * unit]
    errs = [4, 4, 11, 125]
    wbias = rng.choice([.2, .35, .5, .7])

    def lock_section(k):
        i = rng.randrange(len(decls))
        r = rng.random()
        mode = WLOCK if r < wbias else RLOCK
        if rng.random() < .03: mode = rng.choice([0, RLOCK | WLOCK, 1, -1])
        ops = []
        if kind == 'q' and rng.random() < .2:
            ops.append((pre + 'try', [i, mode]))
        else:
            ops.append((pre + 'lock', [i, mode, rng.choice(tmos)]))
        h = rng.random()
        if h < .5: ops.append(('usleep', [rng.choice(hold)]))
        elif h < .7: ops.append(('yield', []))
        elif h < .8: ops.append((pre + 'state', [i]))
        elif h < .87:   # nested read lock / second object
            ops.append((pre + 'lock', [rng.randrange(len(decls)), RLOCK, rng.choice(tmos)]))
            ops.append(('usleep', [rng.choice(hold)]))
            ops.append((pre + 'unlock', [ops[-2][1][0]]))
        ops.append((pre + 'unlock', [i]))
        return ops

    def filler(k):
        r = rng.random()
        if r < .35: return [('usleep', [rng.choice([unit // 2, unit, unit, 2 * unit])])]
        if r < .5: return [('yield', [])]
        if r < .85: return [('interrupt', [rng.randrange(n), rng.choice(errs)])]
        if r < .93: return [(pre + 'state', [rng.randrange(len(decls))])]
        return [(pre + 'waiters', [rng.randrange(len(decls))])]

    threads = []
    for k in range(n):
        ops = []
        if k > 0 and rng.random() < .5:
            ops.append(('usleep', [rng.choice([unit // 2, unit, unit + unit // 2])]))
        for _ in range(rng.randint(1, 3) if not big else rng.randint(3, 7)):
            if rng.random() < .75: ops += lock_section(k)
            else: ops += filler(k)
        threads.append(ops)
    style = rng.random()
    if style < .12:
        # one dedicated interrupter aiming at the others around the hold times
        threads[n - 1] = []
        for _ in range(rng.randint(2, 6)):
            threads[n - 1] += [('usleep', [rng.choice([unit // 2, unit])]), ('interrupt', [rng.randrange(n - 1), rng.choice(errs)])]
    elif style < .2:
        # timeouts that land exactly on the hold-time boundaries
        for k in range(n):
            threads[k] = [(o[0], o[1][:2] + [rng.choice([unit, 2 * unit])]) if o[0].endswith('_lock') else o for o in threads[k]]
    creates = [('create', [k, 0]) for k in range(1, n)]
    rng.shuffle(creates)
    threads[0] = creates + threads[0]
    return e2lib.fmt_case(decls, threads)


def gen_scn(rng, kind=None):
    """STRUCTURED programs for the BLOCKING path (do_lock slow path / cv_unique / cv_shared / try_wake of qrwlock, cvar of
    rwlock): a conductor T0 takes the lock and goes through 2-4 consecutive sections whose unlock is followed by the next
    lock WITHOUT a yield (downgrade W->R, upgrade R->W, re-take), by a yield, or by a short sleep; the other threads are
    waiters (readers park on cv_shared, writers on cv_unique) whose timeouts are placed relative to the conductor's
    timeline: inside a later hold (the waiter is woken, loses against the conductor's re-take, waits again and THEN times
    out), exactly on an unlock instant, or never; interrupts are aimed at parked waiters from inside the holds; probes of
    the state word and of the cv queues after each unlock.  Seeded change C06_1 (last reader leaving wakes only
    cv_unique) needs exactly: W held; a timed writer and a reader parked; downgrade without yield; the writer gives up
    while the lock is read-held; last reader unlocks."""
    kind = kind or ('q' if rng.random() < .75 else 'rw')
    pre = 'q_' if kind == 'q' else 'rw_'
    decls = [('qrwlock' if kind == 'q' else 'rwlock', [])]
    unit = rng.choice([100, 100, 40, 1000])
    nsec = rng.randint(2, 4)
    nw = rng.randint(2, 5)
    n = nw + 1
    errs = [4, 4, 11, 125]
    # conductor: modes of its sections; first one mostly W (so that readers park too)
    modes = [WLOCK if rng.random() < .8 else RLOCK]
    for _ in range(nsec - 1):
        modes.append(RLOCK if rng.random() < .6 else WLOCK)
    holds = [unit * rng.choice([1, 2, 3, 4]) for _ in range(nsec)]
    gaps = [rng.choice(['none', 'none', 'none', 'yield', 'sleep']) for _ in range(nsec - 1)]
    # focus (1 in 3): write hold, DOWNGRADE without a yield, then only read sections; waiter 1 is a writer that gives up
    # during the read hold (timeout inside it, or no timeout + an interrupt from the conductor), waiter 2 a patient reader
    focus = rng.random() < .33
    if focus:
        modes = [WLOCK] + [RLOCK] * (nsec - 1)
        gaps[0] = 'none'
    # timeline of the conductor (virtual time relative to its first lock; a gap 'sleep' lasts unit/2)
    t = 0
    unlock_at = []
    for j in range(nsec):
        t += holds[j]
        unlock_at.append(t)
        if j < nsec - 1 and gaps[j] == 'sleep': t += unit // 2
    tail = unit * rng.choice([1, 2, 4])

    def pick_tmo(start):
        """timeout of a waiter that starts waiting at relative time `start`"""
        r = rng.random()
        if r < .3: return -1
        if r < .75 and len(unlock_at) > 1:
            # deadline strictly inside a LATER hold of the conductor (after at least one of its unlocks)
            j = rng.randrange(1, len(unlock_at))
            lo, hi = unlock_at[j - 1], unlock_at[j]
            d = rng.choice([lo + 1, (lo + hi) // 2, hi - 1, lo + unit // 2])
            return max(1, d - start)
        if r < .9:
            return max(0, rng.choice(unlock_at) - start + rng.choice([0, 0, -1, 1]))    # on an unlock instant
        return rng.choice([0, unit // 2, unit, 10 * unit])

    threads = [[] for _ in range(n)]
    waiter_mode = {}
    for k in range(1, n):
        ops = []
        start = 0
        if rng.random() < .35:
            start = rng.choice([unit // 4, unit // 2, unlock_at[0] + 1, unlock_at[0] + unit // 2])
            ops.append(('usleep', [start]))
        m = WLOCK if rng.random() < (.15 if focus else .45) else RLOCK
        if focus and k <= 2:
            m = WLOCK if k == 1 else RLOCK
            lo, hi = unlock_at[0], unlock_at[1]
            tmo = rng.choice([lo + 1, (lo + hi) // 2, hi - 1, hi, -1]) if k == 1 else rng.choice([-1, -1, 20 * unit, hi - 1])
            if tmo > 0: tmo = max(1, tmo - start)
            waiter_mode[k] = m
            ops.append((pre + 'lock', [0, m, tmo]))
        elif kind == 'q' and rng.random() < .12:
            waiter_mode[k] = m
            ops.append((pre + 'try', [0, m]))
        else:
            waiter_mode[k] = m
            ops.append((pre + 'lock', [0, m, pick_tmo(start)]))
        h = rng.random()
        if h < .25: ops.append((pre + 'state', [0]))
        if h < .6: ops.append(('usleep', [unit * rng.choice([1, 2])]))
        elif h < .75: ops.append(('yield', []))
        ops.append((pre + 'unlock', [0]))
        if rng.random() < .25:      # a second section
            m2 = WLOCK if rng.random() < .4 else RLOCK
            ops += [(pre + 'lock', [0, m2, rng.choice([-1, unit, 3 * unit])]), ('usleep', [unit]), (pre + 'unlock', [0])]
        threads[k] = ops
    # make sure both condition variables are populated in most programs
    if rng.random() < .8 and len(set(waiter_mode.values())) == 1:
        k = rng.randrange(1, n)
        flip = RLOCK if waiter_mode[k] == WLOCK else WLOCK
        for idx, o in enumerate(threads[k]):
            if o[0] in (pre + 'lock', pre + 'try'):
                threads[k][idx] = (o[0], [o[1][0], flip] + o[1][2:])
                break

    def hold_ops(j):
        h = holds[j]
        r = rng.random()
        if focus and j == 1 and r < .5:
            a = rng.choice([unit // 2, h // 2, h - 1])
            return [('usleep', [a]), ('interrupt', [1, rng.choice(errs)]), ('usleep', [h - a])]
        if r < .5 or n < 2: return [('usleep', [h])]
        if r < .75:          # interrupt a waiter from inside the hold
            a = rng.choice([unit // 2, h // 2, h - 1]) if h > 1 else 0
            return [('usleep', [a]), ('interrupt', [rng.randrange(1, n), rng.choice(errs)]), ('usleep', [h - a])]
        if r < .9:           # probe the queues in the middle
            a = h // 2
            return [('usleep', [a]), (pre + 'waiters', [0]), (pre + 'state', [0]), ('usleep', [h - a])]
        return [('usleep', [h]), ('yield', [])]

    c = [('create', [k, 0]) for k in range(1, n)]
    rng.shuffle(c)
    c.append((pre + 'lock', [0, modes[0], -1]))
    for j in range(nsec):
        c += hold_ops(j)
        c.append((pre + 'unlock', [0]))
        if rng.random() < .3: c.append((pre + 'waiters', [0]))
        if j < nsec - 1:
            if gaps[j] == 'yield': c.append(('yield', []))
            elif gaps[j] == 'sleep': c.append(('usleep', [unit // 2]))
            r = rng.random()
            if kind == 'q' and r < .2: c.append((pre + 'try', [0, modes[j + 1]]))
            elif r < .85: c.append((pre + 'lock', [0, modes[j + 1], -1]))
            else: c.append((pre + 'lock', [0, modes[j + 1], rng.choice([unit, 2 * unit, holds[j + 1]])]))
    c += [('usleep', [tail]), (pre + 'state', [0]), (pre + 'waiters', [0])]
    threads[0] = c
    return e2lib.fmt_case(decls, threads)


def gen_crowd(rng, kind=None):
    """several waiters on BOTH condition variables behind one writer; everybody holds briefly and leaves; try_lock mixes"""
    kind = kind or ('q' if rng.random() < .75 else 'rw')
    pre = 'q_' if kind == 'q' else 'rw_'
    decls = [('qrwlock' if kind == 'q' else 'rwlock', [])]
    unit = rng.choice([100, 50])
    n = rng.randint(4, 7)
    threads = [[] for _ in range(n)]
    for k in range(1, n):
        m = WLOCK if rng.random() < .35 else RLOCK
        ops = []
        if rng.random() < .3: ops.append(('usleep', [rng.choice([unit // 2, unit, 2 * unit])]))
        tmo = rng.choice([-1, -1, -1, unit, 2 * unit, 3 * unit, 2 * unit + 1, 5 * unit])
        if kind == 'q' and rng.random() < .15: ops.append((pre + 'try', [0, m]))
        else: ops.append((pre + 'lock', [0, m, tmo]))
        r = rng.random()
        if r < .5: ops.append(('usleep', [unit * rng.choice([1, 2])]))
        elif r < .7: ops.append(('yield', []))
        elif r < .8: ops.append((pre + 'waiters', [0]))
        ops.append((pre + 'unlock', [0]))
        if rng.random() < .3:
            if kind == 'q' and rng.random() < .5: ops.append((pre + 'try', [0, rng.choice([RLOCK, WLOCK])]))
            else: ops.append((pre + 'lock', [0, rng.choice([RLOCK, WLOCK]), -1]))
            ops.append((pre + 'unlock', [0]))
        threads[k] = ops
    c = [('create', [k, 0]) for k in range(1, n)]
    rng.shuffle(c)
    c += [(pre + 'lock', [0, WLOCK, -1]), ('usleep', [2 * unit]), (pre + 'waiters', [0]), (pre + 'unlock', [0])]
    if rng.random() < .5: c += [(pre + 'lock', [0, rng.choice([RLOCK, WLOCK]), -1]), ('usleep', [unit]), (pre + 'unlock', [0])]
    c += [('usleep', [20 * unit]), (pre + 'state', [0]), (pre + 'waiters', [0])]
    threads[0] = c
    return e2lib.fmt_case(decls, threads)


# scenario programs (also the single-vCPU witnesses of the Coq development)
CORPUS = [
    # (a) W3: reader queues behind a waiting writer that times out; a later reader queues too; R1's unlock admits both
    'P rwlock | create 1 0;create 2 0;create 3 0;rw_lock 0 4096 -1;usleep 1000;rw_unlock 0 | rw_lock 0 8192 100;rw_unlock 0 | usleep 10;rw_lock 0 4096 -1;rw_state 0;rw_unlock 0 | usleep 200;rw_lock 0 4096 -1;rw_state 0;rw_unlock 0',
    # the same without the writer's failed call
    'P rwlock | create 2 0;create 3 0;rw_lock 0 4096 -1;usleep 1000;rw_unlock 0 | - | usleep 10;rw_lock 0 4096 -1;rw_state 0;rw_unlock 0 | usleep 200;rw_lock 0 4096 -1;rw_state 0;rw_unlock 0',
    # (b) W4: unlock notifies two readers, a writer barges in before they run
    'P rwlock | create 1 0;create 2 0;create 3 0;rw_lock 0 8192 -1;usleep 100;rw_unlock 0;rw_lock 0 8192 -1;rw_state 0;usleep 100;rw_unlock 0 | rw_lock 0 4096 -1;rw_state 0;rw_unlock 0 | rw_lock 0 4096 -1;rw_state 0;rw_unlock 0 | -',
    # timeout racing the unlock at the same virtual instant
    'P rwlock | create 1 0;create 2 0;rw_lock 0 8192 -1;usleep 100;rw_unlock 0 | rw_lock 0 8192 100;rw_state 0;rw_unlock 0 | rw_lock 0 4096 100;rw_state 0;rw_unlock 0',
    'P qrwlock | create 1 0;create 2 0;q_lock 0 8192 -1;usleep 100;q_unlock 0 | q_lock 0 8192 100;q_state 0;q_unlock 0 | q_lock 0 4096 100;q_state 0;q_unlock 0',
    # interrupt of a waiter, then admission of the next
    'P rwlock | create 1 0;create 2 0;rw_lock 0 8192 -1;usleep 50;interrupt 1 4;usleep 50;rw_unlock 0 | rw_lock 0 8192 -1;rw_unlock 0 | rw_lock 0 4096 -1;rw_state 0;rw_unlock 0',
    'P qrwlock | create 1 0;create 2 0;q_lock 0 8192 -1;usleep 50;interrupt 1 4;usleep 50;q_unlock 0 | q_lock 0 8192 -1;q_unlock 0 | q_lock 0 4096 -1;q_state 0;q_unlock 0',
    # seeded change C06_1 (notes/C06.md, "blocking path"): W0 holds W; W1 waits lock(W,200), R1 (and R2) wait lock(R); W0 downgrades
    # without a yield (unlock wakes only W1, which finds the lock read-held and waits again); W1 times out / is interrupted
    # while the lock is read-held; the last reader's unlock must wake the parked readers (try_wake, not only cv_unique)
    'P qrwlock | create 1 0;create 2 0;q_lock 0 8192 -1;usleep 20;q_unlock 0;q_lock 0 4096 -1;q_waiters 0;usleep 400;q_waiters 0;q_unlock 0;q_waiters 0;usleep 300;q_state 0 | q_lock 0 8192 200;q_unlock 0 | q_lock 0 4096 -1;q_state 0;q_unlock 0',
    'P qrwlock | create 1 0;create 2 0;create 3 0;q_lock 0 8192 -1;usleep 20;q_unlock 0;q_lock 0 4096 -1;usleep 100;interrupt 1 4;usleep 300;q_unlock 0;q_waiters 0;usleep 300;q_state 0 | q_lock 0 8192 -1;q_unlock 0 | q_lock 0 4096 -1;q_state 0;usleep 50;q_unlock 0 | q_lock 0 4096 1000;q_state 0;q_unlock 0',
    # the same without the writer's failed call: the readers are admitted at the downgrade
    'P qrwlock | create 2 0;q_lock 0 8192 -1;usleep 20;q_unlock 0;q_lock 0 4096 -1;q_waiters 0;usleep 400;q_unlock 0;usleep 300;q_state 0 | - | q_lock 0 4096 -1;q_state 0;q_unlock 0',
    # the rwlock counterpart (one FIFO queue: the downgrade itself queues behind W1)
    'P rwlock | create 1 0;create 2 0;rw_lock 0 8192 -1;usleep 20;rw_unlock 0;rw_lock 0 4096 -1;rw_waiters 0;usleep 400;rw_unlock 0;rw_waiters 0;usleep 300;rw_state 0 | rw_lock 0 8192 200;rw_unlock 0 | rw_lock 0 4096 -1;rw_state 0;rw_unlock 0',
    # writer re-take without yield: the notified writer loses, waits again, is admitted by the second unlock; readers after it
    'P qrwlock | create 1 0;create 2 0;create 3 0;q_lock 0 8192 -1;usleep 20;q_unlock 0;q_lock 0 8192 -1;usleep 100;q_unlock 0;q_waiters 0;usleep 500;q_waiters 0 | q_lock 0 8192 -1;usleep 30;q_unlock 0 | q_lock 0 4096 -1;usleep 30;q_unlock 0 | q_lock 0 4096 50;q_unlock 0',
    # bad mode
    'P rwlock;qrwlock | rw_lock 0 0 -1;rw_lock 0 12288 -1;rw_state 0;q_lock 1 0 -1;q_state 1;q_unlock 1;q_unlock 1;rw_unlock 0;q_lock 0 4096 -1;rw_lock 1 4096 -1',
]


# ------------------------------------------------------------------ E3 cases (qrwlock state word) -----
B36 = '0123456789abcdefghijklmnopqrstuvwxyz'


def q_case(scripts, sched, bound=400, full=True):
    return 'Q %d %s | %s | %s' % (bound, 'full' if full else 'nolog', ' | '.join(' '.join(x) if x else '-' for x in scripts), sched or '-')


def gen_q_exhaustive(tier):
    """every schedule word of length L over the participants (the tail is completed round-robin)"""
    cs = []
    confs = [([['w', 'u'], ['r', 'u']], 7), ([['w', 'u'], ['w', 'u']], 7), ([['r', 'u'], ['r', 'u']], 8),
             ([['r', 'u'], ['r', 'u'], ['w']], 5 if tier == 'quick' else 7), ([['w', 'u', 'r', 'u'], ['r', 'u', 'w', 'u']], 6 if tier == 'quick' else 9)]
    for scripts, L in confs:
        n = len(scripts)
        def rec(prefix):
            if len(prefix) == L:
                cs.append(q_case(scripts, prefix)); return
            for p in range(n): rec(prefix + B36[p])
        rec('')
    return cs


def gen_q_random(rng):
    n = rng.randint(2, 4)
    scripts = []
    for p in range(n):
        ops = []
        for _ in range(rng.randint(1, 4)):
            ops.append(rng.choice(['r', 'r', 'w']))
            if rng.random() < .85: ops.append('u')
            if rng.random() < .1: ops.append('u')
        scripts.append(ops)
    # bursty schedule with a victim stalled in the middle of an op
    L = rng.randint(5, 40)
    sched = ''
    cur = rng.randrange(n)
    for _ in range(L):
        if rng.random() < .35: cur = rng.randrange(n)
        sched += B36[cur]
    return q_case(scripts, sched)


def analyse_q(case, out):
    """holder accounting on the implementation's atomic-step log, independent of the Coq model"""
    if not out.startswith('steps='):
        return 'failed run: %r' % out[:200]
    if ' livelock ' in out: return 'livelock: %s' % out[:200]
    if 'E3ERROR' in out: return out[:300]
    f = out.split(' LOG ')
    head = dict(kv.split('=', 1) for kv in f[0].split(' ') if '=' in kv)
    log = f[1].split(' ') if len(f) > 1 and f[1] else []
    M = 1 << 64
    sgn = lambda x: x - M if x >= (1 << 63) else x
    val = 0            # tracked lock_state
    holders = []       # (participant, 'R'|'W')
    nacq = {}
    for e in log:
        w = e.split('.')
        p, kind, addr = int(w[0]), w[1], w[2]
        if addr != 'ls': continue
        if kind == 'ld':
            if sgn(int(w[3])) != val: return 'load of lock_state saw %d, tracked value %d (%s)' % (sgn(int(w[3])), val, e)
        elif kind == 'cas':
            exp, des, obs_, ok = sgn(int(w[3])), sgn(int(w[4])), sgn(int(w[5])), w[6] == '1'
            if obs_ != val: return 'CAS observed %d, tracked value %d (%s)' % (obs_, val, e)
            if ok:
                if des == -1:
                    if holders: return 'participant %d took the WRITE lock while held by %s (%s)' % (p, holders, e)
                    holders.append((p, 'W'))
                elif des == exp + 1 and exp >= 0:
                    if any(m == 'W' for _, m in holders): return 'participant %d took a READ lock while a writer holds (%s)' % (p, e)
                    holders.append((p, 'R'))
                else: return 'unexpected successful CAS %s' % e
                val = des; nacq[p] = nacq.get(p, 0) + 1
        elif kind == 'st':
            if int(w[3]) != 0 or (p, 'W') not in holders: return 'store to lock_state by a non-writer (%s)' % e
            holders.remove((p, 'W')); val = 0
        elif kind == 'fs':
            if sgn(int(w[4])) != val: return 'fetch_sub saw %d, tracked %d (%s)' % (sgn(int(w[4])), val, e)
            if (p, 'R') not in holders: return 'fetch_sub by a non-reader (%s)' % e
            holders.remove((p, 'R')); val -= 1
        else: return 'unexpected access to lock_state: %s' % e
        exp_val = -1 if any(m == 'W' for _, m in holders) else len(holders)
        if val != exp_val: return 'lock_state %d does not match the holders %s after %s' % (val, holders, e)
    if int(head['final']) != val: return 'final lock_state %s, tracked %d' % (head['final'], val)
    # results: a try_lock returned 0 exactly when its CAS succeeded
    scripts = [x.strip().split() for x in case.split('|')[1:-1]]
    for p, rs in enumerate(head['res'].split('|')):
        rs = [int(x) for x in rs.rstrip('*').split(',') if x != '']
        ops = [o for o in scripts[p] if o != '-']
        got = sum(1 for o, r in zip(ops, rs) if o in 'wr' and r == 0)
        if got != nacq.get(p, 0): return 'participant %d: %d try_lock calls returned 0 but %d acquisitions in the log' % (p, got, nacq.get(p, 0))
        for o, r in zip(ops, rs):
            if o in 'wr' and r not in (0, -1): return 'try_lock returned %d' % r
            if o == 'u' and r not in (0, -2): return 'unlock by a holder returned %d' % r
    return None


# ------------------------------------------------------------------ E3 cases (BLOCKING path of qrwlock) -----
# harness/C06/qrw_e3b.cpp <-> coq/C06/C06_QE3B.v: lock(mode, timeout) / try_lock / unlock between OS-thread participants; every
# atomic op on lock_state / spin._lock, every enqueue / notify / wake-up of the two condition variables is one scheduled point.
def b_case(scripts, sched, bound=1500):
    return 'B %d full | %s | %s' % (bound, ' | '.join(' '.join(x) if x else '-' for x in scripts), sched or '-')


def _words(alpha, L):
    out = ['']
    for _ in range(L):
        out = [w + a for w in out for a in alpha]
    return out


def gen_b_exhaustive(tier):
    """small scenarios, every schedule word of length L over an alphabet of (participant, flavor) entries (the tail is completed
    round-robin), plus every 4-segment schedule p^a q^b p^c q^d: the last holder's unlock() against a locker that is between its
    failed fast path and `spin`, between `spin` and the enqueue, enqueued but not yet asleep; a writer that times out while
    readers are parked; downgrade"""
    q = tier == 'quick'
    cs = []
    two = [[['Lw', 'U'], ['Lw', 'U']], [['Lw', 'U'], ['Lr', 'U']], [['Lr', 'U'], ['Lw', 'U']]]
    for scripts in two:
        for w in _words('01', 9 if q else 13): cs.append(b_case(scripts, w))
        R = range(0, 6) if q else range(0, 11)
        for a in R:
            for b in R:
                for c in R:
                    for d in ((0, 2) if q else (0, 1, 2, 4, 7)):
                        cs.append(b_case(scripts, '0' * a + '1' * b + '0' * c + '1' * d))
                        if a and not q: cs.append(b_case(scripts, '1' * a + '0' * b + '1' * c + '0' * d))
    # timed locker against a holder that lets the clock pass its deadline (entry 3 = the timer of participant 1)
    for scripts in ([['Lw', 'A', 'U'], ['Lw100', 'U']], [['Lw', 'A', 'U'], ['Lr100', 'U']], [['Lr', 'A', 'U'], ['Lw200', 'U']],
                    [['Lw', 'A', 'U'], ['Lw0', 'U']]):
        for w in _words('013', 5 if q else 8):
            cs.append(b_case(scripts, w))
            cs.append(b_case(scripts, '0111110' + w))       # p1 parked, the clock has passed its deadline: timer against unlock()
    # two waiters behind a writer (both cvs); two writers and a reader
    for scripts in ([['Lw', 'U'], ['Lr', 'U'], ['Lr', 'U']], [['Lw', 'U'], ['Lw', 'U'], ['Lr', 'U']]):
        for w in _words('012', 6 if q else 8): cs.append(b_case(scripts, w))
    # downgrade: W hold, unlock, re-lock R; a timed writer and a reader parked behind the W hold; the writer's timer = entry 4
    scripts = [['Lw', 'U', 'Lr', 'A', 'U'], ['Lw100', 'U'], ['Lr', 'U']]
    for w in _words('0124', 5 if q else 7): cs.append(b_case(scripts, w))
    for w in _words('0124', 4 if q else 7):
        cs.append(b_case(scripts, '01111122222' + w))              # both parked behind the W hold, then every word
        cs.append(b_case(scripts, '0111112222200000000' + w))      # ... p0 has downgraded (only the writer was notified) and ticked
    return cs


def gen_b_random(rng, n=None):
    n = n or rng.choice([2, 3, 3, 4, 4, 4])
    tm = ['', '', '', '0', '100', '200', '300', '500']
    scripts = []
    for p in range(n):
        ops = []
        nsec = rng.randint(1, 3)
        for j in range(nsec):
            if rng.random() < .2: ops.append('A')
            m = 'w' if rng.random() < .45 else 'r'
            if rng.random() < .15: ops.append('T' + m)
            else: ops.append('L' + m + rng.choice(tm))
            if rng.random() < .3: ops.append('A')
            if rng.random() < .04: ops.append('L' + rng.choice('rw') + rng.choice(tm))      # nested (may self-deadlock: compared only)
            if j < nsec - 1 or rng.random() < .93: ops.append('U')
            if rng.random() < .05: ops.append('U')
        scripts.append(ops)
    L = rng.randint(5, 90)
    sched = ''
    cur = rng.randrange(n)
    pt = rng.choice([.05, .15, .3])
    for _ in range(L):
        r = rng.random()
        if r < .3: cur = rng.randrange(n)
        if rng.random() < pt and cur + n < 36: sched += B36[cur + n]       # the timer of `cur`
        else: sched += B36[cur]
    return b_case(scripts, sched)


def analyse_b(case, out):
    """the property evaluated on the implementation's step log alone (independent of the Coq model): exclusion and state-word
    accounting; a failed lock/try_lock leaves the state word alone; lock() returns -1 only with ETIMEDOUT, on a timed call, after
    its deadline on the harness clock; the unlock() that frees the lock wakes the head writer or else every parked reader before
    it releases `spin`; at the end nobody is blocked while the lock is free.  returns [(kind, msg)], kind 'viol' | 'convoy'"""
    if not out.startswith('steps='): return [('viol', 'failed run: %r' % out[:200])]
    if 'E3ERROR' in out: return [('viol', out[:300])]
    f = out.split(' LOG ')
    head = dict(kv.split('=', 1) for kv in f[0].split(' ') if '=' in kv)
    log = f[1].split(' ') if len(f) > 1 and f[1] else []
    if ' livelock ' in out: return [('viol', 'step bound reached (a participant spins for ever?): %s' % f[0][:200])]
    fails = []
    V = lambda m: fails.append(('viol', m))
    M = 1 << 64
    sgn = lambda x: x - M if x >= (1 << 63) else x
    scripts = [[o for o in x.strip().split() if o != '-'] for x in case.split('|')[1:-1]]
    n = len(scripts)
    val, holders, spin = 0, [], None
    cv = {'cvu': [], 'cvs': []}
    notified = set()
    clock_at = [0]                     # clock_at[i] = harness clock before log entry i
    lsmod = {}                         # index -> 'acq' | 'rel' : p's modifications of lock_state
    lsobs = {}                         # index -> value of lock_state observed by that access
    freed = {}                         # p -> True: p's unlock made the state 0 and has not run the wake-up yet
    need_all = {}                      # p -> True: notify_one found no writer; all parked readers are to be woken
    to_at = {}                         # index of blk.2 entries -> p
    for i, e in enumerate(log):
        w = e.split('.')
        p, kind = int(w[0]), w[1]
        clk = clock_at[-1]
        if kind == 'tick': clk += 200
        clock_at.append(clk)
        if kind in ('ld', 'cas', 'st', 'fs', 'xg', 'fa') and w[2] == 'ls':
            if kind == 'ld':
                lsobs[i] = sgn(int(w[3]))
                if lsobs[i] != val: V('load of lock_state saw %d, tracked value %d (%s)' % (lsobs[i], val, e))
            elif kind == 'cas':
                exp, des, ob, ok = sgn(int(w[3])), sgn(int(w[4])), sgn(int(w[5])), w[6] == '1'
                lsobs[i] = ob
                if ob != val: V('CAS observed %d, tracked value %d (%s)' % (ob, val, e))
                if ok:
                    if des == -1:
                        if holders: V('participant %d took the WRITE lock while held by %s (step %d)' % (p, holders, i))
                        holders.append((p, 'W'))
                    elif des == exp + 1 and exp >= 0:
                        if any(m == 'W' for _, m in holders): V('participant %d took a READ lock while a writer holds (step %d)' % (p, i))
                        holders.append((p, 'R'))
                    else: V('unexpected successful CAS %s' % e)
                    val = des; lsmod[i] = 'acq'
            elif kind == 'st':
                if int(w[3]) != 0 or (p, 'W') not in holders: V('store to lock_state by a non-writer (%s)' % e)
                else: holders.remove((p, 'W'))
                if spin != p: V('__unlock_unique stores lock_state without holding spin (%s)' % e)
                val = 0; lsmod[i] = 'rel'; freed[p] = True
            elif kind == 'fs':
                if sgn(int(w[4])) != val: V('fetch_sub saw %d, tracked %d (%s)' % (sgn(int(w[4])), val, e))
                if (p, 'R') not in holders: V('fetch_sub by a non-reader (%s)' % e)
                else: holders.remove((p, 'R'))
                val -= 1; lsmod[i] = 'rel'
                if val == 0: freed[p] = True
            else:
                V('unexpected access to lock_state: %s' % e); break
            exp_val = -1 if any(m == 'W' for _, m in holders) else len(holders)
            if val != exp_val: V('lock_state %d does not match the holders %s after step %d %s' % (val, holders, i, e))
        elif kind in ('ld', 'xg', 'st') and w[2] == 'spin':
            cur = 0 if spin is None else 1
            if kind == 'xg':
                if int(w[4]) != cur: V('xchg of spin saw %s, tracked %d' % (w[4], cur))
                if int(w[4]) == 0: spin = p
            elif kind == 'ld':
                if int(w[3]) != cur: V('load of spin saw %s, tracked %d' % (w[3], cur))
            else:
                if spin != p: V('spin released by participant %d, owner %s (step %d)' % (p, spin, i))
                if freed.get(p) and (cv['cvu'] or cv['cvs']):
                    V('unlock() of participant %d freed the lock and released spin at step %d without notifying; parked: cv_unique %s cv_shared %s' % (p, i, cv['cvu'], cv['cvs']))
                if need_all.get(p) and cv['cvs']:
                    V('unlock() of participant %d found no waiting writer and released spin at step %d with readers %s still parked un-notified' % (p, i, cv['cvs']))
                freed.pop(p, None); need_all.pop(p, None)
                spin = None
        elif kind == 'enq':
            if spin != p: V('participant %d enqueues on %s without holding spin (step %d)' % (p, w[2], i))
            cv[w[2]].append(p)
        elif kind in ('n1', 'na'):
            c, k = w[2], int(w[3])
            if spin != p: V('participant %d notifies %s without holding spin (step %d)' % (p, c, i))
            if k == 0:
                if cv[c]: V('notify on %s found nobody, tracked queue %s (step %d)' % (c, cv[c], i))
            else:
                if not cv[c] or cv[c][0] != k - 1: V('notify on %s woke %d, tracked queue %s (step %d)' % (c, k - 1, cv[c], i))
                if k - 1 in cv[c]: cv[c].remove(k - 1)
                notified.add(k - 1)
            if freed.get(p):
                if c == 'cvu':
                    freed.pop(p)
                    if k == 0: need_all[p] = True
                elif not cv['cvu']:
                    freed.pop(p); need_all[p] = True
            if c == 'cvs' and need_all.get(p) and not cv['cvs']: need_all.pop(p)
        elif kind == 'blk':
            v = int(w[2])
            if v == 1:
                if p not in notified: V('participant %d left its wait un-notified (step %d)' % (p, i))
                notified.discard(p)
            elif v == 2:
                for c in cv.values():
                    if p in c: c.remove(p)
                to_at[i] = p
        elif kind == 'tick': pass
        else:
            V('unexpected log entry %s' % e); break
    if int(head['final']) != val: V('final lock_state %s, tracked %d' % (head['final'], val))
    # per-op checks
    wfailed = False
    blocked = [] if head.get('blocked', '-') == '-' else [int(x) for x in head['blocked'].split(',')]
    for p, rs in enumerate(head['res'].split('|')):
        rs = [tuple(int(y) for y in x.split(':')) for x in rs.rstrip('*').split(',') if x != '']
        for o, (r, en, k0, k1) in zip(scripts[p], rs):
            mine = [i for i in range(k0, k1) if i < len(log) and log[i].startswith('%d.' % p)]
            acq = [i for i in mine if lsmod.get(i) == 'acq']; rel = [i for i in mine if lsmod.get(i) == 'rel']
            if o[0] in 'LT':
                if r == 0:
                    if len(acq) != 1 or rel: V('participant %d: %s returned 0 with %d acquisitions / %d releases in its steps %d..%d' % (p, o, len(acq), len(rel), k0, k1))
                elif r == -1:
                    if acq or rel: V('participant %d: failed %s modified the state word (steps %s)' % (p, o, acq + rel))
                    obs = [lsobs[i] for i in mine if i in lsobs]
                    if o[0] == 'T':
                        if not obs or (o[1] == 'w' and obs[-1] == 0) or (o[1] == 'r' and 0 <= obs[-1] < 65536):
                            V('participant %d: %s failed although it last saw the compatible state %s' % (p, o, obs[-1:]))
                    else:
                        if o[1] == 'w': wfailed = True
                        tos = [i for i in mine if i in to_at]
                        if en != ETIMEDOUT: V('participant %d: %s returned -1 with errno %d' % (p, o, en))
                        elif len(o) <= 2: V('participant %d: %s (no timeout) returned ETIMEDOUT' % (p, o))
                        elif not tos: V('participant %d: %s returned ETIMEDOUT but its wait did not time out' % (p, o))
                        elif clock_at[tos[-1]] < clock_at[k0] + int(o[2:]):
                            V('participant %d: %s issued at clock %d timed out at clock %d' % (p, o, clock_at[k0], clock_at[tos[-1]]))
                else: V('participant %d: %s returned %d' % (p, o, r))
            elif o[0] == 'U':
                if r == 0:
                    if len(rel) != 1 or acq: V('participant %d: unlock with %d releases in its steps' % (p, len(rel)))
                elif r != -2: V('participant %d: unlock by a holder returned %d/%d' % (p, r, en))
    if freed: V('unlock() of participant(s) %s freed the lock but never ran the wake-up' % sorted(freed))
    # end of the run: everybody has finished or is blocked for ever
    if blocked:
        cvu = [] if head['cvu'] == '-' else head['cvu'].split(',')
        cvs = [] if head['cvs'] == '-' else head['cvs'].split(',')
        if val == 0:
            V('participants %s are blocked for ever (cv_unique %s, cv_shared %s) although the lock is free (lost wake-up)' % (blocked, cvu, cvs))
        elif val > 0 and cvs and not cvu:
            fails.append(('convoy' if wfailed else 'viol', 'readers %s stay parked on cv_shared while only readers hold (state %d) and no writer waits' % (cvs, val)))
    return fails


# ------------------------------------------------------------------ oracle --------
def analyse(case, out):
    """the property evaluated on the implementation's trace, independently of the Coq model.
    returns list of (kind, message); kind 'viol' or a known-class id"""
    res = e2lib.parse_result(out)
    if res is None:
        return [('viol', 'unparsable / failed run: %r' % out[:200])]
    if res['flag']:
        return [('viol', 'run flagged %s' % res['flag'])]
    decls, th = e2lib.parse_case(case)
    kinds = [d[0] for d in decls]
    fails = []
    holders = {i: [] for i in range(len(decls))}          # object -> list of (tid, 'R'|'W')
    done = {}                                              # (tid, pc) -> event index
    for j, (k, pc, ret, err, now) in enumerate(res['tr']):
        done[(k, pc)] = j
    blocked = dict(res['blocked'])
    created = {}                                           # tid -> index of the event of its `create`
    for j, (k, pc, ret, err, now) in enumerate(res['tr']):
        o = th[k][pc] if k < len(th) and pc < len(th[k]) else None
        if o and o[0] == 'create' and o[1] and ret >= 0 and o[1][0] not in created: created[o[1][0]] = j

    def opof(k, pc):
        return th[k][pc] if k < len(th) and pc < len(th[k]) else None

    def lockmode(name, mode):
        if name.startswith('rw_'):
            return 'R' if mode == RLOCK else 'W' if mode == WLOCK else None
        return 'W' if mode == WLOCK else 'R'

    def lock_obj(o):
        """(object index, mode) if o is a lock/try op on an object of the right kind"""
        if o is None: return None
        name, a = o
        if name in ('rw_lock', 'q_lock', 'q_try') and a and 0 <= a[0] < len(decls):
            want = 'rwlock' if name.startswith('rw_') else 'qrwlock'
            if kinds[a[0]] == want:
                return a[0], lockmode(name, a[1] if len(a) > 1 else 0)
        return None

    def definite_waiters(j, obj):
        """threads that had certainly started a blocking lock on `obj` before event j and had not completed it"""
        ws = []
        for k in range(len(th)):
            # the op in flight at event j: first op of k whose completion index is > j (or never)
            pcs = [pc for pc in range(len(th[k])) if done.get((k, pc), 1 << 60) > j]
            if not pcs: continue
            pc = pcs[0]
            if pc == 0:
                # the first op of a created thread has certainly started (and run up to its blocking point) once virtual
                # time has advanced past its creation: time only passes while every thread is asleep
                cj = created.get(k)
                if k != 0 and (cj is None or cj >= j or res['tr'][cj][4] >= res['tr'][j][4]): continue
            elif done.get((k, pc - 1), 1 << 60) >= j: continue              # not certainly started before event j
            o = opof(k, pc)
            lo = lock_obj(o)
            if lo and lo[0] == obj and lo[1] and o[0] != 'q_try':
                ws.append((k, pc, lo[1]))
        return ws

    def possible_writers(j, obj):
        """threads whose op in flight at event j is a blocking WRITE lock on obj (started or not: the trace does not
        show when the first op of a thread starts, nor a re-queued waiter)"""
        ws = []
        for k in range(len(th)):
            pcs = [pc for pc in range(len(th[k])) if done.get((k, pc), 1 << 60) > j]
            if not pcs: continue
            o = opof(k, pcs[0]); lo = lock_obj(o)
            if lo and lo[0] == obj and lo[1] == 'W' and o[0] != 'q_try': ws.append(k)
        return ws

    issued = {}
    for j, (k, pc, ret, err, now) in enumerate(res['tr']):
        o = opof(k, pc)
        if o is None:
            fails.append(('viol', 'event for a non-existent op %d.%d' % (k, pc))); continue
        name, a = o
        start = res['tr'][done[(k, pc - 1)]][4] if pc > 0 and (k, pc - 1) in done else None
        lo = lock_obj(o)
        if lo:
            obj, m = lo
            if m is None:
                if not (ret == -1 and err == EINVAL):
                    fails.append(('viol', 'lock with an invalid mode returned %d/%d' % (ret, err)))
                continue
            if ret == 0:
                hs = holders[obj]
                if m == 'W' and hs:
                    fails.append(('viol', 'T%d acquired %s in WRITE mode at t=%d while held by %s' % (k, obj, now, hs)))
                if m == 'R' and any(x[1] == 'W' for x in hs):
                    fails.append(('viol', 'T%d acquired %s in READ mode at t=%d while a writer holds it %s' % (k, obj, now, hs)))
                hs.append((k, m))
            elif ret == -1:
                if name == 'q_try':
                    hs = holders[obj]
                    free = (not hs) if m == 'W' else not any(x[1] == 'W' for x in hs)
                    if free and len(hs) < 65536:
                        fails.append(('viol', 'try_lock failed at t=%d although the lock was compatible (holders %s)' % (now, hs)))
                else:
                    tmo = u64(a[2]) if len(a) > 2 else MAX64
                    if err == ETIMEDOUT:
                        if tmo == MAX64:
                            fails.append(('viol', 'lock without timeout returned ETIMEDOUT at t=%d' % now))
                        elif start is not None and now < start + tmo:
                            fails.append(('viol', 'lock returned ETIMEDOUT at t=%d before its deadline %d' % (now, start + tmo)))
                    elif err <= 0:
                        fails.append(('viol', 'failed lock with errno %d' % err))
                    # scenario (a): a writer gives up while only readers hold; readers queued behind it stay queued
                    if m == 'W' and holders[obj] and all(x[1] == 'R' for x in holders[obj]):
                        ws = definite_waiters(j, obj)
                        if ws and all(mm == 'R' for _, _, mm in ws) and not possible_writers(j, obj):
                            late = [kk for kk, pp, mm in ws if (kk, pp) not in done or res['tr'][done[(kk, pp)]][4] > now]
                            if late:
                                fails.append(('convoy', 'writer T%d gave up at t=%d while only readers %s hold lock %d; readers T%s stay queued '
                                              'although a fresh reader would be admitted (failed lock is not "as if not called")' % (k, now, holders[obj], obj, late)))
                    # the finite deadline is met exactly (virtual time)
                if name != 'q_try' and start is not None and len(a) > 2 and u64(a[2]) != MAX64 and now > start + u64(a[2]):
                    fails.append(('viol', 'timed lock issued at %d with timeout %d returned at %d' % (start, u64(a[2]), now)))
            else:
                fails.append(('viol', 'lock returned %d' % ret))
        elif name in ('rw_unlock', 'q_unlock') and a and 0 <= a[0] < len(decls) and kinds[a[0]] == ('rwlock' if name == 'rw_unlock' else 'qrwlock'):
            obj = a[0]
            mine = [x for x in holders[obj] if x[0] == k]
            if ret == SKIPPED:
                if mine: fails.append(('viol', 'unlock skipped although T%d holds' % k))
                continue
            if not mine:
                fails.append(('viol', 'harness unlocked without holding')); continue
            if ret != 0:
                fails.append(('viol', 'unlock by a holder returned %d/%d' % (ret, err)))
            holders[obj].remove(mine[-1])
            if not holders[obj]:
                # the last holder left at virtual time `now`: admission
                ws = definite_waiters(j, obj)
                if ws:
                    later = [(jj, e) for jj, e in enumerate(res['tr']) if jj > j]
                    succ = [(jj, e) for jj, e in later if e[4] == now and lock_obj(opof(e[0], e[1])) and lock_obj(opof(e[0], e[1]))[0] == obj and e[2] == 0]
                    allfail = all(((kk, pp) in done and res['tr'][done[(kk, pp)]][4] == now and res['tr'][done[(kk, pp)]][2] != 0) for kk, pp, mm in ws)
                    if not succ and not allfail:
                        fails.append(('viol', 'lock %d became free at t=%d with waiters %s but nobody was admitted at that instant' % (obj, now, ws)))
                    elif succ:
                        first = succ[0][1]
                        fm = lock_obj(opof(first[0], first[1]))[1]
                        # a writer that acquires at the same instant (a fresh locker barging in before the notified
                        # readers run, scenario (b)) legitimately sends the readers back to the queue
                        wbarge = any(lock_obj(opof(e[0], e[1]))[1] == 'W' for _, e in succ)
                        if fm == 'R' and not wbarge and not possible_writers(j, obj):
                            for kk, pp, mm in ws:
                                ev = res['tr'][done[(kk, pp)]] if (kk, pp) in done else None
                                if ev is None or ev[4] != now:
                                    fails.append(('viol', 'lock %d became free at t=%d, only readers wait %s, but reader T%d was not admitted at that instant' % (obj, now, ws, kk)))
        elif name in ('rw_waiters', 'q_waiters') and a and 0 <= a[0] < len(decls) and kinds[a[0]] == ('rwlock' if name == 'rw_waiters' else 'qrwlock'):
            # nobody can be parked on a condition variable of the lock without being inside a blocking lock() of that mode
            obj = a[0]
            infl = {'R': 0, 'W': 0}
            for kk in range(len(th)):
                if kk == k: continue
                pcs = [pp for pp in range(len(th[kk])) if done.get((kk, pp), 1 << 60) > j]
                if not pcs: continue
                oo = opof(kk, pcs[0]); lo2 = lock_obj(oo)
                if lo2 and lo2[0] == obj and lo2[1] and oo[0] != 'q_try': infl[lo2[1]] += 1
            if name == 'q_waiters':
                nu, ns = ret // 1000, ret % 1000
                if ret < 0 or nu > infl['W'] or ns > infl['R']:
                    fails.append(('viol', 'q_waiters reports %d on cv_unique / %d on cv_shared at t=%d but only %d writers / %d readers are inside lock()' % (nu, ns, now, infl['W'], infl['R'])))
            elif ret < 0 or ret > infl['W'] + infl['R']:
                fails.append(('viol', 'rw_waiters reports %d at t=%d but only %d threads are inside lock()' % (ret, now, infl['W'] + infl['R'])))
        elif name in ('rw_state', 'q_state') and a and 0 <= a[0] < len(decls) and kinds[a[0]] == ('rwlock' if name == 'rw_state' else 'qrwlock'):
            hs = holders[a[0]]
            exp = -1 if any(x[1] == 'W' for x in hs) else len(hs)
            if ret != exp:
                fails.append(('viol', 'state word is %d at t=%d but the holders are %s' % (ret, now, hs)))
    # end of run: a locker blocked for ever on a lock nobody holds
    for (k, pc) in res['blocked']:
        lo = lock_obj(opof(k, pc))
        if lo and lo[1] and not holders[lo[0]]:
            fails.append(('viol', 'T%d is blocked for ever in op %d (%s) although lock %d has no holder' % (k, pc, opof(k, pc)[0], lo[0])))
    return fails


class Check(DiffCheck):
    id = 'C06'
    # lockset engine (lib/lockset.py): rwlock.state only changes under its mutex; cvar enqueue with the mutex still held
    lockset_rules = {10, 11, 12, 13, 14, 15, 23}
    # E4S (lib/e4s.py): controlled 2-vCPU schedule search with this property's oracle (preemption at every lock boundary)
    e4s_props = {'C06'}
    needs_libphoton = True
    coq_dirs = ['Base', 'C04', 'Sched', 'E3', 'C06']
    coq_targets = ['C06/C06_Proofs.vo']
    properties_v = 'C06/C06_Properties.v'
    extract_v = 'C06/C06_Extract.v'
    model_module = 'C06_model'
    rule = ('P cases (E2): corpus (scenario programs incl. the single-vCPU witnesses); random reader/writer programs of 2-6 threads over 1-2 '
            'rwlock or qrwlock objects: lock sections (mode R/W, rarely invalid; timeout from {inf,0,h/2,h,3h/2,2h,3h,10h} around the hold time h), '
            'holds by usleep/yield, nested read locks, try_lock (qrwlock), state probes, interrupts aimed at the other threads; '
            'structured programs for the BLOCKING path (3 in 4 on qrwlock: do_lock slow path, cv_unique/cv_shared, try_wake): a conductor going '
            'through 2-4 sections with unlock followed by the next lock without a yield (downgrade / upgrade / re-take), waiters of both modes whose '
            'deadlines fall inside a later hold, on an unlock instant or never, interrupts at parked waiters, probes of the state word and of the '
            'cv queues (q_waiters/rw_waiters); crowds of 3-6 waiters on both cvs behind a writer. '
            'Q cases (E3): exhaustive schedule prefixes + random bursty schedules of try_lock/unlock scripts over the atomic steps of lock_state/spin. '
            'B cases (E3, blocking qrwlock path between OS threads: every atomic op on lock_state/spin, cv enqueue, notify, timer expiry is a scheduled '
            'point): exhaustive schedule words / 4-segment schedules on 2-3 participants (last unlock vs a locker between failed fast path, spin and '
            'enqueue; timer vs unlock; writer timing out while readers are parked; downgrade) + random bursty schedules with timer entries on 2-4. '
            'non-trivial = a reader and a writer section on the same lock in different threads')
    assumptions = ['sequential consistency', 'clients unlock only what they hold', 'fewer than 2^63-2 simultaneous read holds (int64 state)',
                   'mtx (photon::mutex) provides mutual exclusion (property C01)']
    trusted_base = ['E2 hooks H-clock/H-idle (repo_patches/E2-hooks.diff)']
    partial_note = ('rwlock: single-vCPU tie only (E2); qrwlock: E2 + E3 (SC interleavings between OS threads, cv stand-ins); the cross-vCPU windows of rwlock::unlock (F18) are model-level findings (witness schedules in Coq) '
                    'that E2 cannot replay')
    case_timeout = 7200     # thorough shards (E2 forked runs + 100 000 E3 schedules) take long on a loaded machine

    def __init__(self):
        self.runner_ml = e2lib.make_runner(self.id, ['ocaml/E2_lib.ml', 'ocaml/C06_run.ml'])
        self._last = None

    def build_impl(self):
        e2 = e2lib.build_impl(self.id, ['harness/C06/ops_rw.cpp', 'harness/C06/ops_qrw.cpp'], out=os.path.join(BUILD, 'bin', 'C06_e2'))
        e3, log = cxx_build(self.id, ['harness/C06/qrw_e3.cpp'], libphoton=True, out=os.path.join(BUILD, 'bin', 'C06_e3'))
        if not e3: raise RuntimeError(log[-3000:])
        e3b, log = cxx_build(self.id, ['harness/C06/qrw_e3b.cpp'], libphoton=True, out=os.path.join(BUILD, 'bin', 'C06_e3b'))
        if not e3b: raise RuntimeError(log[-3000:])
        disp = os.path.join(BUILD, 'bin', 'C06_impl')
        open(disp, 'w').write('#!/bin/sh\nexec python3 %s %s %s %s "$1"\n' % (os.path.join(VERIF, 'harness', 'C06', 'dispatch.py'), e2, e3, e3b))
        os.chmod(disp, 0o755)
        return disp

    def gen_cases(self, tier, rng):
        cs = []
        cp = os.path.join(VERIF, 'replay', 'corpus', 'C06.cases')
        if os.path.exists(cp):
            cs += [l.strip() for l in open(cp) if l.strip() and not l.startswith('#')]
        cs += CORPUS
        nprog = 400 if tier == 'quick' else 8000
        for i in range(nprog):
            cs.append(gen_prog(rng, big=(i % 10 == 9)))
        # the blocking path of qrwlock (and, 1 in 4, of rwlock): structured downgrade / re-take programs and crowds on both cvs
        for i in range(360 if tier == 'quick' else 6000):
            cs.append(gen_scn(rng) if i % 4 else gen_crowd(rng))
        cs += gen_q_exhaustive(tier)
        for i in range(1500 if tier == 'quick' else 40000):
            cs.append(gen_q_random(rng))
        # E3 on the BLOCKING path of qrwlock (do_lock / try_wake / cv_unique / cv_shared between OS threads)
        cs += gen_b_exhaustive(tier)
        for i in range(1500 if tier == 'quick' else 60000):
            cs.append(gen_b_random(rng))
        return list(dict.fromkeys(cs))

    def canon(self, line):
        self._last = line.strip()
        return self._last

    def nontrivial(self, case):
        if case.startswith('B'):
            sc = [x.split() for x in case.split('|')[1:-1]]
            return sum(1 for x in sc if any(o[0] in 'LT' for o in x)) >= 2 and any(o[:2] in ('Lw', 'Tw') for x in sc for o in x)
        if case.startswith('Q'):
            sc = [x.split() for x in case.split('|')[1:-1]]
            return sum(1 for x in sc if 'w' in x or 'r' in x) >= 2 and any('w' in x for x in sc)
        decls, th = e2lib.parse_case(case)
        seen = {}
        for k, t in enumerate(th):
            for name, a in t:
                if name in ('rw_lock', 'q_lock', 'q_try') and len(a) > 1:
                    seen.setdefault(a[0], set()).add((k, 'W' if a[1] == WLOCK else 'R'))
        for obj, s in seen.items():
            ws = set(k for k, m in s if m == 'W'); rs = set(k for k, m in s if m == 'R')
            if ws and rs and len(ws | rs) > 1: return True
        return False

    def category(self, case):
        if case.startswith('Q'): return 'Q:%dp' % (len(case.split('|')) - 2)
        if case.startswith('B'):
            timed = any(len(o) > 2 and o[0] == 'L' for x in case.split('|')[1:-1] for o in x.split())
            return 'B:%dp:%s' % (len(case.split('|')) - 2, 'timed' if timed else 'untimed')
        decls, th = e2lib.parse_case(case)
        ops = [o[0] for t in th for o in t]
        kind = 'q' if any(d[0] == 'qrwlock' for d in decls) and not any(d[0] == 'rwlock' for d in decls) else 'rw' if not any(d[0] == 'qrwlock' for d in decls) else 'mix'
        if 'q_waiters' in ops or 'rw_waiters' in ops: ops.append('waiters')
        return 'P:%s:%dthr:%s' % (kind, len(th), '+'.join(x for x in ('interrupt', 'q_try', 'waiters') if x in ops) or 'plain')

    def oracle(self, case, out):
        if case.startswith('Q'): return analyse_q(case, out)
        a = analyse_b(case, out) if case.startswith('B') else analyse(case, out)
        v = [x for x in a if x[0] == 'viol']
        return v[0][1] if v else (a[0][1] if a else None)

    def known_class(self, case):
        # classification needs the implementation's trace: `canon` (called on the implementation's line
        # immediately before this) stashed it.  A case is in the class only if EVERY failure the oracle
        # sees in it has exactly the shape of scenario (a) (notes/C06.md, finding C06-convoy).
        if case.startswith('Q') or self._last is None: return None
        a = analyse_b(case, self._last) if case.startswith('B') else analyse(case, self._last)
        if a and all(k == 'convoy' for k, _ in a): return 'C06-convoy'
        return None

    def neighbours(self, case, rng):
        if case.startswith('Q') or case.startswith('B'): return []
        d, th = e2lib.parse_case(case)
        out = []
        for k in range(len(th)):
            for i in range(len(th[k])):
                if th[k][i][0] == 'create': continue
                t2 = [list(x) for x in th]; del t2[k][i]
                out.append(e2lib.fmt_case(d, t2))
        return out[:200]


if __name__ == '__main__':
    sys.exit(Check().main(sys.argv[1:]))
