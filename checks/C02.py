# C02 — semaphore: tokens conserved, no lost wake-up, safe to destroy after wait.
# Engine E2 (thread programs on the real scheduler, single vCPU, virtual clock): the fine-grained
# model coq/C02/C02_Model.v is driven thread by thread by coq/C02/C02_Coop.v and compared with the
# implementation's trace; + a destroy-after-wait harness (semaphore in its own page, made
# inaccessible the moment wait() returns); + replay of the F9 deadlock witness in a child process.
import sys, subprocess
from vlib import *
sys.path.insert(0, os.path.join(VERIF, 'harness', 'E2'))
import e2lib

MAX64 = (1 << 64) - 1
ETIMEDOUT, ESHUTDOWN, EINTR = 110, 108, 4
PROBE_SLEEP = 1000000          # the final probe of T0 runs at a virtual time nobody else reaches


def u64(x):
    return x + (1 << 64) if x < 0 else x


# ------------------------------------------------------------------ generator -----
def gen_prog(rng, mode=None):
    """one semaphore program.  mode: 'uni' (one demand value: both resume modes), 'mix' (mixed demands, in-order only)"""
    mode = mode or ('uni' if rng.random() < .55 else 'mix')
    n = rng.randint(3, 6)
    nsem = 1 if rng.random() < .85 else 2
    d = rng.choice([1, 1, 1, 2, 3])
    in_order = [1 if (mode == 'mix' or rng.random() < .6) else 0 for _ in range(nsem)]
    decls = [('sem', [rng.randint(0, 5) if rng.random() < .5 else 0, in_order[i]]) for i in range(nsem)]
    tpal = rng.choice([[100, 100, 200], [50, 100, 150], [100], [10, 20, 30, 40], [100, 300, 300]])

    def demand():
        if mode == 'uni': return d
        r = rng.random()
        if r < .05: return 0
        return rng.choice([1, 1, 2, 2, 3, 4, 5])

    def tmo():
        r = rng.random()
        if r < .45: return -1
        if r < .52: return 0
        return rng.choice(tpal)

    def gen_op(k):
        i = rng.randrange(nsem)
        r = rng.random()
        if r < .30: return (rng.choice(['sem_wait', 'sem_waiti', 'sem_waiti']), [i, demand(), tmo()])
        if r < .55: return ('sem_signal', [i, rng.choice([0, 1, 1, 1, 2, 2, 3, 4, 5]) if mode == 'mix' else rng.choice([0, d, d, d, 2 * d, 3 * d, 1, 2])])
        if r < .68: return ('interrupt', [rng.randrange(n), rng.choice([EINTR, EINTR, 11, ETIMEDOUT, ESHUTDOWN])])
        if r < .80: return ('usleep', [rng.choice(tpal + [0])])
        if r < .90: return ('yield', [])
        if r < .96: return ('sem_count', [i])
        return ('sem_head', [i])

    threads = [[gen_op(k) for _ in range(rng.randint(2, 9))] for k in range(n)]
    style = rng.random()
    if style < .25:
        # waiters first, then a signaller: queues of length >= 2 and resume passes over them
        for k in range(1, n - 1):
            threads[k] = [('sem_wait' if rng.random() < .5 else 'sem_waiti', [0, demand(), tmo()]) for _ in range(rng.randint(1, 3))]
        threads[n - 1] = [rng.choice([('sem_signal', [0, rng.choice([1, 2, 3, d, 2 * d])]), ('usleep', [rng.choice(tpal)]), ('yield', []),
                                      ('interrupt', [rng.randrange(1, n), EINTR])]) for _ in range(rng.randint(3, 10))]
    elif style < .40:
        # barging shape: two waiters, a signal, and a late arrival that runs before the woken waiter
        a, b = demand(), demand()
        threads[1] = [('sem_waiti', [0, a, tmo()])]
        threads[2] = [('sem_waiti', [0, b, tmo()])]
        threads[0] = [('yield', []), ('sem_signal', [0, rng.choice([a, b, a + b, max(a, b)])]), ('yield', [])] + threads[0][:3]
        for k in range(3, n):
            threads[k] = [('sem_waiti', [0, demand(), tmo()])] + threads[k][:2]
    for k in range(1, n):
        threads[0].insert(k - 1, ('create', [k, 0]))
    if style >= .25 and style < .40:
        # the late arrivals are created after the waiters have blocked
        creates = [o for o in threads[0] if o[0] == 'create']
        rest = [o for o in threads[0] if o[0] != 'create']
        threads[0] = creates[:2] + rest[:1] + creates[2:] + rest[1:]
    # the final probe at quiescence
    threads[0] += [('usleep', [PROBE_SLEEP])]
    for i in range(nsem):
        threads[0] += [('sem_head', [i]), ('sem_count', [i])]
    return e2lib.fmt_case(decls, threads)


# ------------------------------------------------------------------ the property oracle -----
def analyse(case, out):
    """The property evaluated on the IMPLEMENTATION's trace, independently of the Coq model.
    Returns [(kind, message)], kind in 'viol', 'hang', 'barge'.
      ledger      every sem_count result equals initial + signalled - taken by waits that returned 0
                  (ops complete atomically on one vCPU, in trace order); a wait returns only 0 or -1
      quiescence  at the final probe (a moment when every other thread is blocked): not (a waiter is at
                  the head of the queue and its demand <= count); at the end of the run: not every blocked
                  waiter's demand <= count (out-of-order mode: not any)"""
    res = []
    if out.startswith('HANG') or out.startswith('STUCK'):
        return [('hang', 'the program never finishes: a thread spins for ever (deadlock): ' + out[:120])]
    if out.startswith(('CRASH', 'NONDET', 'NOOUTPUT', 'BADCASE', 'INITFAIL', 'PIPEFAIL', 'FUEL', 'IDLE-LIMIT', 'TRACE-LIMIT')):
        return [('viol', 'implementation failed: ' + out[:200])]
    r = e2lib.parse_result(out)
    if r is None:
        return [('viol', 'unparsable output: %r' % out[:200])]
    decls, threads = e2lib.parse_case(case)
    sems = {i: dict(count=u64(d[1][0]) if d[1] else 0, inorder=(d[1][1] != 0) if len(d[1]) > 1 else True)
            for i, d in enumerate(decls) if d[0] == 'sem'}
    times = {}
    for (t, pc, ret, err, now) in r['tr']:
        times[now] = times.get(now, set()) | {t}
    last_head = {}
    prev_op = {}
    for (t, pc, ret, err, now) in r['tr']:
        if t >= len(threads) or pc >= len(threads[t]):
            res.append(('viol', 'trace event for a non-existent op %d.%d' % (t, pc))); continue
        name, args = threads[t][pc]
        if name.startswith('sem_') and (not args or args[0] not in sems):
            if ret != -2: res.append(('viol', 'T%d.%d %s on a non-semaphore returned %d' % (t, pc, name, ret)))
            continue
        if name in ('sem_wait', 'sem_waiti'):
            s = sems[args[0]]; c = u64(args[1])
            if ret == 0:
                if s['count'] < c:
                    res.append(('viol', 'T%d.%d %s(%d) returned 0 but only %d tokens were available (ledger)' % (t, pc, name, c, s['count'])))
                s['count'] -= c
            elif ret == -1:
                if name == 'sem_wait' and err not in (ETIMEDOUT, ESHUTDOWN):
                    res.append(('viol', 'T%d.%d wait() returned -1 with errno %d (only ETIMEDOUT/ESHUTDOWN may end it)' % (t, pc, err)))
                if err == ETIMEDOUT and u64(args[2]) == MAX64 and not any(o[0] == 'interrupt' and o[1][1] == ETIMEDOUT for th in threads for o in th):
                    res.append(('viol', 'T%d.%d wait without timeout returned ETIMEDOUT' % (t, pc)))
            else:
                res.append(('viol', 'T%d.%d %s returned %d' % (t, pc, name, ret)))
        elif name == 'sem_signal':
            if ret != 0: res.append(('viol', 'T%d.%d signal returned %d' % (t, pc, ret)))
            sems[args[0]]['count'] = (sems[args[0]]['count'] + u64(args[1])) % (1 << 64)
        elif name == 'sem_count':
            if ret != sems[args[0]]['count']:
                res.append(('viol', 'T%d.%d count() = %d but initial + signalled - taken = %d (conservation)' % (t, pc, ret, sems[args[0]]['count'])))
            po = prev_op.get(t)
            if po and po[0] == 'sem_head' and po[1] == args[0] and po[4]:
                hd = po[2]
                if hd != 0 and hd <= ret:
                    res.append(('barge', 'at quiescence (T%d probe at %d) the waiter at the head of sem %d needs %d and the count is %d, but it stays blocked' % (t, now, args[0], hd, ret)))
        quiet = False
        if name == 'sem_head':
            po = prev_op.get(t)
            # quiescent probe: preceded (possibly via other probes) by a usleep that returned 0 at a time no other thread shares
            quiet = bool(po and ((po[0] == 'usleep' and po[3] == 0 and times.get(now) == {t}) or (po[0] in ('sem_head', 'sem_count') and po[4])))
        elif name == 'sem_count':
            po = prev_op.get(t)
            quiet = bool(po and po[4])
        prev_op[t] = (name, args[0] if args else None, ret, ret, quiet)
    # end of run: blocked waiters
    for i, s in sems.items():
        bl = [u64(threads[t][pc][1][1]) for (t, pc) in r['blocked']
              if t < len(threads) and pc < len(threads[t]) and threads[t][pc][0] in ('sem_wait', 'sem_waiti') and threads[t][pc][1][0] == i]
        if bl:
            if s['inorder'] and all(c <= s['count'] for c in bl):
                res.append(('barge', 'end of run: every waiter blocked on sem %d (demands %s) is covered by the count %d' % (i, bl, s['count'])))
            if not s['inorder'] and any(c <= s['count'] for c in bl):
                res.append(('barge', 'end of run: a waiter blocked on out-of-order sem %d (demands %s) is covered by the count %d' % (i, bl, s['count'])))
    return res


def barging_evidence(case, out):
    """F35's class guard, evaluated on the IMPLEMENTATION's trace: did a barging actually happen?
    True iff on some semaphore there are a signal S (trace position i0), a wait of thread a that was
    pending at S (its thread had reached it: previous op completed / thread created before S; not
    completed at S) with demand <= count right after S (so a resume pass could have allotted it the
    tokens), and a wait of ANOTHER thread b that returned 0 after S although it was not queued at S
    (b's previous op completed after S, or it is b's first op), while a's wait had not yet returned 0.
    Without such an overtaking a blocked-but-covered head waiter is NOT F35 (it is an oracle violation)."""
    r = e2lib.parse_result(out)
    if r is None: return False
    decls, threads = e2lib.parse_case(case)
    sems = {i: (u64(d[1][0]) if d[1] else 0) for i, d in enumerate(decls) if d[0] == 'sem'}
    comp, created = {}, {0: -1}
    evs = []
    for idx, (t, pc, ret, err, now) in enumerate(r['tr']):
        if t >= len(threads) or pc >= len(threads[t]): return False
        comp[(t, pc)] = (idx, ret)
        name, args = threads[t][pc]
        if name == 'create' and args: created.setdefault(args[0], idx)
        evs.append((idx, t, pc, name, args, ret))
    def start_lb(t, pc):
        if pc > 0: return comp[(t, pc - 1)][0] if (t, pc - 1) in comp else None
        return created.get(t)
    waits = [(t, pc, a[0], u64(a[1])) for t, th in enumerate(threads) for pc, (n, a) in enumerate(th)
             if n in ('sem_wait', 'sem_waiti') and len(a) > 1 and a[0] in sems and u64(a[1]) != 0]
    cnt = dict(sems)
    for (idx, t, pc, name, args, ret) in evs:
        if name in ('sem_wait', 'sem_waiti') and args and args[0] in cnt and ret == 0:
            cnt[args[0]] -= u64(args[1])
        elif name == 'sem_signal' and args and args[0] in cnt:
            i = args[0]
            cnt[i] = (cnt[i] + u64(args[1])) % (1 << 64)
            after = cnt[i]
            for (ta, pa, ia, ca) in waits:
                if ia != i or ca > after: continue
                sa = start_lb(ta, pa)
                if sa is None or sa >= idx: continue
                ka = comp.get((ta, pa))
                if ka is not None and ka[0] < idx: continue            # a had already returned at S
                a_done = ka[0] if (ka is not None and ka[1] == 0) else None   # position where a finally got its tokens
                for (tb, pb, ib, cb) in waits:
                    if ib != i or tb == ta: continue
                    kb = comp.get((tb, pb))
                    if kb is None or kb[1] != 0 or kb[0] <= idx: continue
                    if a_done is not None and a_done < kb[0]: continue
                    sb = start_lb(tb, pb)
                    if pb == 0 or (sb is not None and sb >= idx):   # sb == idx: b is the signaller itself, its wait is issued right after S
                        return True
    return False


def demands_of(case):
    decls, threads = e2lib.parse_case(case)
    ds = {}
    for th in threads:
        for name, args in th:
            if name in ('sem_wait', 'sem_waiti') and len(args) > 1 and u64(args[1]) != 0:
                ds.setdefault(args[0], set()).add(u64(args[1]))
    return decls, ds


class Check(DiffCheck):
    id = 'C02'
    needs_libphoton = True
    coq_dirs = ['Base', 'C04', 'Sched', 'C02']
    coq_targets = ['C02/C02_Base.vo', 'C02/C02_Cons.vo', 'C02/C02_Safe.vo', 'C02/C02_Refute.vo', 'C02/C02_Locks.vo', 'C02/C02_LockProto.vo',
                   'C02/C02_Locks2.vo', 'C02/C02_Locks3.vo', 'C02/C02_Summ.vo', 'C02/C02_Credit.vo', 'C02/C02_Struct.vo', 'C02/C02_Other.vo',
                   'C02/C02_NLW.vo', 'C02/C02_Flow.vo', 'C02/C02_Flow2.vo', 'C02/C02_Flow3.vo', 'C02/C02_Aux.vo', 'C02/C02_NoBarge.vo', 'C02/C02_Coop.vo']
    properties_v = 'C02/C02_Properties.v'
    extract_v = 'C02/C02_Extract.v'
    model_module = 'C02_model'
    rule = ('E2 programs (single vCPU, virtual clock): 3-6 threads x 2-9 ops mixing sem_wait / sem_waiti (demands 0-5, timeouts none/0/finite), '
            'sem_signal (0-5), interrupt (EINTR, EAGAIN, ETIMEDOUT, ESHUTDOWN), usleep, yield, count()/head probes; 1-2 semaphores, initial count 0-5; '
            'uniform-demand programs in both resume modes, mixed-demand programs in in-order mode; shapes: queue of waiters + signaller, barging arrival; '
            'every program ends with a probe (head demand, count) at quiescence.  non-trivial = a wait blocks and is later resumed, times out or is interrupted')
    assumptions = ['sequential consistency', 'positive theorems (in-order resume mode): sem_no_lost_wakeup_inorder_uniform - all waits on the semaphore use one demand value; sem_no_lost_wakeup_inorder_nobarge - any demands, guard = ghost g_refail false (no woken waiter was overtaken: complement of known finding "barging" F35) and no thread_interrupt with error number -1',
                   'out-of-order mode with mixed demands is the class of known finding F9 (self-deadlock)']
    trusted_base = ['E2 hooks H-clock/H-idle', 'harness reads thread::semaphore_count of q.th at offset 0x48 (static_assert in thread.cpp) for the head probe']
    partial_note = ('cross-vCPU interleavings are covered by the theorems over the fine-grained model only; the tie to the code is single-vCPU (E2) '
                    '+ a non-deterministic OS-thread stress for destroy-after-wait (E4 not built)')
    case_timeout = 1500
    lockset_rules = {10, 11, 12, 13, 14, 15, 21, 22, 24}
    # E4S (lib/e4s.py): controlled 2-vCPU schedule search with this property's oracle (preemption at every lock boundary)
    e4s_props = {'C02'}

    def __init__(self):
        self.runner_ml = e2lib.make_runner(self.id, ['ocaml/E2_lib.ml', 'ocaml/C02_run.ml'])
        self._last = None

    def build_impl(self):
        self.destroy_exe, log = cxx_build(self.id, ['harness/C02/destroy.cpp'], libphoton=True, out=os.path.join(BUILD, 'bin', 'C02_destroy'))
        if not self.destroy_exe: raise RuntimeError(log[-3000:])
        return e2lib.build_impl(self.id, ['harness/C02/ops_sem.cpp'])

    def corpus(self, name):
        cp = os.path.join(VERIF, 'replay', 'corpus', name)
        return [l.strip() for l in open(cp) if l.strip() and not l.startswith('#')] if os.path.exists(cp) else []

    def gen_cases(self, tier, rng):
        cs = self.corpus('C02.cases')
        n = 1200 if tier == 'quick' else 30000
        cs += [gen_prog(rng) for _ in range(n)]
        return list(dict.fromkeys(cs))

    def canon(self, line):
        self._last = line.strip()
        return self._last

    def nontrivial(self, case):
        _, th = e2lib.parse_case(case)
        ops = [o for t in th for o in t]
        return any(o[0] in ('sem_wait', 'sem_waiti') for o in ops) and any(o[0] in ('sem_signal', 'interrupt') for o in ops)

    def category(self, case):
        decls, ds = demands_of(case)
        mixed = any(len(v) > 1 for v in ds.values())
        ooo = any(d[0] == 'sem' and len(d[1]) > 1 and d[1][1] == 0 for d in decls)
        _, th = e2lib.parse_case(case)
        ops = set(o[0] for t in th for o in t)
        return '%s:%s:%s' % ('ooo' if ooo else 'inorder', 'mixed' if mixed else 'uniform', '+'.join(k for k in ('interrupt', 'usleep') if k in ops) or 'plain')

    def oracle(self, case, out):
        a = analyse(case, out)
        return a[0][1] if a else None

    def known_class(self, case):
        # needs the implementation's trace: `canon` (called on the implementation's line just before) stashed it.
        # A case is in a known class only if EVERY failure the oracle sees has that finding's shape AND the
        # case satisfies the finding's class guard (F35: mixed demands on the semaphore AND the implementation's
        # trace shows an actual overtaking - a late wait returned 0 while a waiter that a signal could have
        # woken had not yet got its tokens, see barging_evidence; F9: out-of-order mode with mixed demands).
        if self._last is None: return None
        a = analyse(case, self._last)
        kinds = set(k for k, _ in a)
        if not a or 'viol' in kinds: return None
        decls, ds = demands_of(case)
        mixed = any(len(v) > 1 for v in ds.values())
        ooo_mixed = any(len(v) > 1 and decls[i][0] == 'sem' and len(decls[i][1]) > 1 and decls[i][1][1] == 0 for i, v in ds.items() if i < len(decls))
        if kinds == {'hang'}: return 'F9' if ooo_mixed else None
        if kinds == {'barge'}: return 'F35' if (mixed and barging_evidence(case, self._last)) else None
        return None

    def neighbours(self, case, rng):
        d, th = e2lib.parse_case(case)
        out = []
        for k in range(len(th)):
            for i in range(len(th[k])):
                if th[k][i][0] == 'create': continue
                t2 = [list(x) for x in th]; del t2[k][i]
                out.append(e2lib.fmt_case(d, t2))
        return out[:200]

    def extra(self, ctx):
        """(1) the F9 witnesses: the model predicts a thread that spins for ever (STUCK); the implementation must
        still be spinning after the time limit (HANG) — run in a child with a short limit, once each.
        (2) destroy-after-wait on the implementation: the semaphore lives in a page of its own that is made
        inaccessible as soon as wait() returns; signaller = another photon thread (deterministic) and another
        OS thread (non-deterministic stress: can only fail by a real fault, never by timing)."""
        v = []
        cov = {}
        wit = self.corpus('C02_F9.cases')
        if wit and ctx['model_exe'] and ctx['impl_exe']:
            mo = run_cases(ctx['model_exe'], wit, ctx['tmp'], 'f9m', timeout=300)
            env = self.impl_env(); env['E2_TIMEOUT_MS'] = '3000'; env['E2_ONCE'] = '1'
            io = run_cases(ctx['impl_exe'], wit, ctx['tmp'], 'f9i', timeout=600, env=env, nshards=1)
            conf = 0
            for c, m, i in zip(wit, mo, io):
                ms, is_ = (m or '').startswith('STUCK'), (i or '').startswith('HANG')
                if ms and is_: conf += 1
                elif ms != is_:
                    v.append(dict(kind='correspondence', message='F9 witness: model %s but implementation %s' % ('deadlocks' if ms else 'terminates', 'hangs' if is_ else 'terminates'),
                                  case=c, model_out=m, impl_out=i))
            cov['f9_witnesses_confirmed'] = '%d/%d (model STUCK and implementation still spinning after 3000 ms)' % (conf, len(wit))
        if getattr(self, 'destroy_exe', None):
            n = 300 if ctx['tier'] == 'quick' else 3000
            try:
                p = subprocess.run([self.destroy_exe, str(ctx['seed']), str(n)], stdout=subprocess.PIPE, stderr=subprocess.STDOUT, timeout=900,
                                   universal_newlines=True, errors='replace')
                outp = p.stdout.strip().splitlines()
                last = outp[-1] if outp else ''
                if p.returncode != 0 or not last.startswith('OK'):
                    v.append(dict(kind='oracle', message='destroy-after-wait: the signaller touched the semaphore after wait() returned (or the harness failed): rc=%d %s' % (p.returncode, ' / '.join(outp[-3:])[:600]),
                                  case='destroy %d %d' % (ctx['seed'], n)))
                cov['destroy_after_wait'] = last
            except subprocess.TimeoutExpired:
                v.append(dict(kind='oracle', message='destroy-after-wait harness timed out (a wait or signal never returned)', case='destroy %d %d' % (ctx['seed'], n)))
        self.extra_coverage = dict(getattr(self, 'extra_coverage', {}) or {}); self.extra_coverage.update(cov)
        return v


if __name__ == '__main__':
    sys.exit(Check().main(sys.argv[1:]))
