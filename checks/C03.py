# C03 — condition variable: model coq/C03 (fine-grained, any vCPUs), tie = engine E2 (single-vCPU
# deterministic replay of the real scheduler): harness/E2 + harness/C03/ops_c03.cpp
import re
import sys
from vlib import *

W = 1 << 64
MAXU = W - 1
ETIMEDOUT = 110


def sat_add(a, b):
    return min(MAXU, a + b)


def parse_case(case):
    secs = case[1:].split('|')
    def items(sec):
        t = sec.strip()
        if t in ('', '-'):
            return []
        return [p.split() for p in t.split(';')]
    return items(secs[0]), [items(s) for s in secs[1:]]


def parse_trace(line):
    """-> (prefix, events [(k, i, ret, err, now)], blocked [(k,i)], end) or None"""
    m = re.match(r'^(?:(\S+) )?tr=(\S+) blocked=(\S+) end=(\d+)$', line)
    if not m:
        return None
    evs = []
    if m.group(2) != '-':
        for x in m.group(2).split(','):
            mm = re.match(r'^(\d+)\.(\d+):(-?\d+)/(-?\d+)@(\d+)$', x)
            if not mm:
                return None
            evs.append(tuple(int(g) for g in mm.groups()))
    bl = []
    if m.group(3) != '-':
        bl = [tuple(int(y) for y in x.split('.')) for x in m.group(3).split(',')]
    return m.group(1) or '', evs, bl, int(m.group(4))


class Check(DiffCheck):
    id = 'C03'
    # lockset engine (lib/lockset.py): release-and-wait atomicity and the thread.lock/waitq.lock discipline the model's blocks assume
    lockset_rules = {10, 11, 12, 13, 14, 15}
    # E4S (lib/e4s.py): controlled 2-vCPU schedule search with this property's oracle (preemption at every lock boundary)
    e4s_props = {'C03'}
    coq_dirs = ['Base', 'C03']          # + coq/C04/C04_Heap.v alone (scanned in extra(); the rest of C04 is another property's)
    coq_targets = ['C03/C03_WF.vo', 'C03/C03_Proofs.vo', 'C03/C03_Queue.vo', 'C03/C03_Notify.vo', 'C03/C03_Result.vo', 'C03/C03_IntrRace.vo', 'C03/C03_Locked.vo', 'C03/C03_NeverBad.vo', 'C03/C03_NoIntr.vo']
    properties_v = 'C03/C03_Properties.v'
    extract_v = 'C03/C03_Extract.v'
    runner_ml = 'ocaml/C03_run.ml'
    model_module = 'C03_model'
    case_timeout = 1500
    rule = ('cases: corpus; hand-written families (notifier with / without the lock, timeout = / just below / just above the notify '
            'time, several waiters, notify_all, interrupts at every phase, mutex and spinlock); PRNG programs of 2-6 threads over '
            '1-2 locks and 1-2 condition variables, plus a malformed stream (wait/unlock without the lock, double lock). '
            'non-trivial = the program has a wait that overlaps a notify or has a finite timeout')
    assumptions = ['single vCPU for the tie (E2); the all-interleavings theorems are about the same step function',
                   'mutex is abstract in the model (owner + wait queue, max_retries = 0); its internal splock protocol is C01',
                   'sequential consistency; no migration / work stealing; interrupt error numbers > 0',
                   "'notified => returns 0' is proved for interrupt-free programs and proved REFUTED with thread_interrupt across vCPUs (finding F-C03-1)"]
    trusted_base = ['E2 engine (harness/E2, hooks H-clock/H-idle in thread.cpp)']
    partial_note = ''

    def build_impl(self):
        sys.path.insert(0, os.path.join(VERIF, 'harness', 'E2'))
        import e2lib
        exe = e2lib.build_impl(self.id, ['harness/C03/ops_c03.cpp'], out=os.path.join(BUILD, 'bin', 'C03_e2'))
        # The E2 driver reports HANG after a REAL-time limit; on a heavily loaded machine a healthy case can exceed it.
        # No verdict may depend on real time: a case whose line is HANG/NONDET/NOOUTPUT is re-run alone with a much
        # longer limit before its result is used (a genuine hang stays a HANG and costs the long limit once).
        wrap = os.path.join(BUILD, 'bin', 'C03_impl')
        with open(wrap, 'w') as f:
            f.write('''#!/usr/bin/env python3
import sys, os, subprocess, tempfile
exe = %r
def run(lines, ms):
    with tempfile.NamedTemporaryFile('w', suffix='.cases', delete=False) as t:
        t.write('\\n'.join(lines) + '\\n'); fn = t.name
    env = dict(os.environ, E2_TIMEOUT_MS=str(ms))
    out = subprocess.run([exe, fn], stdout=subprocess.PIPE, universal_newlines=True, env=env).stdout.split('\\n')
    os.unlink(fn)
    return out[:len(lines)] + ['NOOUTPUT'] * (len(lines) - len(out[:len(lines)]))
cases = [l for l in open(sys.argv[1]).read().split('\\n') if l and not l.startswith('#')]
suspicious = lambda l: l.startswith(('HANG', 'NONDET', 'NOOUTPUT', 'PIPEFAIL')) or l == ''
CH = 25
for i in range(0, len(cases), CH):
    chunk = cases[i:i + CH]
    res = run(chunk, 60000)
    for c, l in zip(chunk, res):
        if suspicious(l):
            l = run([c], 600000)[0]
        print(l); sys.stdout.flush()
''' % exe)
        os.chmod(wrap, 0o755)
        return wrap

    def extra(self, ctx):
        # the one file of coq/C04 this development depends on must be free of forbidden declarations too
        txt = re.sub(r'\(\*.*?\*\)', ' ', open(os.path.join(COQ, 'C04', 'C04_Heap.v')).read(), flags=re.S)
        hits = [m.group(1) for m in FORBIDDEN.finditer(txt)]
        return [dict(kind='proof', message='forbidden declarations in coq/C04/C04_Heap.v: %s' % hits, case=None)] if hits else []

    # ------------------------------------------------------------------ generator
    def gen_program(self, rng, malformed=False):
        nl = rng.choice([1, 1, 2])
        ncv = rng.choice([1, 1, 2])
        kinds = [rng.choice(['c3mutex', 'c3spin']) for _ in range(nl)]
        decls = kinds + ['c3cv'] * ncv
        locks = list(range(nl))
        cvs = list(range(nl, nl + ncv))
        nt = rng.randrange(2, 7)
        base = rng.choice([50, 100, 100, 200])
        times = [0, 1, base - 1, base, base + 1, base // 2, 2 * base, 2 * base + 1, 1000, 1001, -1, -1]
        sleeps = [1, base - 1, base, base + 1, base // 2, 2 * base, 999, 1000, 1001]
        # by default every cv is used with one fixed lock (as the property text assumes)
        cvlock = {c: rng.choice(locks) for c in cvs}
        progs = []
        for k in range(nt):
            ops = []
            if k == 0:
                order = list(range(1, nt))
                if rng.random() < 0.3:
                    rng.shuffle(order)
                ops += ['create %d 0' % j for j in order]
            else:
                ops.append('nop')
            nblocks = rng.randrange(1, 5)
            for _ in range(nblocks):
                r = rng.random()
                c = rng.choice(cvs)
                l = cvlock[c] if rng.random() < 0.9 else rng.choice(locks)
                spin = kinds[l] == 'c3spin'
                if r < 0.40:        # waiter
                    ops.append('c3lock %d' % l)
                    for _ in range(rng.choice([1, 1, 1, 2])):
                        ops.append('c3wait %d %d %d' % (c, l, rng.choice(times)))
                        if rng.random() < 0.15:
                            ops.append('c3n1 %d' % c)
                    ops.append('c3unlock %d' % l)
                elif r < 0.58:      # notifier holding the lock
                    ops.append('c3lock %d' % l)
                    if not spin and rng.random() < 0.3:
                        ops.append(rng.choice(['yield', 'usleep %d' % rng.choice(sleeps)]))
                    ops.append(rng.choice(['c3n1 %d', 'c3n1 %d', 'c3nall %d']) % c)
                    if rng.random() < 0.2:
                        ops.append(rng.choice(['c3n1 %d', 'c3nall %d']) % c)
                    if not spin and rng.random() < 0.2:
                        ops.append(rng.choice(['yield', 'usleep %d' % rng.choice(sleeps)]))
                    ops.append('c3unlock %d' % l)
                elif r < 0.72:      # notifier without the lock
                    ops.append(rng.choice(['c3n1 %d', 'c3n1 %d', 'c3nall %d']) % c)
                elif r < 0.86:
                    ops.append('usleep %d' % rng.choice(sleeps))
                elif r < 0.92:
                    ops.append('yield')
                else:
                    ops.append('interrupt %d %d' % (rng.randrange(0, nt), rng.choice([4, 4, 5, 11])))
            progs.append(ops)
        if malformed:
            # wait / unlock without the lock, double lock, (mutex only: a lock never released)
            for _ in range(rng.randrange(1, 4)):
                k = rng.randrange(nt)
                pos = rng.randrange(1, len(progs[k]) + 1)
                c = rng.choice(cvs); l = rng.choice(locks)
                bad = rng.choice(['c3wait %d %d %d' % (c, l, rng.choice(times)), 'c3unlock %d' % l, 'c3lock %d' % l if kinds[l] == 'c3mutex' else 'c3unlock %d' % l])
                progs[k].insert(pos, bad)
            progs = [self._spin_safe(p, kinds) for p in progs]
        return 'P ' + ';'.join(decls) + ' | ' + ' | '.join(';'.join(p) if p else '-' for p in progs)

    @staticmethod
    def _spin_safe(ops, kinds):
        """drop ops that could block (or end the thread) while a spinlock is held: a photon thread spinning on a lock whose
        holder is not running never returns (not the property's subject, and it would only cost the hang time-out)"""
        held = set()
        out = []
        for o in ops:
            w = o.split()
            hs = [l for l in held if kinds[l] == 'c3spin']
            if w[0] == 'c3lock':
                l = int(w[1])
                if l in held:
                    out.append(o); continue          # SKIPPED by the rule
                if hs:
                    continue
                held.add(l)
            elif w[0] == 'c3unlock':
                held.discard(int(w[1]))
            elif w[0] == 'c3wait':
                l = int(w[2])
                if l in held and any(h != l for h in hs):
                    continue
            elif w[0] in ('yield', 'usleep') and hs:
                continue
            out.append(o)
        for l in sorted(held):
            if kinds[l] == 'c3spin':
                out.append('c3unlock %d' % l)
        return out

    def families(self):
        cs = []
        for kind in ('c3mutex', 'c3spin'):
            d = 'P %s;c3cv | ' % kind
            for to in (0, 1, 99, 100, 101, 150, 200, -1):
                # (i) notifier holding the lock at t = 1100, one waiter with timeout `to`
                cs.append(d + 'create 1 0;usleep 100;c3lock 0;c3n1 1;c3unlock 0;usleep 300 | nop;c3lock 0;c3wait 1 0 %d;c3unlock 0' % to)
                # (ii) notifier without the lock
                cs.append(d + 'create 1 0;usleep 100;c3n1 1;usleep 300 | nop;c3lock 0;c3wait 1 0 %d;c3unlock 0' % to)
                # notify_all, three waiters, one of them with the varying timeout
                cs.append(d + 'create 1 0;create 2 0;create 3 0;usleep 100;c3nall 1;c3n1 1;usleep 300 | nop;c3lock 0;c3wait 1 0 %d;c3unlock 0 | '
                              'nop;c3lock 0;c3wait 1 0 -1;c3unlock 0 | nop;c3lock 0;c3wait 1 0 500;c3unlock 0' % to)
                # two notify_one for three waiters: the third one stays / times out
                cs.append(d + 'create 1 0;create 2 0;create 3 0;usleep 100;c3lock 0;c3n1 1;c3n1 1;c3unlock 0;usleep 300;c3n1 1;c3n1 1 | nop;c3lock 0;c3wait 1 0 %d;c3unlock 0 | '
                              'nop;c3lock 0;c3wait 1 0 -1;c3unlock 0 | nop;c3lock 0;c3wait 1 0 %d;c3unlock 0' % (to, to))
                # interrupt while waiting / after the notify / after the timeout but before the waiter runs
                cs.append(d + 'create 1 0;usleep 100;interrupt 1 4;c3n1 1;usleep 300 | nop;c3lock 0;c3wait 1 0 %d;c3unlock 0' % to)
                cs.append(d + 'create 1 0;usleep 100;c3n1 1;interrupt 1 4;usleep 300 | nop;c3lock 0;c3wait 1 0 %d;c3unlock 0' % to)
                cs.append(d + 'create 1 0;interrupt 1 4;usleep 100;c3n1 1;usleep 300 | nop;c3lock 0;c3wait 1 0 %d;c3unlock 0' % to)
                # the waiter must re-acquire a lock that the notifier keeps for a while
                if kind == 'c3mutex':
                    cs.append(d + 'create 1 0;usleep 100;c3lock 0;c3n1 1;usleep 50;c3unlock 0;usleep 300 | nop;c3lock 0;c3wait 1 0 %d;c3unlock 0' % to)
                    # ... and is interrupted while queued on the mutex: lock fails, 1 ms retry (1871-1873)
                    cs.append(d + 'create 1 0;usleep 100;c3lock 0;c3n1 1;usleep 50;interrupt 1 4;usleep 50;c3unlock 0;usleep 3000 | nop;c3lock 0;c3wait 1 0 %d;c3unlock 0' % to)
                    cs.append(d + 'create 1 0;usleep 100;c3lock 0;usleep %d;interrupt 1 5;usleep 50;c3unlock 0;usleep 3000 | nop;c3lock 0;c3wait 1 0 %d;c3unlock 0' % (max(1, to if to > 0 else 1), to))
        return cs

    def gen_cases(self, tier, rng):
        cs = []
        cp = os.path.join(VERIF, 'replay', 'corpus', 'C03.cases')
        if os.path.exists(cp):
            cs += [l.strip() for l in open(cp) if l.strip() and not l.startswith('#')]
        cs += self.families()
        n = 1500 if tier == 'quick' else 30000
        for i in range(n):
            cs.append(self.gen_program(rng, malformed=(i % 5 == 4)))
        return list(dict.fromkeys(cs))

    def nontrivial(self, case):
        ws = re.findall(r'c3wait \d+ \d+ (-?\d+)', case)
        return bool(ws) and ('c3n' in case or any(w != '-1' for w in ws))

    def category(self, case):
        d = case[1:].split('|')[0]
        k = ('mutex' if 'c3mutex' in d else '') + ('spin' if 'c3spin' in d else '')
        return '%s/%s%s' % (k, 'intr' if 'interrupt' in case else 'nointr', '/nall' if 'c3nall' in case else '')

    def neighbours(self, case, rng):
        return [self.gen_program(rng) for _ in range(300)]

    # ------------------------------------------------------------------ the property oracle
    def oracle(self, case, impl_out):
        """The property evaluated on the implementation's trace alone (no model): per-notification accounting."""
        tr = parse_trace(impl_out)
        if tr is None:
            return 'implementation output is not a trace: %s' % impl_out[:200]
        prefix, evs, blocked, end = tr
        if prefix:
            return 'implementation run did not end normally: %s' % prefix
        decls, progs = parse_case(case)
        done_idx = {(k, i): n for n, (k, i, _, _, _) in enumerate(evs)}
        waiting = {}          # cv -> {thread: rec}
        recs = {}             # (k, i) -> rec   for every wait that was actually entered
        groups = []           # notify_all groups: dict(n=..., members=[rec], now=...)
        intr = []             # (position, target, errno)
        def enter_next(pos, k, i, now):
            """thread k is about to call its op i at trace position pos (right after its previous completion)"""
            if i >= len(progs[k]):
                return
            o = progs[k][i]
            if o[0] != 'c3wait':
                return
            if pos + 1 < len(evs) and evs[pos + 1][0] == k and evs[pos + 1][1] == i and evs[pos + 1][2] == -2:
                return                                      # SKIPPED: the lock was not held, nothing happened
            if (k, i) not in done_idx and (k, i) not in blocked:
                return
            c = int(o[1]); t = int(o[3]) % W
            rec = dict(k=k, i=i, c=c, deadline=(0 if t == 0 else sat_add(now, t)), by_one=False, by_all=None, intr=False, left=False)
            waiting.setdefault(c, {})[k] = rec
            recs[(k, i)] = rec
        # T0 calls its op 0 at the start; created threads start with `nop` (or any non-wait op)
        if progs and progs[0] and progs[0][0][0] == 'c3wait':
            return None                                     # cannot happen: the lock is not held -> SKIPPED
        for pos, (k, i, ret, err, now) in enumerate(evs):
            if k >= len(progs) or i >= len(progs[k]):
                return 'trace names an op that is not in the program: %d.%d' % (k, i)
            o = progs[k][i]
            name = o[0]
            if name == 'c3wait' and ret != -2:
                rec = recs.get((k, i))
                if rec is None:
                    return 'wait %d.%d completed but was never entered' % (k, i)
                if waiting.get(rec['c'], {}).get(k) is rec:
                    del waiting[rec['c']][k]
                rec['ret'] = (ret, err)
                if ret in (-70, -71):
                    return 'wait %d.%d returned WITHOUT the lock held (%s)' % (k, i, 'lock was free' if ret == -71 else 'another thread is inside')
                if ret == 0:
                    if not rec['by_one'] and rec['by_all'] is None:
                        return 'wait %d.%d returned 0 without a notification' % (k, i)
                elif ret == -1 and err == ETIMEDOUT:
                    if now < rec['deadline']:
                        return 'wait %d.%d returned ETIMEDOUT at %d before its deadline %d' % (k, i, now, rec['deadline'])
                    if rec['by_one']:
                        return 'wait %d.%d was picked by notify_one but reported ETIMEDOUT: the notification is lost' % (k, i)
                elif ret == -1:
                    if not any(tg == k and e == err for (_, tg, e) in intr):
                        return 'wait %d.%d returned -1/%d which nobody sent' % (k, i, err)
                    if rec['by_one']:
                        return 'wait %d.%d was picked by notify_one but reported errno %d: the notification is lost' % (k, i, err)
                else:
                    return 'wait %d.%d returned %d' % (k, i, ret)
            elif name == 'c3n1' and ret != -2:
                c = int(o[1])
                wq = waiting.setdefault(c, {})
                if ret >= 0:
                    rec = wq.get(ret)
                    if rec is None:
                        return 'notify_one %d.%d returned thread %d which was not waiting on cv %d' % (k, i, ret, c)
                    rec['by_one'] = True
                    del wq[ret]
                elif ret == -1:
                    for w, rec in list(wq.items()):
                        if rec['deadline'] > now and not rec['intr']:
                            return 'notify_one %d.%d returned null at %d while thread %d was waiting (deadline %d)' % (k, i, now, w, rec['deadline'])
                        rec['left'] = True                  # it has left the queue: no later notify may account for it
                        del wq[w]
                else:
                    return 'notify_one %d.%d returned %d' % (k, i, ret)
            elif name == 'c3nall' and ret != -2:
                c = int(o[1])
                wq = waiting.setdefault(c, {})
                sure = [r for r in wq.values() if r['deadline'] > now and not r['intr']]
                if not (len(sure) <= ret <= len(wq)):
                    return 'notify_all %d.%d returned %d with %d..%d threads waiting' % (k, i, ret, len(sure), len(wq))
                g = dict(n=ret, members=list(wq.values()), now=now, at=(k, i))
                for r in g['members']:
                    r['by_all'] = g
                groups.append(g)
                wq.clear()
            elif name == 'c3lock' and ret in (-70,):
                return 'lock %d.%d succeeded while another thread holds the lock' % (k, i)
            elif name == 'interrupt' and ret == 0:
                tg = int(o[1])
                intr.append((pos, tg, int(o[2])))
                for wq in waiting.values():
                    if tg in wq:
                        wq[tg]['intr'] = True
            enter_next(pos, k, i + 1, now)
        for rec in recs.values():
            if rec['left'] and rec.get('ret', (None,))[0] == 0 and not rec['by_one'] and rec['by_all'] is None:
                return 'wait %d.%d returned 0 although it had left the queue un-notified' % (rec['k'], rec['i'])
        for g in groups:
            r0 = len([r for r in g['members'] if r.get('ret', (None,))[0] == 0])
            inc = len([r for r in g['members'] if 'ret' not in r])
            if not (r0 <= g['n'] <= r0 + inc):
                return 'notify_all %d.%d returned %d but %d of its waiters returned 0 (%d never returned)' % (g['at'][0], g['at'][1], g['n'], r0, inc)
            for r in g['members']:
                if r.get('ret') == (-1, ETIMEDOUT) and r['deadline'] > g['now']:
                    return 'wait %d.%d was waiting (deadline %d) when notify_all ran at %d but reported ETIMEDOUT' % (r['k'], r['i'], r['deadline'], g['now'])
        return None


if __name__ == '__main__':
    sys.exit(Check().main(sys.argv[1:]))
