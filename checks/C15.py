# C15 — range split: model coq/C15, harness harness/C15, engine E1 (pure differential)
import re
from vlib import *

W = 1 << 64
FUEL = 4096

def parse_sub(s):
    i, o, l = s.split(','); return (int(i), int(o), int(l))
def parse_parts(s):
    if s == 'RUNAWAY': return None
    m = re.match(r'(\d+)\[(.*)\]$', s)
    return [parse_sub(x) for x in m.group(2).split(';') if x]
def parse_out(line):
    d = dict(kv.split('=', 1) for kv in line.split(' '))
    for k in ('ab', 'ae', 'apb', 'ape', 'br', 'er', 'abo', 'aeo'): d[k] = int(d[k])
    for k in ('small', 'pre', 'first', 'post'): d[k] = parse_sub(d[k])
    for k in ('all', 'aligned'): d[k] = parse_parts(d[k])
    return d

class Check(DiffCheck):
    id = 'C15'
    coq_dirs = ['Base', 'C15']
    coq_targets = ['C15/C15_Spec.vo', 'C15/C15_ProofsGeneric.vo', 'C15/C15_ProofsCover.vo', 'C15/C15_Proofs.vo', 'C15/C15_ProofsF15.vo']
    properties_v = 'C15/C15_Properties.v'
    extract_v = 'C15/C15_Extract.v'
    runner_ml = 'ocaml/C15_run.ml'
    model_module = 'C15_model'
    rule = ('cases: corpus; exhaustive offset,length in [0,48) x interval in [1,17] for range_split, all powers of two <= 64 '
            'for range_split_power2; key-point families for range_split_vi; PRNG 64-bit cases (inside one block / ending on / '
            'starting on a boundary / near 2^64). non-trivial = length > 0 and the range is not exactly one aligned block')
    assumptions = ['interval > 0 (division by zero is UB in the C++)', 'theorems guard: offset+length+interval-1 < 2^64 (class of known finding F15 beyond it)']

    def build_impl(self):
        exe, log = cxx_build(self.id, ['harness/C15/harness.cpp'])
        if not exe: raise RuntimeError(log)
        return exe

    def gen_cases(self, tier, rng):
        cs = []
        cp = os.path.join(VERIF, 'replay', 'corpus', 'C15.cases')
        if os.path.exists(cp):
            cs += [l.strip() for l in open(cp) if l.strip() and not l.startswith('#')]
        lim = 48 if tier == 'quick' else 80
        for iv in range(1, 18):
            for o in range(lim):
                for n in range(lim):
                    cs.append('F %d %d %d' % (o, n, iv))
        for k in range(0, 7):
            iv = 1 << k
            for o in range(lim):
                for n in range(lim):
                    cs.append('P %d %d %d' % (o, n, iv))
        # variable interval: key points 0 < ... < 2^64-1
        fams = [[0, 3, 7, 8, 20, W - 1], [0, 1, 2, 3, 4, 5, 6, W - 1], [0, 10, W - 1], [0, 5, 6, 30, 31, 32, 64, W - 1]]
        for kp in fams:
            for o in range(0, 40):
                for n in range(0, 40):
                    cs.append('V %d %d %s' % (o, n, ','.join(map(str, kp))))
        nrand = 6000 if tier == 'quick' else 200000
        for _ in range(nrand):
            kind = rng.choice('FFP')
            iv = (1 << rng.randrange(0, 40)) if kind == 'P' or rng.random() < 0.3 else rng.randrange(1, 1 << rng.randrange(1, 40))
            mode = rng.randrange(6)
            blk = rng.randrange(0, max(1, (W // iv) - 4))
            if rng.random() < 0.5: blk = rng.randrange(0, 1000)
            if mode == 0:   o = blk * iv + rng.randrange(iv); n = rng.randrange(0, iv - (o % iv) + 1)          # inside one block
            elif mode == 1: o = blk * iv + rng.randrange(iv); n = (rng.randrange(1, 5) * iv) - (o % iv)        # ends on boundary
            elif mode == 2: o = blk * iv; n = rng.randrange(0, 5 * iv)                                          # starts on boundary
            elif mode == 3: o = blk * iv + rng.randrange(iv); n = rng.randrange(0, 6 * iv)
            elif mode == 4: o = rng.randrange(W); n = rng.randrange(0, 8 * iv)                                  # anywhere (may wrap)
            else:           o = W - rng.randrange(1, 6 * iv); n = rng.randrange(0, 6 * iv)                      # near 2^64
            o %= W; n %= W
            if n // iv > FUEL - 8: n = n % (iv * 64)
            cs.append('%s %d %d %d' % (kind, o, n, iv))
        for _ in range(nrand // 6):
            k = rng.randrange(1, 8)
            pts = sorted(set(rng.randrange(1, 200) for _ in range(k)))
            kp = [0] + pts + [W - 1]
            o = rng.randrange(0, 210); n = rng.randrange(0, 60)
            cs.append('V %d %d %s' % (o, n, ','.join(map(str, kp))))
        return list(dict.fromkeys(cs))

    def _parse_case(self, case):
        f = case.split(' ')
        kind, o, n = f[0], int(f[1]), int(f[2])
        if kind == 'V':
            kp = [int(x) for x in f[3].split(',')]
            return kind, o, n, kp
        return kind, o, n, int(f[3])

    def nontrivial(self, case):
        kind, o, n, p = self._parse_case(case)
        if n == 0: return False
        if kind == 'V': return True
        return not (o % p == 0 and n == p)

    def category(self, case):
        kind, o, n, p = self._parse_case(case)
        if n == 0: return kind + ':empty'
        if kind == 'V': return 'V'
        if o + n + p - 1 >= W: return kind + ':beyond-guard'
        a, b = o // p, (o + n - 1) // p
        return kind + (':one-block' if a == b else ':multi-block') + (':big' if o >= (1 << 32) else '')

    def known_class(self, case):
        kind, o, n, p = self._parse_case(case)
        if kind in 'FP' and o + n + p - 1 >= W: return 'F15'
        if kind == 'P' and (p & (p - 1)) != 0: return 'precondition'     # documented precondition: power of two
        if kind == 'V' and o + n >= W - 1: return 'precondition'
        return None

    # the property itself, evaluated on the implementation's output (independent of the Coq model)
    def oracle(self, case, out):
        kind, o, n, p = self._parse_case(case)
        if out.startswith('CRASH'): return 'implementation crashed: ' + out
        try: d = parse_out(out)
        except Exception as e: return 'unparsable output: %r' % out[:200]
        if kind == 'V':
            kp = p
            B = lambda i: kp[i]
            L = lambda i: kp[i + 1] - kp[i]
        else:
            B = lambda i: i * p
            L = lambda i: p
        allp, alp = d['all'], d['aligned']
        if allp is None: return 'all_parts does not terminate (> %d parts)' % FUEL
        if alp is None: return 'aligned_parts does not terminate (> %d parts)' % FUEL
        if n == 0:
            if any(l > 0 for (_, _, l) in allp): return 'empty range produced a non-empty part in all_parts: %s' % allp
            if d['small'][2] > 0 or d['pre'][2] > 0 or d['post'][2] > 0 or any(l > 0 for (_, _, l) in alp):
                return 'empty range produced a non-empty classified part (small/preface/aligned/postface)'
            return None
        # tiling
        if not allp: return 'non-empty range produced no part'
        pos = o; idx = None
        for (i, off, l) in allp:
            if l <= 0: return 'empty part in all_parts: %s' % allp
            if off + l > L(i): return 'part crosses a block boundary: %s' % ((i, off, l),)
            if B(i) + off != pos: return 'parts not adjacent / do not start at offset: part %s starts at %d, expected %d' % ((i, off, l), B(i) + off, pos)
            if idx is not None and i != idx + 1: return 'block index does not increase by one'
            idx = i; pos += l
        if pos != o + n: return 'parts end at %d, expected %d' % (pos, o + n)
        # classification
        if d['small'][2] > 0:
            cl = [d['small']]
            if alp: return 'small_note together with aligned parts'
            if d['pre'][2] > 0 or d['post'][2] > 0: return 'small_note together with preface/postface'
        else:
            cl = ([d['pre']] if d['pre'][2] > 0 else []) + alp + ([d['post']] if d['post'][2] > 0 else [])
        if cl != allp: return 'classification %s inconsistent with all_parts %s' % (cl, allp)
        for (i, off, l) in alp:
            if off != 0 or l != L(i): return 'aligned part is not a whole block'
        # enclosure
        if not (d['abo'] <= o < d['abo'] + L(d['ab'])): return 'aligned begin offset %d does not enclose offset with < 1 interval slack' % d['abo']
        if not (d['aeo'] - L(d['ae'] - 1) < o + n <= d['aeo']): return 'aligned end offset %d does not enclose end with < 1 interval slack' % d['aeo']
        return None

    def neighbours(self, case, rng):
        kind, o, n, p = self._parse_case(case)
        if kind == 'V': return []
        out = []
        for do in (-1, 0, 1):
            for dn in (-1, 0, 1):
                for dp in (0,):
                    if o + do >= 0 and n + dn >= 0: out.append('%s %d %d %d' % (kind, (o + do) % W, (n + dn) % W, p))
        r = o % p
        out.append('%s %d %d %d' % (kind, r, n % (8 * p), p))
        return out
