# C20 — sub-filesystem path confinement: model coq/C20, harness harness/C20,
# engine E1/E5 (differential run over a recording underlay filesystem).
from vlib import *

PATH_MAX = 4096
LIMIT = PATH_MAX - 2            # PathCat rejects when len(path) + len(base_path) >= LIMIT
BASE_MAX = PATH_MAX - 2         # init rejects a base longer than this

ONE = ['open', 'open3', 'creat', 'mkdir', 'rmdir', 'readlink', 'unlink', 'chmod', 'chown', 'lchown', 'opendir',
       'stat', 'lstat', 'access', 'truncate', 'statfs', 'statvfs', 'utime', 'utimes', 'lutimes', 'mknod']
XATTR = ['getxattr', 'lgetxattr', 'listxattr', 'llistxattr', 'setxattr', 'lsetxattr', 'removexattr', 'lremovexattr']
TWO = ['link', 'rename']        # PathCat on both
SYM = ['symlink']               # PathCat on newname only
ALLOPS = ONE + XATTR + TWO + SYM


def hx(b):
    if isinstance(b, str): b = b.encode('latin1')
    return 'x' + b.hex()
def unhx(s):
    assert s[0] == 'x'
    return bytes.fromhex(s[1:])
def mk(op, base, p1, p2=b'', fl='dx'):
    return '%s %s %s %s %s' % (op, fl, hx(base), hx(p1), hx(p2))

# ---- independent lexical reference (python; shares nothing with the Coq model) ----
def comps(p):
    return [c for c in p.split(b'/') if c != b'']
def walk_ok(cs):
    """every prefix of the component list stays at or below the starting directory"""
    lvl = 0
    for c in cs:
        if c == b'.': continue
        if c == b'..':
            lvl -= 1
            if lvl < 0: return False
        else: lvl += 1
    return True
def normalise(p):
    """lexical resolution: list of names; relative paths keep leading '..'; '/..' = '/'"""
    absolute = p.startswith(b'/')
    st = []
    for c in comps(p):
        if c == b'.': continue
        if c == b'..':
            if st and st[-1] != b'..': st.pop()
            elif not absolute: st.append(c)
        else: st.append(c)
    return absolute, st
def base_eff(base):
    return base if base.endswith(b'/') else base + b'/'


class Check(DiffCheck):
    id = 'C20'
    coq_dirs = ['C20']
    coq_targets = ['C20/C20_Proofs.vo', 'C20/C20_Compose.vo']
    properties_v = 'C20/C20_Properties.v'
    extract_v = 'C20/C20_Extract.v'
    runner_ml = 'ocaml/C20_run.ml'
    model_module = 'C20_model'
    rule = ('cases: corpus; EVERY string of length <= 7 (thorough: 10) over {/ . a} through open() under 4 bases, through a rotating '
            'other operation (all 32 path-taking operations incl. xattr and the two-path ones) and through path_level_valid directly; '
            'all pairs of strings of length <= 3 through link/rename/symlink; every operation x a list of interesting paths x bases x '
            'underlay with/without xattr; PRNG component-structured paths (names ., .., ..., ..a, .a, a., high bytes; repeated, leading, '
            'trailing slashes); long paths with len(base)+len(path) within +-2 of the PATH_MAX-2 limit; bases near the 4094 init limit; '
            'underlay stat() failing / not a directory. non-trivial = path contains "..", a name beginning with a dot, a repeated or '
            'trailing slash, or lies within 2 bytes of the length limit')
    assumptions = ['base directory non-empty (an empty base is "default relative path": PathCat passes every path through unvalidated, by design)',
                   'paths and base are NUL-terminated C strings (non-null pointers), strlen(base) < 2^32',
                   'confinement is lexical: symbolic links inside the base and the target string of symlink() are not resolved by SubFileSystem',
                   'length limit = the code\'s own: strlen(path) + strlen(base incl. trailing /) < PATH_MAX - 2']
    trusted_base = ['recording IFileSystem/IFileSystemXAttr underlay in harness/C20/harness.cpp', 'python lexical normaliser in checks/C20.py (oracle)']

    def build_impl(self):
        # the anchored translation units themselves, from the tree under test (no libphoton: seconds, no shared lock)
        srcs = ['harness/C20/harness.cpp', 'harness/C20/alog_stub.cpp'] + [os.path.join(REPO, f) for f in ('fs/subfs.cpp', 'fs/path.cpp', 'common/iovector.cpp')]
        exe, log = cxx_build(self.id, srcs)
        if not exe: raise RuntimeError(log)
        return exe

    # ------------------------------------------------------------------ cases
    def gen_cases(self, tier, rng):
        cs = []
        cp = os.path.join(VERIF, 'replay', 'corpus', 'C20.cases')
        if os.path.exists(cp):
            cs += [l.strip() for l in open(cp) if l.strip() and not l.startswith('#')]
        # exhaustive small domain
        maxlen = 7 if tier == 'quick' else 10
        strs = [b'']
        layer = [b'']
        for _ in range(maxlen):
            layer = [s + c for s in layer for c in (b'/', b'.', b'a')]
            strs += layer
        bases = [b'/b', b'/b/', b'b/c', b'/']
        other_bases = bases + [b'', b'b', b'/b//', b'../b', b'./b/', b'..', b'/b/../c', b'/.a']
        others = [o for o in ALLOPS if o != 'open']
        n = len(strs)
        for b in bases:                                     # base-major: the harness keeps one subfs per run of equal bases
            for s in strs:
                cs.append(mk('open', b, s))
        for i, s in enumerate(strs):
            o = others[i % len(others)]
            b = other_bases[(i // len(others)) % len(other_bases)]
            cs.append(mk(o, b, s, strs[(i * 7 + 3) % n]))
            cs.append('LV ' + hx(s))
        # two-path operations: all pairs of short strings
        short = [s for s in strs if len(s) <= 3]
        for o in TWO + SYM:
            for a in short:
                for b2 in short:
                    cs.append(mk(o, b'/b', a, b2))
        # every operation x interesting paths x bases x xattr flag
        interesting = [b'', b'a', b'/a', b'a/', b'..', b'/..', b'../', b'a/..', b'a/../..', b'a/b/../..', b'/a/../b', b'./..', b'.',
                       b'...', b'.../..', b'..a', b'..a/..', b'.a', b'.a/..', b'a./..', b'.. /..', b'..\\..', b'a//..//..', b'a/./../..',
                       b'a/../../a', b'../a', b'a/b/c/../../../..', b'a/b/c/../../..', b'%2e%2e', b'\xff/..', b'\xff/../..', b'.\x01/..']
        for o in ALLOPS:
            for p in interesting:
                for b in (b'/b', b'b/c/', b''):
                    for xa in 'xn':
                        cs.append(mk(o, b, p, interesting[(len(p) * 5 + len(o)) % len(interesting)], 'd' + xa))
        # init: stat says not-a-directory / fails
        for st in 'fe':
            for b in other_bases:
                cs.append(mk('open', b, b'a', b'', st + 'x'))
                cs.append(mk('rename', b, b'a', b'..', st + 'n'))
        # PRNG: component-structured paths
        names = [b'.', b'..', b'...', b'....', b'..a', b'.a', b'a.', b'a..', b'a', b'ab', b'b', b'.. ', b' ..', b' ', b'\xff', b'..\xff',
                 b'\x01', b'%2e', b'..\\', b'-', b'.-', b'a.b', b'x.jpg']
        wts = [6, 10, 3, 1, 3, 3, 1, 1, 10, 3, 2, 1, 1, 1, 1, 1, 1, 1, 1, 1, 1, 1, 1]
        def rpath(maxc=12):
            k = rng.randrange(0, maxc + 1)
            p = b'/' * rng.choice([0, 0, 1, 1, 2, 3])
            for j in range(k):
                p += rng.choices(names, wts)[0]
                if j < k - 1 or rng.random() < 0.3: p += b'/' * rng.choice([1, 1, 1, 2, 3])
            return p
        def rbase():
            r = rng.random()
            if r < 0.55: return rng.choice(bases)
            if r < 0.75: return rng.choice(other_bases)
            return (b'/' if rng.random() < 0.7 else b'') + b'/'.join(rng.choices(names, wts)[0] for _ in range(rng.randrange(1, 4))) + (b'/' if rng.random() < 0.4 else b'')
        nrand = 6000 if tier == 'quick' else 400000
        for _ in range(nrand):
            o = rng.choice(ALLOPS) if rng.random() < 0.7 else rng.choice(TWO + SYM + ['open'])
            cs.append(mk(o, rbase(), rpath(), rpath(6), 'd' + ('x' if rng.random() < 0.9 else 'n')))
        for _ in range(nrand // 3):
            cs.append('LV ' + hx(rpath(16)))
        # long paths around the length limit
        def fill(total, shape):
            """a path of exactly `total` bytes"""
            if total <= 0: return b''
            if shape == 0: return b'a' * total
            if shape == 1:                                  # many one-letter components
                p = b'a/' * (total // 2)
                return p + b'a' * (total - len(p))
            if shape == 2:                                  # descend then climb back exactly to the base (legal)
                k = total // 5
                p = b'a/' * k + b'../' * k
                return p + b'a' * (total - len(p))
            if shape == 3:                                  # climb one too many at the very end (illegal)
                k = max(0, (total - 2) // 5)
                p = b'a/' * k + b'../' * k
                pad = total - len(p) - 2
                return p + b'/' * pad + b'..' if pad >= 0 else b'a' * total
            if shape == 4:                                  # dot-names deep, then up
                k = total // 7
                p = b'.../' * k + b'../' * k
                return p + b'/' * (total - len(p))
            p = b''                                         # random components
            while len(p) < total:
                p += rng.choices(names, wts)[0] + b'/' * rng.choice([1, 1, 2])
            return p[:total]
        nlong = 500 if tier == 'quick' else 8000
        for _ in range(nlong):
            b = rng.choice([b'/b', b'/b/', b'b/c', b'/', b'/' + b'd' * rng.randrange(1, 3000), b'/' + b'd/' * rng.randrange(1, 1500)])
            room = LIMIT - 1 - len(base_eff(b))             # longest accepted path
            total = room + rng.choice([-2, -1, 0, 0, 1, 1, 2])
            o = rng.choice(ALLOPS) if rng.random() < 0.5 else 'open'
            p2 = fill(room + rng.choice([-1, 0, 1]), rng.randrange(6)) if o in TWO + SYM else b''
            cs.append(mk(o, b, fill(total, rng.randrange(6)), p2))
        # bases around the init limit (base_path_len > PATH_MAX-2 fails; +'/' may make it PATH_MAX-1)
        for bl in range(BASE_MAX - 3, BASE_MAX + 3):
            for slash in (False, True):
                b = b'/' + b'd' * (bl - 2) + (b'/' if slash else b'e')
                for p in (b'', b'a', b'..'):
                    cs.append(mk('open', b, p))
        for bl in (LIMIT - 6, LIMIT - 5, LIMIT - 4, LIMIT - 3):
            b = b'/' + b'd' * (bl - 1)
            for p in (b'', b'a', b'aa', b'aaa', b'a/', b'./', b'a/..', b'..'):
                cs.append(mk('stat', b, p))
        return list(dict.fromkeys(cs))

    # ------------------------------------------------------------------ parsing
    def _parse(self, case):
        f = case.split(' ')
        if f[0] in ('LV', 'LVP'):
            return dict(kind='LV', path=unhx(f[1]))
        return dict(kind='OP', op=f[0], st=f[1][0], xa=f[1][1], base=unhx(f[2]), p1=unhx(f[3]), p2=unhx(f[4]))

    def _features(self, p):
        cs = comps(p)
        f = []
        if b'..' in cs: f.append('dotdot')
        if any(c.startswith(b'.') and c not in (b'.', b'..') for c in cs): f.append('dotname')
        if b'.' in cs: f.append('dot')
        if b'//' in p: f.append('slashes')
        if p.endswith(b'/'): f.append('trailing')
        return f

    def nontrivial(self, case):
        c = self._parse(case)
        if c['kind'] == 'LV': return bool(self._features(c['path']))
        ps = [c['p1']] + ([c['p2']] if c['op'] in TWO + SYM else [])
        near = c['base'] and any(abs(len(p) + len(base_eff(c['base'])) - LIMIT) <= 2 for p in ps)
        return bool(near or any(self._features(p) for p in ps))

    def category(self, case):
        c = self._parse(case)
        if c['kind'] == 'LV': return 'level_valid:' + ('+'.join(self._features(c['path'])[:2]) or 'plain')
        op = c['op']
        k = 'two' if op in TWO else 'symlink' if op in SYM else 'xattr' if op in XATTR else 'one'
        if c['st'] != 'd': return k + ':stat-not-dir'
        if not c['base']: return k + ':empty-base'
        if len(c['p1']) > 1000 or len(c['base']) > 1000: return k + ':long'
        legal = walk_ok(comps(c['p2'] if op in SYM else c['p1']))
        return k + (':legal' if legal else ':escaping')

    def known_class(self, case):
        return None

    # ------------------------------------------------------------------ the property, on the implementation's output
    def _confined(self, base, path, arg, what):
        """arg: None (NULL was forwarded) or bytes (the forwarded string)"""
        be = base_eff(base)
        legal = len(path) + len(be) < LIMIT and walk_ok(comps(path))
        if arg is None:
            if legal: return '%s %r stays inside base %r and is within the length limit, but was rejected' % (what, path[:80], base[:80])
            return None
        if arg != be + path:
            return '%s %r was forwarded as %r, expected base prefix %r + the path unchanged' % (what, path[:80], arg[:120], be[:80])
        cb, cf = comps(base), comps(arg)
        if cf[:len(cb)] != cb or not walk_ok(cf[len(cb):]):
            return '%s %r forwarded as %r: a prefix of it climbs above the base %r' % (what, path[:80], arg[:120], base[:80])
        ab, nb = normalise(base)
        af, nf = normalise(arg)
        if ab != af or nf[:len(nb)] != nb:
            return '%s %r forwarded as %r resolves to %r, outside the base %r' % (what, path[:80], arg[:120], b'/'.join(nf)[:120], base[:80])
        return None

    def oracle(self, case, out):
        c = self._parse(case)
        if out.startswith('CRASH'): return 'implementation crashed: ' + out
        if c['kind'] == 'LV':
            want = 'lv=T' if walk_ok(comps(c['path'])) else 'lv=F'
            if out != want: return 'path_level_valid(%r) answered %s, the component walk says %s' % (c['path'][:120], out, want)
            return None
        op, base = c['op'], c['base']
        if out == 'NOFS':
            if c['st'] == 'd' and 0 < len(base) <= BASE_MAX: return 'new_subfs refused a directory base within the length limit'
            return None
        if c['st'] != 'd' and base: return 'new_subfs accepted a base that is not a directory'
        if out == 'NOCALL':
            if op in XATTR and c['xa'] == 'n': return None
            return 'operation %s did not reach the underlay' % op
        f = out.split(' ')
        try:
            args = [None if a == 'NULL' else unhx(a) for a in f[1:]]
        except Exception:
            return 'unparsable output %r' % out[:200]
        if f[0] != op: return 'operation %s was forwarded to the underlay as %s' % (op, f[0])
        if op in XATTR and c['xa'] == 'n': return 'xattr operation forwarded although the underlay has no xattr interface'
        want_n = 2 if op in TWO + SYM else 1
        if len(args) != want_n: return 'unexpected number of path arguments in %r' % out[:200]
        if not base:
            # out of scope of the property (no base => no confinement); still: passed through unchanged
            exp = [c['p1'], c['p2']][:want_n]
            if args != exp: return 'empty base: paths are not passed through unchanged'
            return None
        if op in SYM:
            if args[0] != c['p1']: return 'symlink target string was altered: %r -> %r' % (c['p1'][:80], args[0] if args[0] is None else args[0][:80])
            return self._confined(base, c['p2'], args[1], 'symlink newname')
        r = self._confined(base, c['p1'], args[0], op + (' oldname' if op in TWO else ' path'))
        if r is None and op in TWO:
            r = self._confined(base, c['p2'], args[1], op + ' newname')
        return r

    def neighbours(self, case, rng):
        c = self._parse(case)
        out = []
        if c['kind'] == 'LV':
            p = c['path']
            for i in range(len(p)):
                out.append('LV ' + hx(p[:i] + p[i + 1:]))
            return out
        p1, p2, base = c['p1'], c['p2'], c['base'] or b'/b'
        cand = [p1, p2] + [p1[:i] + p1[i + 1:] for i in range(min(len(p1), 40))] + [p1 + b'/..', b'a/' + p1, p1 + b'/a']
        for p in cand:
            for b in (base, b'/b', b'b/c'):
                out.append(mk('open', b, p))
                out.append(mk(c['op'], b, p, p2, 'd' + c['xa']))
                out.append(mk('rename', b, b'a', p))
        return out
