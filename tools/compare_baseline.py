#!/usr/bin/env python3
# compares a ctest junit file with /root/.vp/BASELINE.json stable_pass (623 tests)
import sys, json, xml.etree.ElementTree as ET, subprocess, glob, os, re
base = set(json.load(open('/root/.vp/BASELINE.json'))['stable_pass'])
junit = sys.argv[1]
passed, failed = set(), set()
t = ET.parse(junit).getroot()
for tc in t.iter('testcase'):
    name = tc.get('name'); ok = tc.find('failure') is None and tc.get('status', 'run') != 'fail'
    out = (tc.findtext('system-out') or '')
    for m in re.finditer(r'\[\s+(OK|FAILED)\s+\] ([\w/]+)\.([\w/]+)', out):
        (passed if m.group(1) == 'OK' else failed).add('%s::%s' % (m.group(2), m.group(3)))
    (passed if ok else failed).add('%s::%s' % (name, name))
missing = sorted(base - passed)
print('baseline %d, passed now %d, baseline tests not passing now: %d' % (len(base), len(passed & base), len(missing)))
for m in missing[:80]: print('  ', m, '(FAILED)' if m in failed else '(not seen)')
