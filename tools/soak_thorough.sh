#!/bin/bash
# usage: soak_thorough.sh <seed> [parallel] : runs every registered THOROUGH check once
SEED=$1; P=${2:-3}; OUT=/tmp/thorough_$SEED; mkdir -p $OUT
ids=$(python3 -c "import json; print(' '.join(c['property_id'] for c in json.load(open('/verif/MANIFEST.json'))['checks']))")
printf "%s\n" $ids | xargs -P $P -I{} sh -c "cd /verif && start=\$(date +%s); VERIF_SEED=$SEED timeout 7200 bin/check {} --tier thorough > $OUT/{}.log 2>&1; echo \"{} rc=\$? \$(( \$(date +%s) - start ))s\" >> $OUT/summary.txt"
sort $OUT/summary.txt
