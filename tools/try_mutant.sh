#!/bin/sh
# usage: try_mutant.sh <ID> <k> : copies /tmp/mut_<ID>_<k>_out to seeded/<ID>_<k>, applies the patch in a scratch
# worktree of /repo (so that checks other people run against /repo are not disturbed), runs
# VERIF_REPO=<worktree> bin/check <ID>, leaves the output in seeded/<ID>_<k>/check_output.txt, removes the worktree.
ID=$1; K=$2; D=/verif/seeded/${ID}_${K}; W=/tmp/try_${ID}_${K}
if [ -d /tmp/mut_${ID}_${K}_out ]; then mkdir -p $D; cp -r /tmp/mut_${ID}_${K}_out/. $D/; rm -rf $D/*.log $D/logs $D/test_logs $D/testlogs* $D/orig; fi
git -C /repo worktree add --detach $W >/dev/null 2>&1 || { echo "cannot create worktree"; exit 2; }
( cd $W && git apply $D/patch.diff ) || { echo "patch does not apply"; git -C /repo worktree remove --force $W; exit 2; }
cd /verif && VERIF_REPO=$W bin/check $ID > $D/check_output.txt 2>&1; echo "rc=$?" >> $D/check_output.txt
git -C /repo worktree remove --force $W
python3 - <<P
import hashlib,os,shutil
d=os.path.join('/verif/.build/alt', hashlib.sha1(os.path.realpath('$W').encode()).hexdigest()[:10])
shutil.rmtree(d, ignore_errors=True)
P
tail -6 $D/check_output.txt
