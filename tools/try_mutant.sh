#!/bin/sh
# usage: try_mutant.sh <ID> <k> : copies /tmp/mut_<ID>_<k>_out to seeded/<ID>_<k>, applies the patch to /repo,
# runs bin/check <ID>, reverts /repo, leaves the check output in seeded/<ID>_<k>/check_output.txt
ID=$1; K=$2; D=/verif/seeded/${ID}_${K}
if [ -d /tmp/mut_${ID}_${K}_out ]; then mkdir -p $D; cp -r /tmp/mut_${ID}_${K}_out/. $D/; rm -rf $D/*.log $D/logs $D/test_logs; fi
cd /repo && git apply $D/patch.diff || { echo "patch does not apply"; exit 2; }
cd /verif && bin/check $ID > $D/check_output.txt 2>&1; echo "rc=$?" >> $D/check_output.txt
git -C /repo checkout -- . 
tail -6 $D/check_output.txt
