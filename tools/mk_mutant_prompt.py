#!/usr/bin/env python3
# usage: mk_mutant_prompt.py <ID> <k>  -> creates worktree /tmp/mut_<ID>_<k>, out dir, prints the prompt
import sys, json, os, subprocess
pid, k = sys.argv[1], sys.argv[2]
wt = '/tmp/mut_%s_%s' % (pid, k); out = wt + '_out'
if not os.path.exists(wt):
    subprocess.check_call(['git', '-C', '/repo', 'worktree', 'add', '--detach', wt], stdout=subprocess.DEVNULL, stderr=subprocess.DEVNULL)
os.makedirs(out + '/demo', exist_ok=True)
p = [json.loads(l) for l in open('/verif/properties.jsonl') if json.loads(l)['id'] == pid][0]
prop = '[%s] %s\n  %s\n  It must hold %s.\n  (the code it is about: %s)' % (pid, p['title'], p['statement'], p['quantifier']['text'], ', '.join(p['anchors']['files']))
t = open('/verif/notes/prompts/MUTANT.md').read().replace('<WT>', wt).replace('<OUT>', out).replace('<PROPERTY>', prop).replace('<ID>', pid)
extra = sys.argv[3] if len(sys.argv) > 3 else ''
print(t + ('\n' + extra if extra else ''))
