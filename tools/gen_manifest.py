#!/usr/bin/env python3
# Regenerates /verif/MANIFEST.json from the table below (single source of truth for the manifest).
import json, os
V = os.path.dirname(os.path.dirname(os.path.abspath(__file__)))
props = [json.loads(l) for l in open(os.path.join(V, 'properties.jsonl'))]

TECH = 'Rocq (Coq 8.16.1) proof over an executable Gallina model + checked differential correspondence with the C++ built from /repo'
CHECKS = {
 'C15': dict(engine='E1',
   text=("Coq theorems (no axioms) about an executable model of fs/range-split.h and fs/range-split-vi.h, for all integer "
         "offsets/lengths/intervals under the guard: all_parts() tiles [offset, offset+length) exactly, block by block (non-empty, "
         "adjacent, disjoint, inside one block, indices +1); small_note/preface/aligned_parts/postface are consistent with that list; "
         "aligned begin/end offsets enclose the range with < 1 block of slack; an empty range yields no non-empty part and an empty "
         "aligned_parts().  Proved once for an abstract block layout and instantiated for range_split, range_split_power2 (shift/mask = "
         "div/mod for every x) and range_split_vi.  Model tied to the C++ by exhaustive small-domain + random 64-bit differential runs "
         "on every check, with an independent python oracle of the tiling property on the implementation's output."),
   note=("Trusted: Coq kernel, extraction (ExtrOcamlBasic only), hand-written model validated by correspondence.  Guard "
         "offset+length+interval-1 < 2^64 (known finding F15 beyond it, refuted in Coq: f15_refuted, class proved exact: f15_class_exact); "
         "vi: offset+length < 2^64-1 and key points strictly ascending from 0 to 2^64-1.  F19 (fixed, 744eaa1) is covered by empty_range_* "
         "and refuted for the pre-fix code by empty_range_prefix_refuted."),
   ref='DESIGN.md §5 C15, §11 A3'),
}
import re
def from_notes(pid):
    fn = os.path.join(V, 'notes', pid + '.md')
    if not os.path.exists(fn): return None
    t = open(fn).read()
    def grab(key):
        ms = list(re.finditer(r'`?%s`?\s*:\s*"(.*?)"[\s.]*(?:\n|$)' % re.escape(key), t, flags=re.S))
        return re.sub(r'\s+', ' ', ms[-1].group(1)).strip() if ms else None     # the LAST proposal in the notes wins
    a, b = grab('level_claimed.text'), grab('level_note')
    return (a, b) if a and b else None
# properties whose check is registered (engine label); text comes from CHECKS or from notes/<ID>.md
REGISTERED = {'C15': 'E1', 'C20': 'E1', 'C19': 'E2', 'C07': 'E3', 'C12': 'E1', 'C10': 'E1+E5', 'C16': 'E1', 'C18': 'E1', 'C02': 'E2', 'C03': 'E2', 'C05': 'E2+E3', 'C14': 'E1', 'C04': 'E1+E2', 'C06': 'E2+E3', 'C09': 'E2+E3', 'C17': 'E1+E5', 'C08': 'E2', 'C11': 'E2+E5', 'C01': 'E2+E3', 'C13': 'E1+E5'}
for pid, eng in REGISTERED.items():
    if pid not in CHECKS:
        r = from_notes(pid)
        assert r, 'no manifest text for ' + pid
        CHECKS[pid] = dict(engine=eng, text=r[0], note=r[1], ref='DESIGN.md §5 ' + pid + ', notes/' + pid + '.md')
# engines actually run by each check (kept here; notes/<ID>.md texts predate some of them)
ENGINES = {'C01': 'E2+E3+E4L+E4S', 'C02': 'E2+E4L+E4S', 'C03': 'E2+E4L+E4S', 'C04': 'E1+E2+E4L+E4S', 'C05': 'E2+E3+E4+E4L',
           'C06': 'E2+E3+E4L+E4S', 'C09': 'E2+E3'}
CROSS = (' Cross-vCPU tie added after the notes were written (DESIGN.md §11 A5, A10, A11): the lockset engine E4L validates on '
         'multi-vCPU runs that every access the model treats as lock-protected is made under that lock (incl. release-and-wait '
         'atomicity)%s; none of these is a proof: the all-interleavings claim is the Coq theorem.')
EXTRA_NOTE = {
 'C01': CROSS % ', and E4S searches controlled 2-vCPU schedules (plain, contending and recursive mutexes) with the property oracle',
 'C02': CROSS % ', and E4S searches controlled 2-vCPU schedules with the ledger / no-lost-wake-up oracle',
 'C03': CROSS % ', and E4S searches controlled 2-vCPU schedules with the notify-accounting oracle',
 'C04': CROSS % ', E4S searches controlled 2-vCPU schedules for the sleep / interrupt / shutdown contract, and C05\'s E4 replays standby-queue / migration placements',
 'C05': CROSS % ', and E4 (controlled multi-vCPU replay of the life-cycle model incl. steal, migrate, vcpu_fini) compares placements after every command',
 'C06': CROSS % ', E4S searches controlled 2-vCPU rwlock schedules, and the blocking qrwlock path is replayed under E3 (case kind B)',
}
for pid in CHECKS:
    if pid in ENGINES: CHECKS[pid]['engine'] = ENGINES[pid]
    if pid in EXTRA_NOTE: CHECKS[pid]['note'] = CHECKS[pid]['note'].rstrip() + EXTRA_NOTE[pid]
PENDING_REASON = 'machinery for this property is still being built at this commit (DESIGN.md §10 order of work); not claimed until its check passes on the unchanged tree'

man = {
 'version': 1,
 'setup_cmd': 'bin/setup',
 'hooks': {'guard': 'PHOTON_VERIF',
           'enable': 'harnesses are compiled with -DPHOTON_VERIF; thread-level checks link a libphoton.so built by cmake -DCMAKE_CXX_FLAGS="-Wno-error -DPHOTON_VERIF" in /verif/.build/photon from /repo\'s working tree (lib/vlib.py photon_lib)',
           'baseline_off_cmd': 'bin/baseline-off',
           'source_commits': ['9a76167', '5a10adb', '0dc1083', '3c74f99', '0e146a7', '598bacc', '78d7b1e', '9372bf2', 'a599d49'],
           'add_only': True},
 'engines': [
  {'name': 'E1', 'path': 'lib/vlib.py (DiffCheck)', 'serves_properties': [], 'kind_free_text': 'pure differential: extracted Coq model vs C++ harness compiled from /repo on the same case file, plus a python oracle of the property on the implementation output'},
  {'name': 'E2', 'path': 'harness/E2, coq/Sched, harness/E2/e2lib.py', 'serves_properties': [], 'kind_free_text': 'deterministic single-vCPU replay of real photon under a virtual clock (hooks 9a76167) vs the Coq scheduler model; traces compared verbatim'},
  {'name': 'E3', 'path': 'harness/E3, coq/E3', 'serves_properties': [], 'kind_free_text': 'lock-step atomic-step replay of header-only lock-free code between OS threads under a token-passing controller vs Coq step models (SC)'},
  {'name': 'E4S', 'path': 'harness/E4S, lib/e4s.py', 'serves_properties': [], 'kind_free_text': 'controlled multi-vCPU schedule search on the hook-enabled library (preemption at every lockset point, virtual clock, replayable PCT/random/hand-written schedules) with the property oracle on the implementation event log (hooks a599d49)'},
  {'name': 'E4', 'path': 'harness/C05/e4_main.cpp, coq/C05/C05_E4.v', 'serves_properties': [], 'kind_free_text': 'controlled multi-vCPU replay of the thread life-cycle model (token-passing controller over the real steal / migrate / resume / vcpu_fini code; placements compared with the extracted model after every command)'},
  {'name': 'E5', 'path': 'harness/C10, harness/C11, harness/C13, harness/C16, harness/C17', 'serves_properties': [], 'kind_free_text': 'scripted environment: interposed epoll / libc socket calls, scripted IStream / IFile / source filesystem, recording underlay'},
  {'name': 'E4L', 'path': 'harness/LS/lockset.cpp, lib/lockset.py', 'serves_properties': [], 'kind_free_text': 'lockset validation of the fine-grained models\' atomicity assumption on multi-vCPU runs of the hook-enabled library (hooks 5a10adb)'},
 ],
 'checks': [], 'not_applicable': [], 'notes': 'see DESIGN.md (approach, trusted base, findings) and FRAMEWORK.md (layout)'}
for p in props:
    pid = p['id']
    c = CHECKS.get(pid)
    if not c:
        man['not_applicable'].append({'property_id': pid, 'reason': PENDING_REASON}); continue
    man['checks'].append({
        'property_id': pid, 'quick_cmd': 'bin/check %s --tier quick' % pid, 'thorough_cmd': 'bin/check %s --tier thorough' % pid,
        'evidence_file': 'evidence/%s.json' % pid, 'replay_cmd_template': 'bin/check %s --replay {path}' % pid,
        'engine': c['engine'], 'level_claimed': {'category': 'proof', 'text': c['text'], 'design_ref': c['ref']},
        'level_note': c['note'], 'technique': c.get('tech', TECH)})
    for e in man['engines']:
        if e['name'] in c['engine'].replace('+', ' ').replace(',', ' ').split():
            e['serves_properties'].append(pid)
json.dump(man, open(os.path.join(V, 'MANIFEST.json'), 'w'), indent=1)
print('checks:', [c['property_id'] for c in man['checks']])
