#!/usr/bin/env python3
# Regenerates the machine-written part of DESIGN.md (between the AUTO markers): findings table from
# known_findings.json and the seeded-change table from seeded/*/meta.json.
import json, os, glob, re
V = os.path.dirname(os.path.dirname(os.path.abspath(__file__)))
kf = json.load(open(os.path.join(V, 'known_findings.json')))['findings']
def num(f): return int(re.sub(r'\D', '', f['id']))
out = ['<!-- AUTO-BEGIN (tools/gen_design_tables.py) -->', '',
       '### 12.1 Findings (from `known_findings.json`)', '',
       '| id | prop | status | what | witness / commit |', '|---|---|---|---|---|']
for f in sorted(kf, key=num):
    w = ('commit ' + str(f.get('commit'))) if f['status'] == 'fixed' else f.get('witness', '')
    out.append('| %s | %s | %s | %s | %s |' % (f['id'], f['property'], f['status'], f['what'].replace('|', '\\|')[:400], w.replace('|', '\\|')[:200]))
out += ['', '### 12.2 Seeded changes (independent sub-agents; `seeded/<id>/`) and which check catches them', '',
        '| seeded | property | change (one line) | needs | result of `bin/check` with the change applied |', '|---|---|---|---|---|']
for d in sorted(glob.glob(os.path.join(V, 'seeded', '*', 'meta.json'))):
    m = json.load(open(d)); name = os.path.basename(os.path.dirname(d))
    iv = m.get('integrator_verification', {})
    res = iv.get('check_result', '').split('->', 1)[-1].strip()
    if iv.get('after_strengthening'): res += ' — AFTER STRENGTHENING: ' + iv['after_strengthening']
    out.append('| %s | %s | %s | %s | %s |' % (name, m.get('property', name[:3]), str(m.get('summary', '')).replace('|', '\\|')[:300],
               str(m.get('needs_to_manifest', '')).replace('|', '\\|')[:300], res.replace('|', '\\|')[:500]))
out += ['', '<!-- AUTO-END -->']
p = os.path.join(V, 'DESIGN.md'); s = open(p).read()
blk = '\n'.join(out)
if '<!-- AUTO-BEGIN' in s:
    s = re.sub(r'<!-- AUTO-BEGIN.*?<!-- AUTO-END -->', lambda _: blk, s, flags=re.S)
else:
    s = s.rstrip('\n') + '\n\n--------------------------------------------------------------------------------\n\n## 12. Results of the build round (machine-written tables)\n\n' + blk + '\n'
open(p, 'w').write(s)
print('ok', len(kf), 'findings')
