#!/bin/bash
# usage: soak.sh <seed> [parallel]  : runs every registered quick check once with VERIF_SEED=<seed>, P at a time
SEED=$1; P=${2:-4}; OUT=/tmp/soak_$SEED; mkdir -p $OUT
ids=$(python3 -c "import json; print(' '.join(c['property_id'] for c in json.load(open('/verif/MANIFEST.json'))['checks']))")
printf "%s\n" $ids | xargs -P $P -I{} sh -c "cd /verif && start=\$(date +%s); VERIF_SEED=$SEED timeout 3600 bin/check {} --tier quick > $OUT/{}.log 2>&1; echo \"{} rc=\$? \$(( \$(date +%s) - start ))s\" >> $OUT/summary.txt"
sort $OUT/summary.txt
