# vlib.py — shared machinery for /verif/bin/check.
#
# Flow of one check (class DiffCheck):
#   1 prove       make the property's Coq proofs, re-check Properties file, read Print Assumptions
#   2 extract     extract the executable model to OCaml and build the model runner
#   3 build impl  compile the C++ harness against /repo's CURRENT working tree
#   4 correspond  run model and implementation on the same cases; diff line by line
#   5 decide      property oracle on the implementation outputs; known findings; VIOLATION lines
#   6 evidence    write /verif/evidence/<id>.json
import os, sys, re, json, time, hashlib, subprocess, shutil, glob, fcntl, random

VERIF = os.path.dirname(os.path.dirname(os.path.abspath(__file__)))
REPO = os.environ.get('VERIF_REPO', '/repo')
# all build output is under /verif/.build (git-ignored).  When VERIF_REPO points at a scratch
# worktree (used while developing hooks/fixes and for seeded-mutation trials) the repo-dependent
# output goes to a separate directory so that concurrent runs against different trees do not mix.
_ROOTBUILD = os.path.join(VERIF, '.build')
BUILD = _ROOTBUILD if os.path.realpath(REPO) == '/repo' else os.path.join(_ROOTBUILD, 'alt', hashlib.sha1(os.path.realpath(REPO).encode()).hexdigest()[:10])
COQ = os.path.join(VERIF, 'coq')
NPROC = os.cpu_count() or 4

# standard-library axioms that a property theorem may depend on (DESIGN.md §8)
AXIOM_WHITELIST = {
    'functional_extensionality_dep', 'FunctionalExtensionality.functional_extensionality_dep',
    'proof_irrelevance', 'ProofIrrelevance.proof_irrelevance', 'JMeq_eq', 'JMeq.JMeq_eq',
    'Eqdep.Eq_rect_eq.eq_rect_eq', 'eq_rect_eq', 'Classical_Prop.classic', 'classic',
    'propositional_extensionality', 'PropExtensionality.propositional_extensionality',
}
FORBIDDEN = re.compile(r'\b(Admitted|admit|Axiom|Axioms|Parameter|Parameters|Conjecture|Conjectures|'
                       r'Admit Obligations|Unset Guard Checking|Unset Positivity Checking|'
                       r'Unset Universe Checking|bypass_check|Hypothesis|Hypotheses|Variable|Variables)\b')
THM_RE = re.compile(r'^\s*(?:Local\s+|Global\s+|#\[[^\]]*\]\s*)*(Theorem|Lemma|Corollary|Example|Fact|Proposition|Remark)\s+([A-Za-z0-9_\']+)', re.M)


def sh(cmd, timeout=None, cwd=None, env=None, input=None):
    """run a shell command, return (rc, stdout+stderr)"""
    try:
        p = subprocess.run(cmd, shell=isinstance(cmd, str), cwd=cwd, env=env, input=input,
                           stdout=subprocess.PIPE, stderr=subprocess.STDOUT, timeout=timeout,
                           universal_newlines=True, errors='replace')
        return p.returncode, p.stdout
    except subprocess.TimeoutExpired as e:
        out = e.stdout if isinstance(e.stdout, str) else (e.stdout or b'').decode('utf8', 'replace')
        return 124, (out or '') + '\n[timeout after %ss]' % timeout


class Lock:
    """inter-process lock so that concurrent checks do not race on shared build output"""
    def __init__(self, name):
        d = os.path.join(_ROOTBUILD, 'locks')
        os.makedirs(d, exist_ok=True)
        self.path = os.path.join(d, name.replace('/', '_') + '.lock')
    def __enter__(self):
        self.f = open(self.path, 'w'); fcntl.flock(self.f, fcntl.LOCK_EX); return self
    def __exit__(self, *a):
        fcntl.flock(self.f, fcntl.LOCK_UN); self.f.close()


# ---------------------------------------------------------------- Coq --------
def coq_sources():
    out = []
    for root, _, files in os.walk(COQ):
        for f in files:
            if f.endswith('.v') and not f.endswith('_Extract.v') and not f.startswith('.'):
                out.append(os.path.relpath(os.path.join(root, f), COQ))
    return sorted(out)


def coq_prepare():
    """(re)generate _CoqProject and Makefile.coq when the file list changed"""
    with Lock('coqprep'):
        srcs = coq_sources()
        proj = '-Q . PV\n-arg -w -arg -deprecated-hint-without-locality,-deprecated-instance-without-locality,-notation-overridden,-ambiguous-paths,-redundant-canonical-projection\n' + '\n'.join(srcs) + '\n'
        pf = os.path.join(COQ, '_CoqProject')
        old = open(pf).read() if os.path.exists(pf) else None
        if old != proj or not os.path.exists(os.path.join(COQ, 'Makefile.coq')):
            open(pf, 'w').write(proj)
            rc, out = sh('coq_makefile -f _CoqProject -o Makefile.coq', cwd=COQ, timeout=120)
            if rc != 0:
                raise RuntimeError('coq_makefile failed: ' + out)


def _coq_deps(vfile):
    """direct PV.* dependencies of a .v file, as .v paths relative to coq/ (textual scan of
    `From PV Require ... A.B C.D.` and `Require [Import|Export] PV.A.B.`)"""
    txt = re.sub(r'\(\*.*?\*\)', ' ', open(os.path.join(COQ, vfile)).read(), flags=re.S)
    deps = []
    for m in re.finditer(r'From\s+PV\s+Require\s+(?:Import\s+|Export\s+)?(.*?)\.(?=\s|$)', txt, flags=re.S):
        for mod in m.group(1).split():
            deps.append(mod.replace('.', '/') + '.v')
    for m in re.finditer(r'Require\s+(?:Import\s+|Export\s+)?((?:PV\.[A-Za-z0-9_.]+?\s*)+)\.(?=\s|$)', txt, flags=re.S):
        for mod in m.group(1).split():
            deps.append(mod[3:].replace('.', '/') + '.v')
    return [d for d in dict.fromkeys(deps) if os.path.exists(os.path.join(COQ, d))]


def coq_make(targets, timeout=3000):
    """Full .vo build (never -vos) of the given targets ('X/Y.vo') and, first, of everything they
    depend on inside the PV library.  A file is recompiled when its .vo is missing or older than
    its source or than the .vo of a dependency.  Returns (ok, log).  One coqc at a time per
    directory (lock), so several checks can build different properties concurrently."""
    log = []
    done = {}

    def build(v, stack=()):
        if v in done:
            return done[v]
        if v in stack:
            raise RuntimeError('circular dependency at ' + v)
        ok = True
        newest = 0.0
        for d in _coq_deps(v):
            if not build(d, stack + (v,)):
                ok = False
            else:
                newest = max(newest, os.path.getmtime(os.path.join(COQ, d + 'o')))
        if not ok:
            done[v] = False
            log.append('[skip] %s (a dependency failed)' % v)
            return False
        src, vo = os.path.join(COQ, v), os.path.join(COQ, v + 'o')
        with Lock('coq_' + os.path.dirname(v)):
            if (not os.path.exists(vo)) or os.path.getmtime(vo) < os.path.getmtime(src) or os.path.getmtime(vo) < newest:
                t = time.time()
                rc, out = sh('timeout %d coqc -w -deprecated-hint-without-locality,-deprecated-instance-without-locality,-notation-overridden -Q . PV %s' % (timeout, v), cwd=COQ, timeout=timeout + 30)
                log.append('[coqc %s rc=%d %.1fs]\n%s' % (v, rc, time.time() - t, out))
                if rc != 0:
                    if os.path.exists(vo):
                        os.remove(vo)
                    done[v] = False
                    return False
        done[v] = True
        return True

    allok = True
    for t in targets:
        v = t[:-1] if t.endswith('.vo') else t
        try:
            if not build(v):
                allok = False
        except Exception as e:
            log.append('[error] %s: %s' % (v, e)); allok = False
    return allok, '\n'.join(log)


def coq_project_files():
    """write coq/_CoqProject listing every source (for `coq_makefile -f _CoqProject -o Makefile.coq && make`)"""
    srcs = coq_sources()
    open(os.path.join(COQ, '_CoqProject'), 'w').write('-Q . PV\n' + '\n'.join(srcs) + '\n')
    return srcs


def coq_check_properties(vfile, timeout=3000):
    """Re-compile the Properties file itself on every run (it only contains
    `Theorem .. exact lemma. Qed.` + Print Assumptions) and parse the assumptions.
    Returns dict(ok, log, theorems=[names], assumptions={thm: [axioms]}, bad_axioms=[...])."""
    src = open(os.path.join(COQ, vfile)).read()
    thms = [m.group(2) for m in THM_RE.finditer(src) if m.group(1) in ('Theorem', 'Corollary')]
    pa = re.findall(r'Print Assumptions\s+([A-Za-z0-9_\'.]+)\s*\.', src)
    with Lock('coq_' + os.path.dirname(vfile)):
        rc, out = sh('timeout %d coqc -w -deprecated-hint-without-locality,-deprecated-instance-without-locality,-notation-overridden -Q . PV %s' % (timeout, vfile), cwd=COQ, timeout=timeout + 30)
    res = dict(ok=(rc == 0), log=out, theorems=thms, assumptions={}, bad_axioms=[], missing_pa=[])
    if rc != 0:
        return res
    # split the output into one block per Print Assumptions command, in order
    blocks = re.split(r'(?m)^(?=Closed under the global context|Axioms:)', out)
    blocks = [b for b in blocks if b.startswith('Closed under') or b.startswith('Axioms:')]
    if len(blocks) != len(pa):
        res['ok'] = False
        res['log'] += '\n[vlib] %d Print Assumptions commands but %d result blocks' % (len(pa), len(blocks))
        return res
    for name, b in zip(pa, blocks):
        axs = []
        if b.startswith('Axioms:'):
            for line in b.splitlines()[1:]:
                m = re.match(r'^([A-Za-z0-9_\'.]+)\s*:', line)
                if m:
                    axs.append(m.group(1))
        res['assumptions'][name] = axs
        for a in axs:
            if a not in AXIOM_WHITELIST and a.split('.')[-1] not in AXIOM_WHITELIST:
                res['bad_axioms'].append((name, a))
    res['missing_pa'] = [t for t in thms if t not in pa]
    if res['bad_axioms'] or res['missing_pa']:
        res['ok'] = False
    return res


def coq_forbidden_scan(subdirs):
    """grep the development for anything that would declare an axiom or switch off a check.
    `Variable`/`Hypothesis` are allowed only inside a Section (checked textually)."""
    hits = []
    for d in subdirs:
        for f in sorted(glob.glob(os.path.join(COQ, d, '*.v'))):
            depth = 0
            txt = re.sub(r'\(\*.*?\*\)', lambda m: ' ' * 0 + re.sub(r'[^\n]', ' ', m.group(0)), open(f).read(), flags=re.S)
            for ln, line in enumerate(txt.splitlines(), 1):
                if re.match(r'^\s*Section\s+\w+', line):
                    depth += 1
                if re.match(r'^\s*End\s+\w+', line) and depth > 0:
                    depth -= 1
                for m in FORBIDDEN.finditer(line):
                    w = m.group(1)
                    if w in ('Variable', 'Variables', 'Hypothesis', 'Hypotheses') and depth > 0:
                        continue
                    hits.append('%s:%d: %s' % (os.path.relpath(f, VERIF), ln, line.strip()))
    return hits


def count_obligations(vfiles):
    """number of Theorem/Lemma/... statements in the given .v files"""
    n = 0
    for f in vfiles:
        p = os.path.join(COQ, f)
        if os.path.exists(p):
            n += len(THM_RE.findall(open(p).read()))
    return n


# ---------------------------------------------------------------- OCaml ------
def build_model_runner(pid, extract_v, runner_ml, module, timeout=3000):
    """coqc the *_Extract.v in .build/extract/<pid>/ (the .ml lands there) and link the runner.
    `module` is the OCaml module name of the extracted file (e.g. 'C15_model')."""
    d = os.path.join(BUILD, 'extract', pid)
    os.makedirs(d, exist_ok=True)
    os.makedirs(os.path.join(BUILD, 'bin'), exist_ok=True)
    exe = os.path.join(BUILD, 'bin', pid + '_model')
    base = module[0].lower() + module[1:]
    with Lock('model_' + pid):
        rc, out = sh('timeout %d coqc -Q %s PV -o %s/%so %s' % (timeout, COQ, d, os.path.basename(extract_v), os.path.join(COQ, extract_v)),
                     cwd=d, timeout=timeout + 30)
        if rc != 0:
            return None, out
        drv = os.path.join(d, pid + '_driver.ml')
        with open(drv, 'w') as f:
            f.write('module BigZ = Z\nopen %s\n' % module)
            f.write(open(os.path.join(VERIF, 'ocaml', 'zutil.ml')).read())
            f.write('\n# 1 "%s"\n' % runner_ml)
            f.write(open(os.path.join(VERIF, runner_ml)).read())
        rc, out2 = sh('ocamlfind ocamlopt -O2 -w -a -package zarith -linkpkg %s.mli %s.ml %s -o %s 2>&1 || '
                      'ocamlfind ocamlopt -w -a -package zarith -linkpkg %s.mli %s.ml %s -o %s'
                      % (base, base, os.path.basename(drv), exe, base, base, os.path.basename(drv), exe),
                      cwd=d, timeout=3000)
        if rc != 0:
            return None, out + out2
    return exe, out + out2


# ---------------------------------------------------------------- C++ --------
CXXFLAGS = '-std=c++14 -O1 -g -DNDEBUG -I%s/include -iquote %s -Wno-deprecated-declarations -DPHOTON_VERIF -DVERIF_REPO_DIR=\"%s\"' % (REPO, REPO, REPO)
ASAN = '-fsanitize=address,undefined -fno-sanitize-recover=all -fno-omit-frame-pointer'


def cxx_build(pid, sources, extra='', asan=False, libphoton=False, out=None, timeout=3600):
    """compile a harness against /repo's current working tree; returns (exe|None, log)"""
    os.makedirs(os.path.join(BUILD, 'bin'), exist_ok=True)
    exe = out or os.path.join(BUILD, 'bin', pid + '_impl')
    flags = CXXFLAGS + (' ' + ASAN if asan else '') + ' ' + extra
    link = ''
    if libphoton:
        libdir = photon_lib()
        link = ' -L%s -Wl,-rpath,%s -lphoton -lpthread -ldl' % (libdir, libdir)
    srcs = ' '.join(s if os.path.isabs(s) else os.path.join(VERIF, s) for s in sources)
    # link to a private name and rename: a concurrently running check may be EXECUTING the previous binary
    # (overwriting it in place fails with ETXTBSY / corrupts the other run)
    tmpexe = '%s.tmp.%d' % (exe, os.getpid())
    rc, log = sh('g++ %s %s -o %s %s -lpthread' % (flags, srcs, tmpexe, link), timeout=timeout)
    if rc == 0:
        os.replace(tmpexe, exe)
    elif os.path.exists(tmpexe):
        os.remove(tmpexe)
    return (exe if rc == 0 else None), log


def photon_lib(timeout=3600):
    """Hook-enabled libphoton.so built from /repo's CURRENT working tree (incremental, ninja).
    Returns the directory holding libphoton.so."""
    d = os.path.join(BUILD, 'photon')
    with Lock('photon_' + hashlib.sha1(BUILD.encode()).hexdigest()[:8]):   # one lock per build directory (trees do not block each other)
        if not os.path.exists(os.path.join(d, 'build.ninja')):
            os.makedirs(d, exist_ok=True)
            rc, out = sh('cmake -S %s -B %s -G Ninja -DCMAKE_BUILD_TYPE=RelWithDebInfo '
                         '-DCMAKE_CXX_FLAGS="-Wno-error -DPHOTON_VERIF" -DPHOTON_BUILD_TESTING=OFF' % (REPO, d),
                         timeout=3000)
            if rc != 0:
                raise RuntimeError('cmake failed:\n' + out[-3000:])
        rc, out = sh('ninja -C %s photon_shared' % d, timeout=timeout)
        if rc != 0:
            raise RuntimeError('libphoton build failed:\n' + out[-5000:])
        # ninja re-links output/libphoton.so IN PLACE; harnesses of concurrently running checks may be
        # executing against it.  Hand out an immutable snapshot keyed by (size, mtime) instead.
        src = os.path.realpath(os.path.join(d, 'output', 'libphoton.so'))
        st = os.stat(src)
        snap = os.path.join(d, 'snap', '%d_%d' % (st.st_size, int(st.st_mtime * 1000)))
        if not os.path.exists(os.path.join(snap, 'libphoton.so')):
            os.makedirs(snap, exist_ok=True)
            tmpf = os.path.join(snap, '.libphoton.so.%d' % os.getpid())
            shutil.copy2(src, tmpf)
            os.replace(tmpf, os.path.join(snap, 'libphoton.so'))
            for n in os.listdir(os.path.join(d, 'output')):        # versioned names / symlinks the linker may record
                if n.startswith('libphoton.so.') and not os.path.exists(os.path.join(snap, n)):
                    try: os.symlink('libphoton.so', os.path.join(snap, n))
                    except OSError: pass
            olds = sorted((os.path.join(d, 'snap', x) for x in os.listdir(os.path.join(d, 'snap'))), key=os.path.getmtime)
            for o in olds[:-4]:
                if o != snap: shutil.rmtree(o, ignore_errors=True)
    return snap


# ---------------------------------------------------------------- running ----
def run_cases(exe, cases, tmpdir, tag, nshards=None, timeout=600, env=None, per_case_timeout=None):
    """Run `exe <casefile>` over the cases in parallel shards.  The program prints exactly one
    line per case and flushes after each.  If it dies on case k the result for k is
    'CRASH(<rc>): <last stderr line>' and the run resumes at k+1.  Returns list of output lines."""
    os.makedirs(tmpdir, exist_ok=True)
    n = len(cases)
    if n == 0:
        return []
    nshards = max(1, min(nshards or NPROC, (n + 49) // 50))
    bounds = [(n * i // nshards, n * (i + 1) // nshards) for i in range(nshards)]
    results = [None] * n

    def start(lo, hi, k, limit=None, attempt=0):
        fn = os.path.join(tmpdir, '%s.%d.cases' % (tag, k))
        with open(fn, 'w') as f:
            for c in cases[lo:hi]:
                f.write(c + '\n')
        ofn = fn + '.out'
        efn = fn + '.err'
        p = subprocess.Popen([exe, fn], stdout=open(ofn, 'w'), stderr=open(efn, 'w'), env=env)
        return dict(p=p, lo=lo, hi=hi, k=k, ofn=ofn, efn=efn, t0=time.time(), limit=limit or timeout, attempt=attempt)

    pending = [start(lo, hi, k) for k, (lo, hi) in enumerate(bounds) if hi > lo]
    serial = len(bounds)
    while pending:
        nxt = []
        for j in pending:
            try:
                j['p'].wait(timeout=max(1, j['limit'] - (time.time() - j['t0'])))
                rc = j['p'].returncode
            except subprocess.TimeoutExpired:
                j['p'].kill(); j['p'].wait(); rc = 124
            lines = open(j['ofn'], errors='replace').read().split('\n')
            complete = lines[:-1]           # last piece is '' or a partial line
            got = len(complete)
            want = j['hi'] - j['lo']
            for i, l in enumerate(complete[:want]):
                results[j['lo'] + i] = l
            if got < want and rc == 124 and (got > 0 or (j['attempt'] < 1 and j['limit'] < 1200)):
                # the SHARD ran out of wall time (slow / loaded machine), which says nothing about the case in
                # flight: resume at that case with a longer limit; only a case that makes no progress at all
                # in two attempts (the second with twice the limit) is reported as CRASH(timeout)
                nxt.append(start(j['lo'] + got, j['hi'], serial, limit=min(j['limit'] * 2, max(j['limit'], 3600)), attempt=(0 if got > 0 else j['attempt'] + 1))); serial += 1
                continue
            if got < want:
                err = open(j['efn'], errors='replace').read().strip().splitlines()
                msg = ''
                for l in err:
                    if 'ERROR' in l or 'runtime error' in l or 'SUMMARY' in l:
                        msg = l.strip(); break
                if not msg and err:
                    msg = err[-1].strip()
                results[j['lo'] + got] = 'CRASH(%s): %s' % ('timeout' if rc == 124 else rc, msg[:300])
                if j['lo'] + got + 1 < j['hi']:
                    nxt.append(start(j['lo'] + got + 1, j['hi'], serial)); serial += 1
        pending = nxt
    return results


def splitmix(seed):
    """deterministic PRNG derived from VERIF_SEED (python's Mersenne twister seeded by it)"""
    return random.Random(int(seed) & 0xFFFFFFFFFFFFFFFF)


def load_known_findings(pid):
    p = os.path.join(VERIF, 'known_findings.json')
    if not os.path.exists(p):
        return []
    return [f for f in json.load(open(p)).get('findings', []) if f.get('property') == pid]


def write_json(path, obj):
    os.makedirs(os.path.dirname(path), exist_ok=True)
    tmp = path + '.tmp'
    with open(tmp, 'w') as f:
        json.dump(obj, f, indent=1, sort_keys=False)
        f.write('\n')
    os.replace(tmp, path)


# ---------------------------------------------------------------- DiffCheck --
class DiffCheck:
    """Subclass per property.  Override the attributes and the methods marked (*)."""
    id = None
    coq_dirs = []            # directories under coq/ scanned for forbidden words, e.g. ['Base','C15']
    coq_targets = []         # .vo targets to make (the Proofs files), e.g. ['C15/C15_Proofs.vo']
    properties_v = None      # e.g. 'C15/C15_Properties.v'
    extract_v = None         # e.g. 'C15/C15_Extract.v'
    runner_ml = None         # e.g. 'ocaml/C15_run.ml'
    model_module = None      # e.g. 'C15_model'
    rule = ''                # text: how cases are generated and what makes one non-trivial
    assumptions = []         # text lines for the evidence file
    trusted_base = []
    partial_note = ''
    case_timeout = 600
    lockset_rules = None     # set of E4L rule ids (lib/lockset.py) relevant to this property, or None
    e4s_props = None         # property ids whose E4S scenarios/oracles (lib/e4s.py) this check runs, or None

    # (*) build the implementation harness from /repo's current tree -> exe path or raise
    def build_impl(self):
        raise NotImplementedError
    # (*) return list of case strings (one line each).  corpus first, exhaustive next, then random
    def gen_cases(self, tier, rng):
        raise NotImplementedError
    # (*) is this case non-trivial by the property's rule?
    def nontrivial(self, case):
        return True
    # (*) the PROPERTY's own oracle evaluated on the implementation's output for the case,
    #     independent of the model.  Return None if fine, else a message.
    def oracle(self, case, impl_out):
        return None
    # (*) if the case lies in the class of a listed known finding return its id, else None
    def known_class(self, case):
        return None
    # (*) optional: neighbours of a disagreeing case to feed the oracle (violation search)
    def neighbours(self, case, rng):
        return []
    # (*) optional: canonicalise an output line before diffing
    def canon(self, line):
        return line.strip()
    # (*) optional: category label of a case for the input-distribution histogram
    def category(self, case):
        return case.split(' ', 1)[0]
    # (*) optional: environment for the implementation harness
    def impl_env(self):
        e = dict(os.environ)
        e['ASAN_OPTIONS'] = 'detect_leaks=0:abort_on_error=0:exitcode=99'
        e['UBSAN_OPTIONS'] = 'print_stacktrace=0:halt_on_error=1'
        return e
    # (*) optional extra steps (e.g. a second engine); return list of violation dicts
    def extra(self, ctx):
        return []

    # -------------------------------------------------------------------------
    def main(self, argv):
        import argparse
        ap = argparse.ArgumentParser()
        ap.add_argument('--tier', default=os.environ.get('VERIF_TIER', 'quick'))
        ap.add_argument('--replay', default=None)
        a = ap.parse_args(argv)
        seed = int(os.environ.get('VERIF_SEED', '1'))
        t0 = time.time()
        self.tier, self.seed = a.tier, seed
        rng = splitmix(seed)
        pid = self.id
        tmp = os.path.join(BUILD, 'run', '%s_%d' % (pid, os.getpid()))   # per process: concurrent runs must not share case files
        shutil.rmtree(tmp, ignore_errors=True)
        os.makedirs(tmp, exist_ok=True)
        import atexit
        atexit.register(lambda: shutil.rmtree(tmp, ignore_errors=True))
        violations = []          # dicts: kind, message, case, model_out, impl_out
        notes = []
        ev = dict(property_id=pid, tier=a.tier if a.tier in ('quick', 'thorough') else 'quick', seed=seed, level='proof')

        # 1 prove ------------------------------------------------------------
        forb = coq_forbidden_scan(self.coq_dirs)
        ok_make, log_make = coq_make(self.coq_targets)
        pr = coq_check_properties(self.properties_v) if ok_make else dict(ok=False, log=log_make, theorems=[], assumptions={}, bad_axioms=[], missing_pa=[])
        vfiles = [t[:-1] for t in self.coq_targets] + [self.properties_v]
        obligations = count_obligations(vfiles)
        built = [f for f in vfiles if f == self.properties_v or os.path.exists(os.path.join(COQ, f + 'o'))]
        discharged = count_obligations(built) if (ok_make and pr['ok']) else count_obligations([f for f in built if f != self.properties_v])
        proof_ok = ok_make and pr['ok'] and not forb
        if not proof_ok:
            why = []
            if forb: why.append('forbidden declarations: ' + '; '.join(forb[:5]))
            if not ok_make: why.append('make failed: ' + self._coq_error(log_make))
            elif not pr['ok']:
                if pr['bad_axioms']: why.append('non-whitelisted axioms: %s' % pr['bad_axioms'])
                if pr['missing_pa']: why.append('theorems without Print Assumptions: %s' % pr['missing_pa'])
                if not pr['bad_axioms'] and not pr['missing_pa']: why.append('Properties file failed: ' + self._coq_error(pr['log']))
            violations.append(dict(kind='proof', message=' | '.join(why), case=None))
        if a.tier == 'thorough' and proof_ok:
            notes.append(self._coqchk())

        # 2 extract ------------------------------------------------------------
        model_exe, mlog = build_model_runner(pid, self.extract_v, self.runner_ml, self.model_module)
        if not model_exe:
            violations.append(dict(kind='proof', message='model extraction/build failed: ' + mlog[-800:], case=None))

        # 3 build impl ---------------------------------------------------------
        impl_exe = None
        try:
            impl_exe = self.build_impl()
        except Exception as e:
            violations.append(dict(kind='build', message='implementation harness does not build against /repo: %s' % str(e)[-1500:], case=None))

        # 4 correspond ---------------------------------------------------------
        cases, mout, iout = [], [], []
        if a.replay:
            rp = json.load(open(a.replay))
            cases = [rp['case']] if rp.get('case') else []
        else:
            cases = list(self.gen_cases(a.tier, rng))
        self.ctx = dict(tmp=tmp, tier=a.tier, seed=seed, rng=rng, model_exe=model_exe, impl_exe=impl_exe)
        disagreements = []
        oracle_fail = []
        known_seen = {}
        if model_exe and impl_exe and cases:
            mout = run_cases(model_exe, cases, tmp, 'model', timeout=self.case_timeout)
            iout = run_cases(impl_exe, cases, tmp, 'impl', timeout=self.case_timeout, env=self.impl_env())
            # infrastructure failures of the machine (thread / process / memory exhaustion, loader races) are not
            # results: re-run those cases alone, serially; what still fails that way is excluded and counted
            infra = re.compile(r'Resource temporarily unavailable|INITFAIL|Cannot allocate memory|cannot fork|'
                               r'error while loading shared libraries|pthread_create failed|std::system_error')
            self.infra_skipped = 0
            for side, exe_, env_ in (('model', model_exe, None), ('impl', impl_exe, self.impl_env())):
                outs = mout if side == 'model' else iout
                bad = [k for k, o in enumerate(outs) if o and infra.search(o)]
                for attempt in range(3):
                    if not bad:
                        break
                    time.sleep(5 * (attempt + 1))
                    redo = run_cases(exe_, [cases[k] for k in bad], tmp, side + '_infra%d' % attempt, nshards=1,
                                     timeout=self.case_timeout, env=env_)
                    for k, o in zip(bad, redo):
                        outs[k] = o
                    bad = [k for k in bad if outs[k] and infra.search(outs[k])]
                for k in bad:
                    mout[k] = iout[k] = 'INFRA-SKIPPED'
                    self.infra_skipped += 1
            for c, m, i in zip(cases, mout, iout):
                if m == 'INFRA-SKIPPED':
                    continue
                cm, ci = self.canon(m or ''), self.canon(i or '')
                kc = self.known_class(c)
                o = self.oracle(c, ci)
                if o:
                    if kc:
                        known_seen.setdefault(kc, (c, o))
                    else:
                        oracle_fail.append((c, cm, ci, o))
                if cm != ci:
                    disagreements.append((c, cm, ci))
            # 5 decide: violation search around disagreements --------------------
            if disagreements and not oracle_fail:
                extra_cases = []
                for c, _, _ in disagreements[:20]:
                    extra_cases += list(self.neighbours(c, rng))
                extra_cases = [c for c in dict.fromkeys(extra_cases)][:5000]
                if extra_cases:
                    eo = run_cases(impl_exe, extra_cases, tmp, 'search', timeout=self.case_timeout, env=self.impl_env())
                    for c, i in zip(extra_cases, eo):
                        o = self.oracle(c, self.canon(i or ''))
                        if o and not self.known_class(c):
                            oracle_fail.append((c, '', self.canon(i or ''), o))
            for c, cm, ci, o in oracle_fail[:1]:
                violations.append(dict(kind='oracle', message=o, case=c, model_out=cm, impl_out=ci))
            if disagreements and not oracle_fail:
                c, cm, ci = min(disagreements, key=lambda d: len(d[0]))
                violations.append(dict(kind='correspondence', message='model and implementation disagree on %d of %d cases' % (len(disagreements), len(cases)),
                                       case=c, model_out=cm, impl_out=ci))
        # lockset engine (E4L): validates the atomicity assumption of the fine-grained model on multi-vCPU runs
        self.extra_coverage = dict(getattr(self, 'extra_coverage', {}) or {})
        if getattr(self, 'lockset_rules', None) and not a.replay:
            try:
                import lockset
                lv, lcov = lockset.run(set(self.lockset_rules), tier=a.tier, seed=seed)
                violations += lv
                self.extra_coverage.update(lcov)
            except Exception as e:
                violations.append(dict(kind='build', message='lockset engine failed: %s' % str(e)[-1500:], case=None))
        # E4S (lib/e4s.py): controlled multi-vCPU schedule search on the implementation with the property's oracle
        if getattr(self, 'e4s_props', None) and not a.replay:
            try:
                import e4s
                ev_, ecov = e4s.run(set(self.e4s_props), tier=a.tier, seed=seed)
                violations += ev_
                self.extra_coverage.update({'e4s': ecov})
            except Exception as e:
                violations.append(dict(kind='build', message='E4S engine failed: %s' % str(e)[-1500:], case=None))
        try:
            violations += list(self.extra(self.ctx) or [])
        except Exception as e:
            violations.append(dict(kind='build', message='extra engine failed: %s' % str(e)[-1500:], case=None))

        # known findings -------------------------------------------------------
        for f in load_known_findings(pid):
            if f.get('status') == 'known':
                print('KNOWN-FINDING: property=%s %s' % (pid, f['what']))

        # 6 evidence -----------------------------------------------------------
        nontriv = set()
        hist = {}
        for c in cases:
            hist[self.category(c)] = hist.get(self.category(c), 0) + 1
            if self.nontrivial(c):
                nontriv.add(hashlib.sha1(c.encode()).hexdigest())
        samples = []
        step = max(1, len(cases) // 6)
        for k in range(0, len(cases), step):
            if len(samples) < 8 and k < len(iout):
                samples.append(dict(case=cases[k], impl=(iout[k] or '')[:400], model=(mout[k] or '')[:400]))
        cov = dict(
            obligations=obligations, discharged=discharged,
            checker_cmd='coqc -Q . PV <deps of %s in order> (full .vo, no -vos) && coqc -Q . PV %s (Print Assumptions per theorem)' % (' '.join(self.coq_targets), self.properties_v),
            trusted_base=['Coq 8.16.1 kernel (vm_compute used; native_compute not)', 'Coq extraction with ExtrOcamlBasic only', 'OCaml 4.13.1 + zarith for numeral I/O only',
                          'hand-written model tied by differential correspondence run'] + list(self.trusted_base),
            property_theorems=pr.get('theorems', []),
            axioms_per_theorem=pr.get('assumptions', {}),
            evaluations=len(cases), distinct_nontrivial=len(nontriv), rule=self.rule,
            traces_validated_against_impl=len([1 for c, m, i in zip(cases, mout, iout) if self.canon(m or '') == self.canon(i or '')]),
            disagreements=len(disagreements), oracle_failures=len(oracle_fail), infrastructure_skipped=getattr(self, 'infra_skipped', 0),
            known_finding_cases={k: v[0] for k, v in known_seen.items()},
            input_distribution=hist, samples=samples or [dict(note='no cases ran')],
            notes=notes, partial=self.partial_note)
        cov.update(getattr(self, 'extra_coverage', {}) or {})
        ev['coverage'] = cov
        ev['assumptions'] = list(self.assumptions)
        ev['wall_s'] = round(time.time() - t0, 2)
        ev['violations'] = len(violations)
        write_json(os.path.join(VERIF, 'evidence', pid + '.json'), ev)

        # report -----------------------------------------------------------------
        if violations:
            v = violations[0]
            os.makedirs(os.path.join(VERIF, 'replay'), exist_ok=True)
            rpath = os.path.join(VERIF, 'replay', '%s_%s_%d.json' % (pid, v['kind'], seed))
            v = dict(v); v['property'] = pid
            v['replay_cmd'] = 'bin/check %s --replay %s' % (pid, rpath)
            v['all'] = [dict(kind=x['kind'], message=x['message'][:2000], case=x.get('case')) for x in violations[:10]]
            write_json(rpath, v)
            tail = '' if v['kind'] == 'oracle' else ' no-failing-input-found'
            print('[%s] %s: %s' % (pid, v['kind'], v['message'][:1500]))
            if v.get('case'):
                print('[%s] case : %s\n[%s] model: %s\n[%s] impl : %s' % (pid, v['case'][:500], pid, str(v.get('model_out'))[:500], pid, str(v.get('impl_out'))[:500]))
            print('VIOLATION property=%s replay=%s%s' % (pid, rpath, tail))
            return 1
        print('[%s] OK: %d/%d proof obligations, %d cases (%d non-trivial), model==impl on all, oracle clean, %.1fs'
              % (pid, discharged, obligations, len(cases), len(nontriv), time.time() - t0))
        return 0

    def _coq_error(self, log):
        m = re.search(r'(File "[^"]+", line \d+[^\n]*\n(?:.*\n){0,12})', log)
        return (m.group(1) if m else log[-1200:]).strip()[:1500]

    def _coqchk(self):
        mod = 'PV.' + self.properties_v[:-2].replace('/', '.')
        rc, out = sh('timeout 1500 coqchk -o -silent -Q . PV %s' % mod, cwd=COQ, timeout=1600)
        return dict(coqchk_rc=rc, coqchk_tail=out[-1500:])
