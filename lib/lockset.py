# lockset.py — engine "E4L": lockset validation of the fine-grained models' atomicity assumption.
#
# The all-interleavings theorems (C01–C06 …) are about models in which one transition is a block of
# C++ executed under a lock.  That is only a faithful abstraction if the C++ really performs those
# accesses with that lock held.  This engine checks exactly that on the implementation: libphoton is
# built from /repo's current tree with -DPHOTON_VERIF, a callback receives every spinlock
# acquire/release and every hooked access (with the lock(s) the model says protect it), and a
# multi-vCPU stress workload (harness/LS/lockset.cpp) exercises mutex / semaphore / condition
# variable / rwlock / sleep / cross-vCPU interrupt / join.  The verdict is schedule-insensitive:
# an access without its lock is reported whenever the access is executed.
import os, re
import vlib

RULE_NAMES = {10: 'waitq push (under waitq.lock + thread.lock; primitive lock still held = atomic release-and-wait)',
              11: 'waitq erase (under waitq.lock + thread.lock)', 12: 'thread goes to sleep (under thread.lock [+ waitq.lock])',
              13: 'dequeue_ready (under thread.lock)', 14: 'interrupt wake-up (under thread.lock)',
              15: 'timeout wake-up (under thread.lock)', 16: 'thread done + notify joiner (under thread.lock)',
              17: 'standbyq push (under standbyq.lock + thread.lock)', 18: 'standbyq drain',
              20: 'mutex hand-off (under mutex.splock + head thread.lock)', 21: 'semaphore add (under splock)',
              22: 'semaphore subtract (under splock)', 23: 'rwlock state change (under its mutex)',
              25: 'thread stack release dispose() (under thread.lock: joiner or dying thread)',
              26: 'mutex slow path: failed owner-CAS and enqueue in ONE splock section',
              24: 'semaphore resume pass try_resume (under splock: the signaller must not touch the semaphore after the waiter it woke can return)'}


def run(rules, tier='quick', seed=1, ncases=None):
    """returns (violations, coverage) restricted to the given rule ids"""
    exe, log = vlib.cxx_build('LS', ['harness/LS/lockset.cpp'], libphoton=True,
                              out=os.path.join(vlib.BUILD, 'bin', 'LS_impl'))
    if not exe:
        return [dict(kind='build', message='lockset harness does not build against /repo: ' + log[-1500:], case=None)], {}
    n = ncases or (6 if tier == 'quick' else 60)
    cases = ['%d %d %d %d' % (seed * 100 + i, 2 + i % 3, 3 + i % 3, 250) for i in range(n)]
    tmp = os.path.join(vlib.BUILD, 'run', 'LS_%d' % os.getpid())
    outs = vlib.run_cases(exe, cases, tmp, 'ls', nshards=min(n, 6), timeout=300)
    checks, viols, first = {}, {}, None
    bad = []
    for c, o in zip(cases, outs):
        m = re.match(r'checks(.*?) \| viol(.*?) \| excl=(\d+) \| first=(.*)$', o or '')
        if not m:
            bad.append((c, o)); continue
        for kv in m.group(1).split():
            k, v = kv.split('='); checks[int(k)] = checks.get(int(k), 0) + int(v)
        for kv in m.group(2).split():
            k, v = kv.split('=')
            if int(k) in rules:
                viols[int(k)] = viols.get(int(k), 0) + int(v)
                first = first or (c, m.group(4))
        if int(m.group(3)) and (20 in rules or 23 in rules):
            viols['excl'] = viols.get('excl', 0) + int(m.group(3)); first = first or (c, 'mutual exclusion counter saw two holders')
    out = []
    if viols:
        out.append(dict(kind='correspondence', case='LS ' + first[0], model_out='every hooked access happens under the lock(s) the model assumes',
                        impl_out=first[1], message='lockset engine: the implementation performs accesses outside the lock the fine-grained model assumes (%s)'
                        % ', '.join('rule %s x%d' % (k, v) for k, v in viols.items())))
    # a crashed/hung stress case is not by itself evidence about the property; report only if every case failed
    if bad and len(bad) == len(cases):
        out.append(dict(kind='build', message='lockset harness produced no result: %r' % (bad[0],), case=None))
    cov = dict(lockset_cases=len(cases), lockset_failed_cases=len(bad),
               lockset_checks={RULE_NAMES.get(k, str(k)): v for k, v in checks.items() if k in rules},
               lockset_violations={str(k): v for k, v in viols.items()})
    return out, cov
