# e4s.py — engine "E4S": CONTROLLED multi-vCPU schedule exploration of photon's blocking synchronisation
# primitives (mutex C01, semaphore C02, condition variable C03, rwlock C06) on the implementation.
#
# harness/E4S/e4s.cpp compiles thread/thread.cpp of the tree under test into its own translation unit and runs
# small scripted programs on 2-3 photon vCPUs (= OS threads) under a token-passing controller: exactly one vCPU runs
# at a time, the preemption points are the lockset hooks (every spinlock acquire attempt / acquire / release and every
# hooked scheduler access), the start of every scripted op and the idle hook; time is the E2 virtual clock.  A schedule
# is the sequence of vCPU choices at the points where more than one vCPU is enabled; it comes from hand-written
# prefixes plus a seeded PCT / sticky-random scheduler and is printed by the harness, so every run can be replayed.
#
# No model comparison: the Coq theorems about the fine-grained models are the claims; this engine SEARCHES the
# implementation for a schedule whose event log (op start / return with value, errno, virtual time; wait-queue
# link / unlink events) violates the property, judged by the oracles below.  A report is made only after the
# failing schedule has been replayed and has produced the same log and the same verdict again.
import os, re, time
import vlib

HOOK_PATCH = 'repo_patches/E4S-hook-lock-want.diff'
ETIMEDOUT = 110
SKIPPED = -2
INF = -1

# ------------------------------------------------------------------ scenarios
# (name, property, nv, decls, [(vcpu, ops)], [hand-written schedule prefixes], use random schedules with these prefixes)
W = 'lock 0 -1;cv_wait 1 0 -1;unlock 0'
W100 = 'lock 0 -1;cv_wait 1 0 100;unlock 0'


def _sc():
    S = []
    # ---- C03 condition variable: two notifiers + 2-4 waiters; notify vs the head waiter's time-out
    S.append(('cv_2n2w', 'C03', 3, 'mutex 0;cv', [(0, W), (0, W), (1, 'notify_one 1'), (2, 'notify_one 1')],
              ['0!,1@3:t0,2!,1!', '0!,2@3:t0,1!,2!', '0!,1@1:t0,2!,1!'], ['0!']))
    S.append(('cv_2n3w', 'C03', 3, 'mutex 0;cv', [(0, W), (0, W), (0, W), (1, 'notify_one 1'), (2, 'notify_one 1')],
              ['0!,1@3:t0,2!,1!'], ['0!']))
    S.append(('cv_2n4w', 'C03', 3, 'mutex 0;cv', [(0, W), (0, W), (1, W), (1, 'notify_one 1;notify_one 1'), (2, W), (2, 'notify_one 1;notify_one 1')],
              [], ['0!', '']))
    S.append(('cv_2v', 'C03', 2, 'mutex 0;cv', [(0, W), (0, W), (0, 'notify_one 1'), (1, 'notify_one 1')],
              ['0@101:2,1@3:t0,0!,1!', '0@101:2,0@3:t0,1!,0!'], ['0@101:2', '']))
    S.append(('cv_locked_notify', 'C03', 3, 'mutex 0;cv', [(0, W), (0, W), (1, 'lock 0 -1;notify_one 1;unlock 0'), (2, 'lock 0 -1;notify_one 1;unlock 0')],
              [], ['0!', '']))
    S.append(('cv_timeout', 'C03', 2, 'mutex 0;cv', [(0, W100), (0, W), (1, 'tick 100;notify_one 1')],
              ['0!,1@3:t0,0!,1!', '0!,1@1:t0,0!,1!'], ['0!']))
    S.append(('cv_timeout_2n', 'C03', 3, 'mutex 0;cv', [(0, W100), (0, W), (0, W), (1, 'tick 100;notify_one 1'), (2, 'notify_one 1')],
              ['0!,1@3:t0,0!,2!,1!'], ['0!']))
    S.append(('cv_all', 'C03', 3, 'mutex 0;cv', [(0, W), (0, W100), (1, W), (1, 'tick 100;notify_all 1'), (2, 'notify_one 1')],
              ['0!,1@3:t0,2!,1!'], ['0!', '']))
    S.append(('cv_all_vs_timeout', 'C03', 2, 'mutex 0;cv', [(0, W100), (0, W), (0, W), (1, 'tick 100;notify_all 1')],
              ['0!,1@3:t0,0!,1!'], ['0!']))
    S.append(('cv_intr', 'C03', 3, 'mutex 0;cv', [(0, W), (0, W), (1, 'interrupt 0 4'), (2, 'notify_one 1')],
              ['0!,2@3:t0,1!,2!'], ['0!']))
    # ---- C01 mutex: hand-off vs a late locker, timed lock vs unlock
    L = 'lock 0 -1;unlock 0'
    S.append(('mx_handoff', 'C01', 2, 'mutex 0', [(0, L), (1, L)], ['0@2:m0.sp,1@3:m0.sp,0!,1!', '0@101:0,0*2,1@3:m0.sp,0!,1!'], ['']))
    S.append(('mx_late', 'C01', 3, 'mutex 0', [(0, L), (1, L), (2, L)], [], ['']))
    S.append(('mx_retry', 'C01', 2, 'mutex 2', [(0, L), (0, L), (1, L), (1, L)], [], ['']))
    S.append(('mx_twice', 'C01', 2, 'mutex 0', [(0, L + ';' + L), (1, L + ';' + L)], [], ['']))
    S.append(('mx_timed', 'C01', 2, 'mutex 0', [(0, 'lock 0 -1;tick 50;unlock 0'), (1, 'lock 0 100;unlock 0')], [], ['']))
    S.append(('mx_timed_race', 'C01', 2, 'mutex 0', [(0, 'lock 0 -1;tick 100;unlock 0'), (1, 'lock 0 100;unlock 0'), (1, L)], [], ['']))
    S.append(('mx_intr', 'C01', 3, 'mutex 0', [(0, 'lock 0 -1;unlock 0'), (1, 'lock 0 -1;unlock 0'), (2, 'interrupt 1 4')], [], ['']))
    # ---- C01 contending-mode mutexes (mutex(retries, true): unlock() frees the mutex and wakes the head, the woken waiter competes again)
    # owner re-locks right after its unlock / a late locker on either vCPU takes the freed mutex before the woken waiter runs
    S.append(('cmx_relock', 'C01', 2, 'mutex 0 1', [(0, L + ';' + L), (1, L)], ['0@26:0,0@101:0,1!,0@26:0,0,1!,0!,1!'], ['', '0@26:0,0@101:0,1!']))
    S.append(('cmx_late', 'C01', 2, 'mutex 0 1', [(0, L), (1, L), (0, 'try_lock 0;unlock 0'), (1, L)], ['0@26:0,0@101:0,1!,0@26:2,0,1!,0!,1!'], ['', '0@26:0,0@101:0,1!']))
    S.append(('cmx_retry', 'C01', 2, 'mutex 2 1', [(0, L + ';' + L), (0, L), (1, L), (1, L)], [], ['']))
    S.append(('cmx_timed', 'C01', 2, 'mutex 0 1', [(0, 'lock 0 -1;tick 50;unlock 0;lock 0 -1;tick 100;unlock 0'), (1, 'lock 0 100;unlock 0')], [], ['']))
    # ---- C01 recursive_mutex: the owner (depth 1) unlocks while a waiter on the other vCPU is queued; the waiter then nests a
    # lock/unlock pair and stays inside; a prober on the old owner's vCPU tries / locks
    RL1, RW = 'rlock 0 -1;runlock 0', 'rlock 0 -1;rlock 0 -1;runlock 0'
    RPRE = '0@26:0,0@101:0,1!,0@4:m0.sp,'
    S.append(('rmx_nested_stay', 'C01', 2, 'rmutex 0', [(0, RL1), (1, RW), (0, 'rtry 0;runlock 0')],
              [RPRE + '1@101:1,0@101:2,1@4:m0.sp,0!,1!', RPRE + '1!,0!'], ['', '0@26:0,0@101:0,1!']))
    S.append(('rmx_nested', 'C01', 2, 'rmutex 0', [(0, RL1), (1, RW + ';runlock 0'), (0, 'rtry 0;runlock 0')],
              [RPRE + '1@101:1,0@101:2,1@4:m0.sp,0!,1!', RPRE + '1!,0!'], ['', '0@26:0,0@101:0,1!']))
    S.append(('rmx_nested_locker', 'C01', 2, 'rmutex 0', [(0, RL1), (1, RW + ';runlock 0'), (0, RL1)],
              [RPRE + '1!,0!,1!'], ['', '0@26:0,0@101:0,1!']))
    S.append(('rmx_depth2', 'C01', 2, 'rmutex 1', [(0, 'rlock 0 -1;rtry 0;runlock 0;runlock 0'), (0, RL1), (1, RW + ';runlock 0'), (1, 'rtry 0;runlock 0')], [], ['']))
    S.append(('rcmx_relock', 'C01', 2, 'rmutex 0 1', [(0, RL1 + ';' + RL1), (1, RW + ';runlock 0')], ['0@26:0,0@101:0,1!,0@26:0,0,1!,0!,1!'], ['', '0@26:0,0@101:0,1!']))
    # ---- C02 semaphore (uniform demands): signal vs a waiter between its failed subtract and its enqueue
    S.append(('sem_1w1s', 'C02', 2, 'sem 0', [(0, 'sem_wait 0 1 -1'), (1, 'sem_signal 0 1')], ['0@2:s0.sp,1!,0!', '0@3:s0.q,1!,0!'], ['']))
    S.append(('sem_2w2s', 'C02', 3, 'sem 0', [(0, 'sem_wait 0 1 -1'), (0, 'sem_wait 0 1 -1'), (1, 'sem_signal 0 1'), (2, 'sem_signal 0 1')], [], ['', '0!']))
    S.append(('sem_d2', 'C02', 3, 'sem 0', [(0, 'sem_wait 0 2 -1'), (1, 'sem_wait 0 2 -1'), (1, 'sem_signal 0 2'), (2, 'sem_signal 0 2')], [], ['']))
    S.append(('sem_pingpong', 'C02', 2, 'sem 0;sem 0', [(0, 'sem_wait 0 1 -1;sem_signal 1 1;sem_wait 0 1 -1'), (1, 'sem_signal 0 1;sem_wait 1 1 -1;sem_signal 0 1')], [], ['']))
    S.append(('sem_timed', 'C02', 2, 'sem 0', [(0, 'sem_wait 0 1 100'), (1, 'tick 50;sem_signal 0 1')], [], ['']))
    S.append(('sem_timed_race', 'C02', 2, 'sem 0', [(0, 'sem_wait 0 1 100'), (0, 'sem_wait 0 1 -1'), (1, 'tick 100;sem_signal 0 1')], [], ['', '0!']))
    S.append(('sem_intr', 'C02', 3, 'sem 0', [(0, 'sem_wait 0 1 -1'), (0, 'sem_wait 0 1 -1'), (1, 'sem_signal 0 1'), (2, 'interrupt 0 4')], [], ['', '0!']))
    # mixed demands WITHOUT a fast-path wait that could overtake a woken waiter (outside the class of F35): the head-rule applies
    S.append(('sem_mixed_intr', 'C02', 3, 'sem 0', [(0, 'sem_wait 0 2 -1'), (0, 'sem_wait 0 1 -1'), (1, 'sem_signal 0 1'), (2, 'interrupt 0 4')], [], ['0!', '']))
    S.append(('sem_mixed_timeout', 'C02', 2, 'sem 0', [(0, 'sem_wait 0 2 100'), (0, 'sem_wait 0 1 -1'), (1, 'sem_signal 0 1;tick 100')], [], ['0!', '']))
    # ---- C06 rwlock: reader / writer admission (no waiter leaves: outside the class of F38)
    RL, WL = 'rw_lock 0 0 -1;rw_unlock 0', 'rw_lock 0 1 -1;rw_unlock 0'
    S.append(('rw_rw', 'C06', 2, 'rwlock 1', [(0, RL), (1, WL)], [], ['']))
    S.append(('rw_rwr', 'C06', 3, 'rwlock 1', [(0, RL), (1, WL), (2, RL)], [], ['']))
    S.append(('rw_wwr', 'C06', 3, 'rwlock 0', [(0, WL), (0, RL), (1, WL), (2, RL)], [], ['']))
    S.append(('rw_readers', 'C06', 2, 'rwlock 2', [(0, RL), (0, RL), (1, WL), (1, RL)], [], ['']))
    S.append(('rw_default_retries', 'C06', 2, 'rwlock 100', [(0, RL), (1, WL)], [], ['']))
    S.append(('rw_hold_readers', 'C06', 3, 'rwlock 1', [(0, WL), (1, 'rw_lock 0 0 -1'), (2, 'rw_lock 0 0 -1')], [], ['']))
    S.append(('rw_hold_readers_2v', 'C06', 2, 'rwlock 1', [(0, WL), (1, 'rw_lock 0 0 -1'), (1, 'rw_lock 0 0 -1'), (0, 'rw_lock 0 0 -1')], [], ['']))
    S.append(('rw_hold_writer', 'C06', 3, 'rwlock 1', [(0, RL), (0, RL), (1, 'rw_lock 0 1 -1'), (2, 'rw_lock 0 0 -1')], [], ['']))
    S.append(('rw_timed', 'C06', 3, 'rwlock 1', [(0, 'rw_lock 0 0 -1;tick 100;rw_unlock 0'), (1, 'rw_lock 0 1 100;rw_unlock 0'), (2, RL)], [], ['']))
    # ---- C04 sleep / interrupt / shutdown contract ACROSS vCPUs (plain thread_usleep only: F8 concerns wait-queue sleeps)
    S.append(('sd_inf', 'C04', 2, '-', [(0, 'usleep -1;usleep -1'), (1, 'shutdown 0 1')], ['0!,1@2:t0,0!,1!', '0!,1@4:V0.sb,0!,1!'], ['0!', '']))
    S.append(('sd_fin', 'C04', 2, '-', [(0, 'usleep 500000;usleep 500000;usleep 500000'), (1, 'shutdown 0 1')], ['0!,1@2:t0,0!,1!'], ['0!', '']))
    S.append(('sd_2t', 'C04', 3, '-', [(0, 'usleep -1;usleep 70000'), (0, 'usleep -1;usleep -1'), (1, 'shutdown 0 1'), (2, 'shutdown 1 1')], [], ['0!', '']))
    S.append(('sd_busy', 'C04', 2, '-', [(0, 'usleep -1;usleep 300;usleep -1'), (0, 'usleep 50;usleep 50'), (1, 'shutdown 0 1')], [], ['0!', '']))
    S.append(('sd_late', 'C04', 2, '-', [(0, 'usleep 100;usleep -1'), (1, 'usleep 50;shutdown 0 1')], [], ['']))
    S.append(('intr_1', 'C04', 2, '-', [(0, 'usleep -1;usleep 100'), (1, 'interrupt 0 4')], [], ['0!', '']))
    S.append(('intr_race', 'C04', 2, '-', [(0, 'usleep 100;usleep 100'), (1, 'tick 100;interrupt 0 4')], ['0!,1@3:t0,0!,1!'], ['0!', '']))
    S.append(('intr_2i', 'C04', 3, '-', [(0, 'usleep -1;usleep -1'), (1, 'interrupt 0 4'), (2, 'interrupt 0 5')], [], ['0!', '']))
    S.append(('intr_2s', 'C04', 2, '-', [(0, 'usleep 1000'), (0, 'usleep 2000'), (1, 'interrupt 0 4;interrupt 1 5')], [], ['0!', '']))
    S.append(('intr_sd', 'C04', 3, '-', [(0, 'usleep -1;usleep -1'), (1, 'interrupt 0 4'), (2, 'shutdown 0 1')], [], ['0!', '']))
    S.append(('sleep_deadlines', 'C04', 2, '-', [(0, 'usleep 100;usleep 50'), (1, 'usleep 120'), (1, 'tick 30;usleep 10')], [], ['']))
    S.append(('sleep_resume', 'C04', 3, '-', [(0, 'usleep 200'), (0, 'usleep -1'), (1, 'interrupt 1 0;usleep 20'), (2, 'usleep 200;interrupt 1 7')], [], ['0!', '']))
    return S


SCENARIOS = _sc()
# scenarios in which every thread must finish its script under EVERY schedule (all waits untimed or harmlessly timed, every lock
# is released, every demand is covered): a thread still blocked at quiescence is a lost hand-off / wake-up / admission
NO_BARGING = {'sem_mixed_intr', 'sem_mixed_timeout'}
MUST_COMPLETE = {'cmx_relock', 'cmx_late', 'cmx_retry', 'rmx_nested', 'rmx_nested_locker', 'rmx_depth2', 'rcmx_relock',
                 'mx_handoff', 'mx_late', 'mx_retry', 'mx_twice', 'mx_timed', 'mx_timed_race', 'mx_intr', 'sem_1w1s', 'sem_2w2s', 'sem_d2', 'sem_pingpong',
                 'sem_timed', 'rw_rw', 'rw_rwr', 'rw_wwr', 'rw_readers', 'rw_default_retries', 'cv_all_vs_timeout',
                 'sd_fin', 'intr_race', 'intr_2s', 'sleep_deadlines'}


def case_line(sc, sched):
    name, prop, nv, decls, threads, _, _ = sc
    return 'X %d | %s | %s | @ %s' % (nv, decls, ' | '.join('%d %s' % (v, ops) for v, ops in threads), sched)


# ------------------------------------------------------------------ parsing
class Run:
    """parsed output line of the harness for one case"""
    def __init__(self, case, out):
        self.case, self.out = case, out or ''
        self.prefix = ''
        self.ok = False
        m = re.match(r'^(?:(HANG\(cpu\)|HANG|CRASH\(\w+\)|DEADLOCK|STEP-LIMIT|NONDET|BADCASE|INITFAIL|FORKFAIL|NOOUTPUT\(\w+\)|PIPEFAIL|CRASH\([^)]*\):?) ?)?(.*)$', self.out, re.S)
        self.prefix = m.group(1) or ''
        body = m.group(2)
        f = {}
        for part in body.split(' | '):
            if '=' in part:
                k, v = part.split('=', 1); f[k.strip()] = v
        self.f = f
        if 'ev' not in f or 'sched' not in f:
            return
        self.ok = True
        secs = [s.strip() for s in case.split('|')]
        self.decls = [d.split() for d in secs[1].split(';')]
        self.prog = []
        for s in secs[2:-1]:
            v, _, ops = s.partition(' ')
            self.prog.append((int(v), [o.split() for o in ops.split(';') if o.strip()]))
        self.sched = '' if f['sched'].strip() == '-' else f['sched'].strip()
        self.note = f.get('note', '')
        self.events = []           # (kind, ...)
        self.ops = {}              # (tid, pc) -> dict
        for i, e in enumerate([] if f['ev'].strip() == '-' else f['ev'].strip().split(',')):
            c = e[0]
            if c == 'S':
                m = re.match(r'S(\d+)\.(\d+)@(\d+)/(\d+)$', e); t, pc, vc, now = map(int, m.groups())
                o = self.prog[t][1][pc]
                self.ops[(t, pc)] = dict(tid=t, pc=pc, name=o[0], args=[int(x) for x in o[1:]], s=i, r=None, ret=None, err=0, aux=0, s_vc=vc, s_now=now, r_vc=None, r_now=None)
                self.events.append(('S', t, pc))
            elif c == 'R':
                m = re.match(r'R(\d+)\.(\d+)=(-?\d+)/(-?\d+)/(-?\d+)@(\d+)/(\d+)$', e); t, pc, ret, err, aux, vc, now = map(int, m.groups())
                self.ops[(t, pc)].update(r=i, ret=ret, err=err, aux=aux, r_vc=vc, r_now=now)
                self.events.append(('R', t, pc))
            elif c == 'Q':
                m = re.match(r'Q([+-])([a-z]\d+[cm]?):(-?\d+)$', e)
                self.events.append(('Q' + m.group(1), m.group(2), int(m.group(3))))
            elif c == 'X':
                self.events.append(('X', int(e[1:])))
            elif c == 'N':
                a, b = e[1:].split(':'); self.events.append(('N', int(a), int(b)))
            elif c == 'J':
                self.events.append(('J', int(e[2:])))
            else:
                self.events.append(('?', e))
        self.n = len(self.events)
        self.blocked = [] if f.get('blocked', '-').strip() == '-' else [tuple(map(int, b.split('.'))) for b in f['blocked'].strip().split(',')]
        self.fin = {}
        for tok in f.get('fin', '').split():
            if ':' in tok:
                k, v = tok.split(':', 1); self.fin[k] = v
        # fin values contain spaces inside [..]; re-parse queue contents robustly
        self.finq = {}
        for m in re.finditer(r'([a-z]\d+):([^ ]*?(?:\[[^\]]*\][^ ]*?)*)(?= |$)', f.get('fin', '')):
            self.finq[m.group(1)] = m.group(2)

    def oplist(self, pred):
        return sorted([o for o in self.ops.values() if pred(o)], key=lambda o: o['s'])

    def executed(self, o):
        return not (o['r'] is not None and o['ret'] == SKIPPED)

    def interrupts_on(self, tid):
        return [o for o in self.ops.values() if o['name'] == 'interrupt' and o['args'][0] == tid]

    def membership(self, q):
        """list of (tid, a, b): thread linked into wait queue q at event a, unlinked at b (None = never)"""
        out, open_ = [], {}
        for i, e in enumerate(self.events):
            if e[0] == 'Q+' and e[1] == q:
                open_[e[2]] = i
            elif e[0] == 'Q-' and e[1] == q and e[2] in open_:
                out.append((e[2], open_.pop(e[2]), i))
        for t, a in open_.items():
            out.append((t, a, None))
        return out


def _t(x):
    return -1 if x == -1 else x


# ------------------------------------------------------------------ oracles (each returns a list of messages)
def errno_ok(run, o, timeout):
    """a blocking op that returned -1: ETIMEDOUT only at/after its deadline, anything else only from an interrupt op"""
    if o['ret'] is None or o['ret'] >= 0:
        return None
    if o['err'] == ETIMEDOUT:
        if timeout == INF:
            return 'T%d op %d (%s) returned -1/ETIMEDOUT although it has no timeout' % (o['tid'], o['pc'], o['name'])
        if o['r_now'] < o['s_now'] + timeout and timeout != 0:
            return 'T%d op %d (%s, timeout %d) returned -1/ETIMEDOUT at now=%d, before its deadline %d' % (o['tid'], o['pc'], o['name'], timeout, o['r_now'], o['s_now'] + timeout)
        return None
    for i in run.interrupts_on(o['tid']):
        if i['s'] < o['r'] and i['args'][1] == o['err']:
            return None
    return 'T%d op %d (%s) returned -1/errno %d which nobody delivered' % (o['tid'], o['pc'], o['name'], o['err'])


def mutex_oracle(run, mi):
    """C01 on mutex object mi (also the mutex of a condition variable): mutual exclusion over sure-hold intervals, result iff
    owner, errno, nobody asleep in the wait queue of a free mutex at quiescence, timed lock fails only if not free before the deadline"""
    out = []
    acq = lambda o: (o['name'] in ('lock', 'try_lock') and o['args'][0] == mi) or (o['name'] == 'cv_wait' and o['args'][1] == mi)
    holder = None
    for i, e in enumerate(run.events):
        if e[0] not in ('S', 'R'):
            continue
        o = run.ops[(e[1], e[2])]
        if not run.executed(o):
            continue
        if e[0] == 'S':
            if (o['name'] == 'unlock' and o['args'][0] == mi) or (o['name'] == 'cv_wait' and o['args'][1] == mi):
                if holder != o['tid']:
                    out.append('mutex %d: T%d releases it (op %d) but the log says the holder is %s' % (mi, o['tid'], o['pc'], holder))
                holder = None
        else:
            if o['name'] == 'unlock' and o['args'][0] == mi and o['aux'] == 1:
                out.append('mutex %d: unlock of T%d (op %d) returned but owner == the caller (the mutex is left stuck)' % (mi, o['tid'], o['pc']))
            got = (o['name'] in ('lock', 'try_lock') and o['args'][0] == mi and o['ret'] == 0) or (o['name'] == 'cv_wait' and o['args'][1] == mi)
            if acq(o) and o['name'] != 'cv_wait' and (o['ret'] == 0) != (o['aux'] == 1):
                out.append('mutex %d: %s of T%d returned %d/errno %d but owner %s the caller (lock() result must match ownership)' % (mi, o['name'], o['tid'], o['ret'], o['err'], '==' if o['aux'] else '!='))
            if o['name'] == 'cv_wait' and o['args'][1] == mi and o['aux'] != 1:
                out.append('cv_wait of T%d (op %d) returned %d/errno %d WITHOUT owning its mutex %d' % (o['tid'], o['pc'], o['ret'], o['err'], mi))
            if got:
                if holder is not None and holder != o['tid']:
                    out.append('mutex %d: T%d acquired it (op %d) while T%d holds it: two owners' % (mi, o['tid'], o['pc'], holder))
                holder = o['tid']
            if o['name'] == 'lock' and o['args'][0] == mi:
                m = errno_ok(run, o, o['args'][1])
                if m: out.append(m)
    # quiescence: nobody is linked in the wait queue of a free mutex; the owner field agrees with the log
    if not run.prefix:
        m = re.match(r'o=([^,]*)', run.finq.get('m%d' % mi, ''))
        if m and m.group(1) != ('-' if holder is None else str(holder)):
            out.append('mutex %d: at quiescence owner = %s but by the log %s (%s)' % (mi, 'T' + m.group(1) if m.group(1) != '-' else 'nobody',
                       'nobody holds it' if holder is None else 'T%d holds it' % holder, 'the mutex is left stuck' if holder is None else 'released under its holder'))
        inq = [t for t, a, b in run.membership('m%d' % mi) if b is None]
        if inq and holder is None:
            out.append('mutex %d is FREE at quiescence but T%s sleep%s in its wait queue (hand-off lost); final state %s' % (mi, ','.join(map(str, inq)), 's' if len(inq) == 1 else '', run.finq.get('m%d' % mi)))
        for (t, pc) in run.blocked:
            o = run.ops.get((t, pc))
            if o and o['r'] is None and o['name'] == 'lock' and o['args'][0] == mi and holder is None and t not in inq:
                out.append('mutex %d is free at quiescence but T%d is still blocked in lock()' % (mi, t))
    # a timed lock fails although the mutex became free before its deadline and nobody else wanted it
    for L in run.oplist(lambda o: o['name'] == 'lock' and o['args'][0] == mi and o['ret'] == -1 and o['err'] == ETIMEDOUT and o['args'][1] not in (INF, 0)):
        D = L['s_now'] + L['args'][1]
        others = [o for o in run.ops.values() if acq(o) and o is not L and run.executed(o)]
        for U in run.oplist(lambda o: o['name'] == 'unlock' and o['args'][0] == mi and run.executed(o) and o['r'] is not None):
            p = U['r']
            if not (L['s'] < p < L['r']) or U['r_vc'] >= D:
                continue
            # every other acquire op is over (returned) before p, and the mutex is not re-acquired in [p, R_L]
            busy = [o for o in others if o['s'] < L['r'] and (o['r'] is None or o['r'] > p)]
            if not busy:
                out.append('mutex %d: lock(%d us) of T%d returned -1/ETIMEDOUT (now=%d) although unlock of T%d had completed at virtual time %d < deadline %d and nobody else '
                           'was acquiring: the waiter was not served by the unlock' % (mi, L['args'][1], L['tid'], L['r_now'], U['tid'], U['r_vc'], D))
                break
    return out


def rmutex_oracle(run, mi):
    """C01 on recursive_mutex object mi.  Occupancy by OWNERSHIP DEPTH, from the log only: T is inside from the return of its
    outermost successful lock / try_lock to the START of the matching outermost unlock.  Never two threads inside (so: a
    try_lock / lock by somebody else succeeds only if nobody is inside); result 0 iff owner == CURRENT at return; a lock by a
    thread that is inside succeeds; after an unlock the caller is the owner iff it is still inside (a nested unlock must not
    release, the outermost one must); at quiescence the owner field is the thread that is inside (or nobody) and nobody
    sleeps on / is blocked in lock() of a free mutex."""
    out = []
    depth = {}
    def inside(): return sorted(t for t, d in depth.items() if d > 0)
    for i, e in enumerate(run.events):
        if e[0] not in ('S', 'R'):
            continue
        o = run.ops[(e[1], e[2])]
        if o['name'] not in ('rlock', 'rtry', 'runlock') or o['args'][0] != mi or not run.executed(o):
            continue
        t = o['tid']
        if e[0] == 'S':
            if o['name'] == 'runlock':
                if depth.get(t, 0) <= 0:
                    out.append('recursive mutex %d: T%d unlocks (op %d) at depth 0' % (mi, t, o['pc']))
                depth[t] = depth.get(t, 0) - 1
            continue
        if o['name'] == 'runlock':
            d = depth.get(t, 0)
            if d > 0 and o['aux'] != 1:
                out.append('recursive mutex %d: the NESTED unlock of T%d (op %d) gave the mutex away: T%d is still inside (depth %d) but is not the owner any more'
                           % (mi, t, o['pc'], t, d))
            if d == 0 and o['aux'] == 1:
                out.append('recursive mutex %d: the OUTERMOST unlock of T%d (op %d) returned but T%d is still the owner (the mutex is left stuck)' % (mi, t, o['pc'], t))
            continue
        # rlock / rtry return
        what = 'lock' if o['name'] == 'rlock' else 'try_lock'
        if (o['ret'] == 0) != (o['aux'] == 1):
            out.append('recursive mutex %d: %s of T%d (op %d) returned %d/errno %d but owner %s the caller (lock() result must match ownership)'
                       % (mi, what, t, o['pc'], o['ret'], o['err'], '==' if o['aux'] else '!='))
        if o['ret'] == 0:
            oth = [x for x in inside() if x != t]
            if oth:
                out.append('recursive mutex %d: %s of T%d (op %d) SUCCEEDED while T%s %s inside (depth %s): two threads inside the region'
                           % (mi, what, t, o['pc'], ',T'.join(map(str, oth)), 'is' if len(oth) == 1 else 'are', ','.join(str(depth[x]) for x in oth)))
            depth[t] = depth.get(t, 0) + 1
        else:
            if depth.get(t, 0) > 0:
                out.append('recursive mutex %d: %s of T%d (op %d) FAILED (%d/errno %d) although T%d is inside (depth %d): a nested lock by the owner always succeeds'
                           % (mi, what, t, o['pc'], o['ret'], o['err'], t, depth[t]))
        if o['name'] == 'rlock':
            m = errno_ok(run, o, o['args'][1])
            if m: out.append(m)
    if not run.prefix:
        ins = inside()
        fin = run.finq.get('m%d' % mi, '')
        m = re.match(r'o=([^,]*),rc=(-?\d+)', fin)
        if m and len(ins) <= 1:
            exp = str(ins[0]) if ins else '-'
            if m.group(1) != exp:
                out.append('recursive mutex %d: at quiescence owner = %s but by the log %s; final state %s' % (mi, 'T' + m.group(1) if m.group(1) != '-' else 'nobody',
                           ('T%d is inside at depth %d (released under its holder)' % (ins[0], depth[ins[0]])) if ins else 'nobody is inside (the mutex is left stuck)', fin))
        inq = [t for t, a, b in run.membership('m%d' % mi) if b is None]
        if inq and not ins:
            out.append('recursive mutex %d is FREE at quiescence but T%s sleep%s in its wait queue (hand-off lost); final state %s' % (mi, ','.join(map(str, inq)), 's' if len(inq) == 1 else '', fin))
        for (t, pc) in run.blocked:
            o = run.ops.get((t, pc))
            if o and o['r'] is None and o['name'] == 'rlock' and o['args'][0] == mi and not ins and t not in inq:
                out.append('recursive mutex %d is free at quiescence but T%d is still blocked in lock()' % (mi, t))
    return out


def sem_oracle(run, si):
    """C02 on semaphore si: token ledger, errno, no waiter asleep at quiescence while the count covers a (uniform) demand"""
    out = []
    c0 = int(run.decls[si][1]) if len(run.decls[si]) > 1 else 0
    started = c0; consumed = 0
    for i, e in enumerate(run.events):
        if e[0] not in ('S', 'R'): continue
        o = run.ops[(e[1], e[2])]
        if o['name'] == 'sem_signal' and o['args'][0] == si and e[0] == 'S':
            started += o['args'][1]
        if o['name'] == 'sem_wait' and o['args'][0] == si and e[0] == 'R':
            if o['ret'] == 0:
                consumed += o['args'][1]
                if consumed > started:
                    out.append('semaphore %d: waits have consumed %d tokens but only %d were ever provided (ledger)' % (si, consumed, started))
            m = errno_ok(run, o, o['args'][2])
            if m: out.append(m)
    waits = [o for o in run.ops.values() if o['name'] == 'sem_wait' and o['args'][0] == si]
    allwaits = [tuple(op) for v, ops in run.prog for op in ops if op[0] == 'sem_wait' and int(op[1]) == si]
    demands = set(int(op[2]) for op in allwaits)
    if not run.prefix:
        sig_open = [o for o in run.ops.values() if o['name'] == 'sem_signal' and o['args'][0] == si and o['r'] is None]
        m = re.match(r'c=(\d+)', run.finq.get('s%d' % si, ''))
        if m and not sig_open:
            cnt = int(m.group(1))
            if cnt != started - consumed:
                out.append('semaphore %d: final count %d != initial %d + signalled - consumed = %d (ledger)' % (si, cnt, c0, started - consumed))
            head = re.search(r'q=\[(\d+)', run.finq.get('s%d' % si, ''))
            if len(demands) > 1 and getattr(run, 'scenario', None) in NO_BARGING and head:
                for o in waits:
                    if o['r'] is None and o['tid'] == int(head.group(1)) and cnt >= o['args'][1]:
                        out.append('semaphore %d: at quiescence the HEAD waiter T%d is still blocked in wait(%d) although the count is %d (no resume pass after the previous head left); final state %s'
                                   % (si, o['tid'], o['args'][1], cnt, run.finq.get('s%d' % si)))
            if len(demands) == 1:                        # F35 (barging) concerns mixed demands only
                for o in waits:
                    if o['r'] is None and cnt >= o['args'][1]:
                        out.append('semaphore %d: at quiescence T%d is still blocked in wait(%d) although the count is %d (lost wake-up); final state %s'
                                   % (si, o['tid'], o['args'][1], cnt, run.finq.get('s%d' % si)))
    # timed wait fails although a signal completed before its deadline, the ledger covered it and nobody else was consuming
    for Wt in [o for o in waits if o['ret'] == -1 and o['err'] == ETIMEDOUT and o['args'][2] not in (INF, 0)]:
        D = Wt['s_now'] + Wt['args'][2]
        for Sg in run.oplist(lambda o: o['name'] == 'sem_signal' and o['args'][0] == si and o['r'] is not None):
            p = Sg['r']
            if not (Wt['s'] < p < Wt['r']) or Sg['r_vc'] >= D: continue
            busy = [o for o in waits if o is not Wt and o['s'] < Wt['r'] and (o['r'] is None or o['r'] > p)]
            if busy: continue
            have = c0 + sum(o['args'][1] for o in run.ops.values() if o['name'] == 'sem_signal' and o['args'][0] == si and o['r'] is not None and o['r'] <= p) \
                - sum(o['args'][1] for o in waits if o['ret'] == 0 and o['r'] < p)
            if have >= Wt['args'][1]:
                out.append('semaphore %d: wait(%d, %d us) of T%d returned -1/ETIMEDOUT although signal of T%d had completed at virtual time %d < deadline %d with %d tokens available and no other waiter'
                           % (si, Wt['args'][1], Wt['args'][2], Wt['tid'], Sg['tid'], Sg['r_vc'], D, have))
                break
    return out


def cv_oracle(run, ci):
    """C03 on condition variable ci: every notify_one that returns a thread dequeued exactly that thread, returns null only if the
    queue was empty at some instant of the call; notify_all leaves nobody who was queued during the whole call; a waiter returns
    0 iff it was dequeued by a notification; errno"""
    out = []
    q = 'c%d' % ci
    mem = run.membership(q)
    unl = [(i, e[2]) for i, e in enumerate(run.events) if e[0] == 'Q-' and e[1] == q]
    claimed = {}
    n1 = run.oplist(lambda o: o['name'] == 'notify_one' and o['args'][0] == ci and o['r'] is not None)
    nall = run.oplist(lambda o: o['name'] == 'notify_all' and o['args'][0] == ci and o['r'] is not None)
    for n in sorted(n1, key=lambda o: o['r']):
        if n['ret'] == 0:
            for t, a, b in mem:
                if a < n['s'] and (b is None or b > n['r']):
                    out.append('notify_one of T%d (op %d) returned nullptr although T%d was linked in the wait queue during the whole call (queued at event %d, %s): notification lost'
                               % (n['tid'], n['pc'], t, a, 'never dequeued' if b is None else 'dequeued at event %d' % b))
                    break
        else:
            t = n['ret'] - 1
            cand = [i for i, tt in unl if tt == t and n['s'] < i < n['r'] and i not in claimed]
            if not cand:
                out.append('notify_one of T%d (op %d) returned thread T%d but T%d was not dequeued from the wait queue during the call (or that dequeue belongs to another notify_one)' % (n['tid'], n['pc'], t, t))
            else:
                claimed[cand[0]] = n
    for n in nall:
        for t, a, b in mem:
            if a < n['s'] and (b is None or b > n['r']):
                out.append('notify_all of T%d (op %d, returned %d) left T%d in the wait queue although it was queued during the whole call' % (n['tid'], n['pc'], n['ret'], t))
                break
        inwin = [i for i, tt in unl if n['s'] < i < n['r']]
        if n['ret'] > len(inwin):
            out.append('notify_all of T%d returned %d but only %d threads were dequeued during the call' % (n['tid'], n['ret'], len(inwin)))
    # waiters
    for o in run.oplist(lambda o: o['name'] == 'cv_wait' and o['args'][0] == ci and run.executed(o)):
        m = errno_ok(run, o, o['args'][2])
        if m: out.append(m)
        mine = [(a, b) for t, a, b in mem if t == o['tid'] and a > o['s'] and (o['r'] is None or a < o['r'])]
        # atomic release-and-wait: whoever acquires the waiter's mutex after the wait began finds the waiter already queued
        mi = o['args'][1]
        for x in run.ops.values():
            if x['tid'] != o['tid'] and x['r'] is not None and x['r'] > o['s'] and (o['r'] is None or x['r'] < o['r']) and \
               ((x['name'] in ('lock', 'try_lock') and x['args'][0] == mi and x['ret'] == 0) or (x['name'] == 'cv_wait' and x['args'][1] == mi and run.executed(x))):
                if not mine or mine[0][0] > x['r']:
                    out.append('cv_wait of T%d (op %d) had released its mutex %d (T%d acquired it, op %d) BEFORE it was linked into the wait queue: release-and-wait is not atomic'
                               % (o['tid'], o['pc'], mi, x['tid'], x['pc']))
                    break
        if o['r'] is None:
            continue
        if not mine or mine[0][1] is None or mine[0][1] > o['r']:
            out.append('cv_wait of T%d (op %d) returned %d/errno %d without having been linked in and dequeued from the wait queue' % (o['tid'], o['pc'], o['ret'], o['err']))
            continue
        a, b = mine[0]
        timed_out = any(e[0] == 'X' and e[1] == o['tid'] for e in run.events[a:b])
        by_notify = b in claimed or any(n['s'] < b < n['r'] for n in nall)
        intr = [i for i in run.interrupts_on(o['tid']) if i['s'] < o['r']]
        if o['ret'] == 0 and not by_notify:
            out.append('cv_wait of T%d (op %d) returned 0 but no notify_one/notify_all dequeued it (spurious wake-up)' % (o['tid'], o['pc']))
        if o['ret'] != 0 and b in claimed and not timed_out and not intr:
            out.append('cv_wait of T%d (op %d) was dequeued by notify_one of T%d but returned %d/errno %d' % (o['tid'], o['pc'], claimed[b]['tid'], o['ret'], o['err']))
    return out


def rw_oracle(run, li, cov):
    """C06 on rwlock li: holder accounting (writer alone), state word, errno, admission at quiescence (outside F38's class)"""
    out = []
    holders = {}
    for i, e in enumerate(run.events):
        if e[0] not in ('S', 'R'): continue
        o = run.ops[(e[1], e[2])]
        if not run.executed(o) or o['args'][0] != li: continue
        if o['name'] == 'rw_unlock' and e[0] == 'S':
            holders.pop(o['tid'], None)
        if o['name'] == 'rw_lock' and e[0] == 'R':
            m = errno_ok(run, o, o['args'][2])
            if m: out.append(m)
            if o['ret'] == 0:
                mode = o['args'][1]
                if mode == 1 and holders:
                    out.append('rwlock %d: T%d got the WRITE lock while %s hold it' % (li, o['tid'], ','.join('T%d(%s)' % (t, 'W' if m else 'R') for t, m in holders.items())))
                if mode == 0 and any(holders.values()):
                    out.append('rwlock %d: T%d got a READ lock while a writer holds it' % (li, o['tid']))
                if mode == 1 and o['aux'] != -1:
                    out.append('rwlock %d: state is %d right after T%d got the write lock (expected -1)' % (li, o['aux'], o['tid']))
                if mode == 0 and o['aux'] < 1:
                    out.append('rwlock %d: state is %d right after T%d got a read lock (expected >= 1)' % (li, o['aux'], o['tid']))
                holders[o['tid']] = mode
    if not run.prefix:
        fin = run.finq.get('r%d' % li, '')
        m = re.match(r'st=(-?\d+),cq=\[([^\]]*)\],mo=([^,]*),mq=\[([^\]]*)\]', fin)
        blocked = [o for o in run.ops.values() if o['name'] == 'rw_lock' and o['args'][0] == li and o['r'] is None]
        left = [o for o in run.ops.values() if o['name'] == 'rw_lock' and o['args'][0] == li and o['ret'] == -1]
        if m:
            st, cq, mo, mq = int(m.group(1)), m.group(2).split(), m.group(3), m.group(4).split()
            exp = -1 if any(holders.values()) else len(holders)
            if st != exp:
                out.append('rwlock %d: final state %d but the log has %d reader(s) / %d writer(s) holding it' % (li, st, sum(1 for x in holders.values() if not x), sum(1 for x in holders.values() if x)))
            if mo != '-' or mq:
                out.append('rwlock %d: its internal mutex is still owned (%s) / has waiters %s at quiescence' % (li, mo, mq))
            if blocked:
                if left:
                    cov['rw_f38_guarded'] = cov.get('rw_f38_guarded', 0) + 1          # a waiter left the queue: class of known finding F38
                elif not holders:
                    out.append('rwlock %d is FREE at quiescence but T%s still wait%s for it (admission); final state %s' % (li, ','.join(str(o['tid']) for o in blocked), 's' if len(blocked) == 1 else '', fin))
                elif not any(holders.values()) and cq and cq[0].isdigit():
                    h = [o for o in blocked if o['tid'] == int(cq[0])]
                    if h and h[0]['args'][1] == 0:
                        out.append('rwlock %d is held by readers only at quiescence but the READER T%s at the head of the queue is still asleep; final state %s' % (li, cq[0], fin))
    return out


EPERM = 1


def sleep_oracle(run):
    """C04 across vCPUs, plain thread_usleep only.  A thread is MARKED from the moment thread_shutdown(T, true) has returned, or T's sleep
    was interrupted by that very call (the mark precedes the wake-up): every sleep T issues afterwards returns -1 within
    min(t, 10 ms).  A sleeper woken by interrupt / shutdown returns -1 with exactly that errno, once; an undisturbed sleep returns 0
    at/after its deadline and — if no `tick` ran meanwhile — exactly at the first clock value >= its deadline; nobody sleeps past a
    finite bound at quiescence.  Interrupts that met a non-sleeping thread (F6/F7) only widen the set of accepted errnos."""
    out = []
    def inflight(tid, idx):
        for o in run.ops.values():
            if o['tid'] == tid and o['s'] < idx and (o['r'] is None or o['r'] > idx): return o
        return None
    hits = {}                          # target tid -> list of (event index, causing op or None)
    for i, e in enumerate(run.events):
        if e[0] == 'N': hits.setdefault(e[1], []).append((i, inflight(e[2], i) if e[2] >= 0 else None))
    ticks = [o['s'] for o in run.ops.values() if o['name'] == 'tick']
    for t in range(len(run.prog)):
        sleeps = run.oplist(lambda o: o['tid'] == t and o['name'] == 'usleep' and o['args'][0] != 0)
        if not sleeps: continue
        mark = None; unmark = None
        for o in run.ops.values():
            if o['name'] == 'shutdown' and o['args'][0] == t and run.executed(o):
                if (o['args'] + [1, 1])[1]:
                    c = [o['r']] if o['r'] is not None else []
                    c += [i for i, cause in hits.get(t, []) if cause is o]
                    if c: mark = min(c) if mark is None else min(mark, min(c))
                else:
                    unmark = o['s'] if unmark is None else min(unmark, o['s'])
        ready_intr = [o for o in run.ops.values() if o['name'] == 'interrupt' and o['args'][0] == t and not any(c is o for _, c in hits.get(t, []))]
        for u in sleeps:
            tm = u['args'][0]
            marked = mark is not None and u['s'] > mark and (unmark is None or unmark > (u['r'] if u['r'] is not None else run.n))
            lim = tm if not marked else (10000 if tm == INF else min(tm, 10000))
            end = u['r'] if u['r'] is not None else run.n
            h = [(i, c) for i, c in hits.get(t, []) if u['s'] < i < end]
            who = 'T%d op %d (usleep %d%s)' % (t, u['pc'], tm, ', issued after thread_shutdown marked the thread' if marked else '')
            if u['r'] is None:
                if not run.prefix:
                    if h: out.append('%s was woken by T%d but never returned' % (who, run.events[h[0][0]][2]))
                    elif lim != INF: out.append('%s is still asleep at quiescence although it must end within %d us%s' % (who, lim, ' (10 ms bound of a thread that is shutting down)' if marked else ''))
                continue
            if len(h) > 1:
                out.append('%s was interrupted %d times during ONE sleep' % (who, len(h)))
            resumed = bool(h) and h[0][1] is not None and h[0][1]['name'] == 'interrupt' and (h[0][1]['args'] + [4, 4])[1] == 0     # thread_resume
            if u['ret'] == 0:
                if h and not resumed: out.append('%s returned 0 although it was interrupted while sleeping' % who)
                if marked: out.append('%s returned 0 (slept %d us): a thread that is shutting down must get -1 within 10 ms' % (who, u['r_now'] - u['s_now']))
                elif not resumed and tm != INF and u['r_now'] < u['s_now'] + tm: out.append('%s returned 0 at now=%d, before its deadline %d' % (who, u['r_now'], u['s_now'] + tm))
                if tm == INF and not resumed: out.append('%s returned 0' % who)
            elif u['ret'] == -1:
                if h and h[0][1] is not None:
                    c = h[0][1]
                    want = EPERM if c['name'] == 'shutdown' else (c['args'] + [4, 4])[1] if c['name'] == 'interrupt' else None
                    if resumed and marked: want = EPERM
                    if want is not None and want != 0 and u['err'] != want:
                        out.append('%s was woken by %s of T%d (errno %d) but returned -1/errno %d' % (who, c['name'], c['tid'], want, u['err']))
                    if want == 0:
                        out.append('%s was resumed (interrupt with errno 0) but returned -1/errno %d' % (who, u['err']))
                elif not h:
                    ok = (u['err'] == EPERM and any(o['name'] == 'shutdown' and o['args'][0] == t and o['s'] < u['r'] for o in run.ops.values())) or \
                         any(o['s'] < u['r'] and (o['args'] + [4, 4])[1] == u['err'] for o in ready_intr)
                    if not ok: out.append('%s returned -1/errno %d which nobody delivered' % (who, u['err']))
            else:
                out.append('%s returned %d' % (who, u['ret']))
            # upper bound in virtual time (only when no tick moved the clock meanwhile: then the clock only jumps to deadlines)
            if lim != INF and not h and not any(u['s'] < x < u['r'] for x in ticks):
                bound = max(u['s_vc'], u['s_now'] + lim)
                if u['r_vc'] > bound:
                    out.append('%s returned at virtual time %d, later than the first round after its deadline %d' % (who, u['r_vc'], bound))
    return out


def judge(run, cov, scenario=None):
    """all oracles that apply to the objects of the case; returns {property: [messages]}"""
    res = {}
    if not run.ok:
        return res
    run.scenario = scenario[0] if scenario else None
    if run.prefix in ('DEADLOCK', 'STEP-LIMIT') or run.prefix.startswith('CRASH(sig'):
        res['*'] = ['the run ended with %s (every vCPU waits for a spinlock / step bound / fatal signal)' % run.prefix]
    cvm = set()
    for v, ops in run.prog:
        for op in ops:
            if op[0] == 'cv_wait': cvm.add(int(op[2]))
    for i, d in enumerate(run.decls):
        if d[0] == 'mutex':
            m = mutex_oracle(run, i)
            if m: res.setdefault('C03' if i in cvm else 'C01', []).extend(m)
        elif d[0] == 'rmutex':
            m = rmutex_oracle(run, i)
            if m: res.setdefault('C01', []).extend(m)
        elif d[0] == 'sem':
            m = sem_oracle(run, i)
            if m: res.setdefault('C02', []).extend(m)
        elif d[0] == 'cv':
            m = cv_oracle(run, i)
            if m: res.setdefault('C03', []).extend(m)
        elif d[0] == 'rwlock':
            m = rw_oracle(run, i, cov)
            if m: res.setdefault('C06', []).extend(m)
    if any(op[0] in ('usleep', 'shutdown') for v, ops in run.prog for op in ops):
        m = sleep_oracle(run)
        if m: res.setdefault('C04', []).extend(m)
    if scenario and scenario[0] in MUST_COMPLETE and not run.prefix and run.blocked:
        res.setdefault(scenario[1], []).append('scenario %s completes under every schedule, but at quiescence %s still blocked (%s); final state: %s' % (
            scenario[0], ', '.join('T%d in op %d (%s)' % (t, pc, ' '.join(run.prog[t][1][pc])) for t, pc in run.blocked), 'lost wake-up / hand-off', run.f.get('fin', '').strip()))
    return res


# ------------------------------------------------------------------ driver
def build():
    repo = vlib.REPO
    if 'LS_LOCK_WANT' not in open(os.path.join(repo, 'thread', 'thread.h')).read():
        return None, 'the tree %s lacks the guarded hook LS_LOCK_WANT in spinlock::lock() (%s): without it a vCPU spinning on a lock held by a descheduled vCPU cannot be descheduled' % (repo, HOOK_PATCH)
    # one executable per calling process: several checks (C01, C02, C03, C06) may run this engine at the same time
    return vlib.cxx_build('E4S', ['harness/E4S/e4s.cpp'], extra='-I%s -I%s' % (repo, os.path.join(vlib.VERIF, 'harness', 'E4S')), libphoton=True,
                          out=os.path.join(vlib.BUILD, 'bin', 'E4S_impl_%d' % os.getpid()))


def _sched_strings(sc, n, seed, k):
    """n seeded schedule specs for a scenario: PCT with 1-3 change points and sticky random walks, over its prefixes"""
    pres = sc[6] or ['']
    out = []
    for i in range(n):
        pre = pres[i % len(pres)]
        s = seed * 1000003 + i
        j = i // len(pres)
        if j % 5 < 3:
            spec = 'mode=pct seed=%d d=%d k=%d' % (s, 2 + j % 3, max(8, k))
        else:
            spec = 'mode=rand seed=%d q=%d' % (s, (8, 20, 40)[j % 3])
        if pre: spec += ' pre=' + pre
        out.append(spec)
    return out


def run(props, tier='quick', seed=1, budget_s=None, scenarios=None, exe=None):
    """returns (violations, coverage) for the properties in `props` (subset of {'C01','C02','C03','C06'})"""
    props = set(props)
    t0 = time.time()
    own = not exe
    exe, log = (exe, '') if exe else build()
    if not exe:
        return [dict(kind='build', message='E4S harness does not build against the tree: ' + log[-1500:], case=None)], {}
    tmp = os.path.join(vlib.BUILD, 'run', 'E4S_%d' % os.getpid())
    try:
        return _run(props, tier, seed, budget_s, scenarios, exe, tmp, t0)
    finally:
        import shutil
        shutil.rmtree(tmp, ignore_errors=True)
        if own:
            try: os.remove(exe)
            except OSError: pass


def _run(props, tier, seed, budget_s, scenarios, exe, tmp, t0):
    scs = [s for s in SCENARIOS if s[1] in props and (scenarios is None or s[0] in scenarios)]
    if not scs:
        return [], {}
    env = dict(os.environ, E4S_TWICE_PCT='5')
    cov = {}
    budget = budget_s or (20 if tier == 'quick' else 240) * max(1, len(props))      # search time; the build adds ~10-15 s
    # stage 1: hand-written schedules + calibration (number of decisions per scenario, throughput)
    # the minimum work (stage 1 + the first round) is bounded per PROPERTY, not per scenario: on a loaded machine (5-30 runs/s) a
    # property with many scenarios (C01: 16) must not overrun its budget
    dense = len(scs) > 12 * max(1, len(props))
    floor0 = max(4, 144 * max(1, len(props)) // len(scs)) if dense else 16
    cases1, meta1 = [], []
    for sc in scs:
        for pre in sc[5]:
            cases1.append(case_line(sc, 'mode=rr pre=' + pre)); meta1.append((sc, 'directed'))
        for j, spec in enumerate(_sched_strings(sc, 2 if dense else 4, seed * 7 + 1, 60)):
            cases1.append(case_line(sc, spec)); meta1.append((sc, 'calib'))
    ta = time.time()
    outs1 = vlib.run_cases(exe, cases1, tmp, 's1', timeout=600, env=env)
    dt = max(0.05, time.time() - ta)
    runs = [(m, Run(c, o)) for m, c, o in zip(meta1, cases1, outs1)]
    kdec = {}
    for (sc, kind), r in runs:
        if r.ok: kdec[sc[0]] = max(kdec.get(sc[0], 8), len(r.sched))
    # stage 2: seeded schedules in rounds (every scenario in every round) until the time budget is used up: the number of runs adapts
    # to the machine (process start-up dominates a run: ~10 ms idle, 10x that on a loaded machine), the budget is kept
    rate = len(cases1) / dt
    cap = (4000 if tier == 'quick' else 40000) * len(scs)
    done2 = 0; rnd = 0
    def strings(sc, lo, n):
        return _sched_strings(sc, lo + n, seed, kdec.get(sc[0], 60))[lo:]
    while done2 < cap:
        remaining = budget - (time.time() - t0)
        if rnd > 0 and remaining < 3: break
        per = int(max(floor0 // 2 if rnd else floor0, min(cap // len(scs) - done2 // len(scs), rate * max(remaining, 3.0) * (0.45 if rnd == 0 else 0.7) / len(scs))))
        cases2, meta2 = [], []
        for sc in scs:
            for spec in strings(sc, done2 // len(scs), per):
                cases2.append(case_line(sc, spec)); meta2.append((sc, 'search'))
        ta = time.time()
        outs2 = vlib.run_cases(exe, cases2, tmp, 's2_%d' % rnd, timeout=max(600, int(budget * 4)), env=env)
        rate = len(cases2) / max(0.05, time.time() - ta)
        runs += [(m, Run(c, o)) for m, c, o in zip(meta2, cases2, outs2)]
        done2 += per * len(scs); rnd += 1

    # judge
    fails = {}          # (prop, scenario) -> list of (run, messages)
    nbad = 0; ninfra = 0; nint = 0; per_sc = {}; distinct = set()
    for (sc, kind), r in runs:
        st = per_sc.setdefault(sc[0], dict(runs=0, distinct_schedules=set(), blocked_at_end=0, with_sleeper=0, with_timeout=0))
        if not r.ok or r.prefix in ('HANG', 'NONDET') or r.prefix.startswith('CRASH(') and not r.prefix.startswith('CRASH(sig') or r.prefix.startswith('NOOUTPUT'):
            ninfra += 1
            if r.prefix in ('HANG', 'HANG(cpu)', 'NONDET') or r.prefix.startswith('CRASH'):
                fails.setdefault(('*', sc[0]), []).append((r, ['harness result %s' % (r.prefix or r.out[:60])]))
            continue
        st['runs'] += 1; st['distinct_schedules'].add(r.sched)
        if r.blocked: st['blocked_at_end'] += 1
        if any(e[0] == 'Q+' for e in r.events): st['with_sleeper'] += 1
        if any(e[0] == 'X' for e in r.events): st['with_timeout'] += 1
        if 'INFEASIBLE' in r.note: nint += 1
        j = judge(r, cov, sc)
        for p, msgs in j.items():
            if p == '*' or p in props or True:
                fails.setdefault((p, sc[0]), []).append((r, msgs))
    violations = []
    unrepro = 0
    excl = lambda msgs: not any(w in msgs[0] for w in ('two threads inside', 'two owners'))      # report a mutual-exclusion witness first
    for (p, scn), lst in sorted(fails.items(), key=lambda kv: (kv[0][0] == '*', kv[0][0], min(excl(m) for _, m in kv[1]), kv[0][1])):
        if len([v for v in violations if v['_p'] == p]) >= 2:
            continue
        lst.sort(key=lambda rm: (excl(rm[1]), len(rm[0].sched) if rm[0].ok else 10 ** 6))
        done = False
        for r, msgs in lst[:4]:
            # replay the exact schedule (twice, with the step trace) and judge again: report only what reproduces
            if r.ok:
                base = r.case.split('| @')[0]
                rc = base + '| @ mode=rr replay=%s' % (r.sched or '-')
            else:
                rc = r.case
            o = vlib.run_cases(exe, [rc, rc], tmp, 'rp', nshards=1, timeout=600, env=dict(os.environ, E4S_TWICE_PCT='0', E4S_TRACE='1'))
            r2, r3 = Run(rc, o[0]), Run(rc, o[1])
            if not (r2.ok and r3.ok) :
                same = (o[0] or '')[:40] == (o[1] or '')[:40] and (r2.prefix.startswith('CRASH(sig') or r2.prefix == 'HANG(cpu)') and p == '*'
                if same:
                    violations.append(dict(_p=p, kind='oracle', case='E4S %s: %s' % (scn, rc), message='E4S (controlled multi-vCPU schedule): the run %s under this schedule, twice' % r2.prefix,
                                           model_out='every schedule of the scenario runs to quiescence', impl_out=(o[0] or '')[:3000]))
                    done = True; break
                unrepro += 1; continue
            sc_ = [s_ for s_ in SCENARIOS if s_[0] == scn][0]
            j2, j3 = judge(r2, {}, sc_), judge(r3, {}, sc_)
            if r2.f.get('ev') != r3.f.get('ev') or p not in j2 or p not in j3:
                unrepro += 1; continue
            msg = j2[p][0]
            violations.append(dict(_p=p, kind='oracle', case='E4S %s: %s' % (scn, rc),
                                   message='E4S (controlled multi-vCPU schedule, %s): %s' % (p if p != '*' else 'all', msg) + (' [+%d more]' % (len(j2[p]) - 1) if len(j2[p]) > 1 else ''),
                                   model_out='property oracle on the event log: ' + {'C01': 'one owner; lock() == 0 iff owner; nobody asleep on a free mutex', 'C02': 'token ledger; no waiter asleep while the count covers its demand',
                                             'C03': 'notify_one wakes exactly one queued waiter, null only on an empty queue; notify_all wakes all; wait returns with the mutex', 'C06': 'writer alone / readers share; admission at quiescence',
                                             'C04': 'sleep returns 0 at its deadline or -1 with the interrupter errno once; a thread marked by thread_shutdown gets -1 within 10 ms from every later thread_usleep'}.get(p, 'run completes'),
                                   impl_out=('ev=%s | blocked=%s | fin=%s | sched=%s | trace=%s' % (r2.f.get('ev'), r2.f.get('blocked'), r2.f.get('fin'), r2.f.get('sched'), r2.f.get('trace', '')))[:6000]))
            done = True
            break
    out = []
    for v in violations:
        p = v.pop('_p')
        if p == '*' or p in props:
            v['property_hint'] = p
            out.append(v)
    cov.update(e4s_after_release_points='LS_LOCK_FREE' in open(os.path.join(vlib.REPO, 'thread', 'thread.h')).read(), e4s_runs=sum(s['runs'] for s in per_sc.values()), e4s_infrastructure_failures=ninfra, e4s_unreproduced=unrepro, e4s_infeasible_prefixes=nint,
               e4s_scenarios={k: dict(runs=v['runs'], distinct_schedules=len(v['distinct_schedules']), blocked_at_end=v['blocked_at_end'], runs_in_which_a_thread_slept_in_a_wait_queue=v['with_sleeper'], runs_with_an_expired_sleep=v['with_timeout'], decisions=kdec.get(k)) for k, v in per_sc.items()},
               e4s_oracle_failures={'%s/%s' % k: len(v) for k, v in fails.items()}, e4s_wall_s=round(time.time() - t0, 1))
    return out, cov


if __name__ == '__main__':
    import sys, json
    props = sys.argv[1].split(',') if len(sys.argv) > 1 else ['C01', 'C02', 'C03', 'C06']
    tier = sys.argv[2] if len(sys.argv) > 2 else 'quick'
    seed = int(sys.argv[3]) if len(sys.argv) > 3 else 1
    v, c = run(props, tier, seed)
    print(json.dumps(c, indent=1))
    for x in v:
        print('VIOLATION', x['message']); print('  case:', x['case']); print('  impl:', x['impl_out'][:1500])
    print('violations: %d' % len(v))
