// C11 harness — the REAL rpc stub (rpc/rpc.cpp StubImpl + rpc/out-of-order-execution.cpp OooEngine)
// driven by k caller photon threads on ONE vCPU over a scripted in-memory IStream, under the E2
// virtual clock (hooks H-clock / H-idle of repo_patches/E2-hooks.diff: photon_verif_clock,
// photon_verif_idle).  argv[1] = case file; one output line per case (same format as ocaml/C11_run.ml).
//
// Case line:   K <fix> | <calls> | <wire> | <delivery>
//   fix      : 0/1 — which follower-timeout code the MODEL follows (ignored here: the code is the code)
//   calls    : start,tmo,req,cap ; ...     one caller thread per call (thread i = call i = context i)
//                start = virtual µs after case start at which the thread calls do_call
//                tmo   = rpc timeout in µs (-1 = none), req = request payload bytes,
//                cap   = response buffer supplied by the caller (-1: none, the stub allocates)
//              an optional 5th field (implementation-only replay of finding F34, not modelled): this call's
//              writev blocks until that virtual time (event  w<i>:<until>@t)
//   wire     : the bytes the peer sends, as items  H,<tag>,<size> (a valid 40-byte rpc::Header) |
//              B,<n>,<seed> (n body bytes: (seed+j) mod 251) | X,<hex> (raw bytes)
//   delivery : t,n ; t,n ; ... ; t,E     at virtual time t (µs after case start) the next n wire
//              bytes arrive; E = end of stream (read returns what it has).  Bytes not covered never arrive.
// Output line: space-separated events in order of occurrence, then  Q=<queue count> blocked=<threads> end=<now>
//   W<i>:<tag>:<size>:<ret>@t     request written by thread i (mock writev)
//   H<r>:<tmo>:<ret>@t            header read by reader r returned (tmo = stream timeout in force)
//   C<r>:<owner>:<dead>:<n>@t     n body bytes copied into a response buffer of call <owner>; dead=1 if
//                                 that call had ALREADY RETURNED (the property violation)
//   B<r>:<owner>:<dead>:<tmo>:<ret>@t   body read (readv) returned
//   X<r>@t                        stream shutdown by r
//   E<i>:<ret>/<errno>:<hex payload>@t   do_call of thread i returned
// Every case runs in a forked child, twice; the two lines must be identical (else NONDET).
#include <cstdio>
#include <cstdlib>
#include <cstring>
#include <cinttypes>
#include <cerrno>
#include <cstdarg>
#include <string>
#include <vector>
#include <fstream>
#include <sstream>
#include <unistd.h>
#include <poll.h>
#include <signal.h>
#include <sys/wait.h>
#include <sys/uio.h>
#include <execinfo.h>
#include <sys/resource.h>
#define protected public
#define private public
#include <photon/thread/thread.h>
#include <photon/common/alog.h>
#include <photon/common/iovector.h>
#include <photon/common/stream.h>
#include <photon/common/timeout.h>
#include <photon/rpc/rpc.h>
#undef protected
#undef private

extern "C" {
extern uint64_t (*photon_verif_clock)() __attribute__((weak));
extern int (*photon_verif_idle)(uint64_t usec, uint64_t next_wakeup) __attribute__((weak));
}

namespace {

const uint64_t VSTART = 1000;
struct CallSpec { uint64_t start, tmo; uint64_t req; int64_t cap; uint64_t wblock; };
struct Delivery { uint64_t t; bool eof; size_t n; };
struct Range { const char* base; size_t len; int owner; };

uint64_t g_vclock = VSTART;
int g_outfd = 1;
uint64_t g_idle_rounds = 0;
std::vector<CallSpec> g_calls;
std::vector<uint8_t> g_wire;
std::vector<Delivery> g_deliv;        // remaining deliveries (front = next)
size_t g_wire_pos = 0;                // next wire byte to hand out
size_t g_front_left = 0;              // bytes left in g_deliv.front() (valid when !eof)
size_t g_di = 0;                      // index of the front delivery
std::vector<photon::thread*> g_th;
std::vector<char> g_returned, g_started;
std::vector<Range> g_ranges;
std::string g_trace;
photon::rpc::Stub* g_stub = nullptr;

int self_index() {
    for (size_t i = 0; i < g_th.size(); i++) if (g_th[i] == photon::CURRENT) return (int)i;
    return -1;
}
int owner_of(const void* p) {
    for (auto& r : g_ranges) if ((const char*)p >= r.base && (const char*)p < r.base + (r.len ? r.len : 1)) return r.owner;
    return -1;
}
void ev(const char* fmt, ...) {
    char buf[512]; va_list ap; va_start(ap, fmt); vsnprintf(buf, sizeof buf, fmt, ap); va_end(ap);
    if (!g_trace.empty()) g_trace += ' ';
    g_trace += buf;
    if (g_trace.size() > (1u << 20)) { g_trace += " TRACE-LIMIT"; const char* m = "TRACE-LIMIT\n"; (void)!write(g_outfd, m, strlen(m)); _exit(0); }
}

void emit_and_exit(const char* prefix) {
    std::string s = prefix; s += g_trace.empty() ? "-" : g_trace;
    char buf[256];
    snprintf(buf, sizeof buf, " Q=%d blocked=", g_stub ? g_stub->get_queue_count() : -1); s += buf;
    bool first = true;
    for (size_t i = 0; i < g_calls.size(); i++) if (!g_returned[i]) { snprintf(buf, sizeof buf, "%s%zu", first ? "" : ",", i); s += buf; first = false; }
    if (first) s += "-";
    snprintf(buf, sizeof buf, " end=%" PRIu64 "\n", (uint64_t)photon::now); s += buf;
    size_t off = 0;
    while (off < s.size()) { ssize_t n = write(g_outfd, s.data() + off, s.size() - off); if (n <= 0) break; off += n; }
    _exit(0);
}
uint64_t clock_cb() { return g_vclock; }
int idle_cb(uint64_t usec, uint64_t next_wakeup) {
    if (next_wakeup == (uint64_t)-1) emit_and_exit("");
    if (++g_idle_rounds > 100000) emit_and_exit("IDLE-LIMIT ");
    g_vclock += usec;
    return 1;
}
inline uint64_t sat_add64(uint64_t a, uint64_t b) { uint64_t r = a + b; return r < a ? (uint64_t)-1 : r; }

// ---- the scripted stream -------------------------------------------------------------------
class ScriptStream : public IStream {
public:
    uint64_t m_timeout = -1;
    bool shut = false;
    int close() override { return 0; }
    int shutdown(ShutdownHow) override { shut = true; ev("X%d@%" PRIu64, self_index(), (uint64_t)photon::now); return 0; }
    uint64_t timeout() const override { return m_timeout; }
    void timeout(uint64_t tm) override { m_timeout = tm; }

    // core: fill the iovec array; kind 'h' (header) / 'b' (body) decides what is logged
    ssize_t do_read(const struct iovec* iov, int iovcnt, bool body) {
        size_t total = 0; for (int i = 0; i < iovcnt; i++) total += iov[i].iov_len;
        if (total == 0) return 0;
        if (shut) return 0;
        uint64_t dl = sat_add64(photon::now, m_timeout);
        size_t got = 0; int ci = 0; size_t coff = 0;       // cursor in the iovec array
        int r = self_index();
        while (true) {
            size_t chunk = 0; int chunk_owner = -2; bool chunk_dead = false;
            while (got < total && g_di < g_deliv.size()) {
                Delivery& d = g_deliv[g_di];
                if (d.eof || d.t > photon::now) break;
                size_t k = g_front_left < total - got ? g_front_left : total - got;
                size_t left = k;
                while (left) {
                    while ((size_t)iov[ci].iov_len == coff) { ci++; coff = 0; }
                    size_t m = iov[ci].iov_len - coff; if (m > left) m = left;
                    char* dst = (char*)iov[ci].iov_base + coff;
                    if (body) {
                        int o = owner_of(dst);
                        if (chunk_owner == -2) chunk_owner = o; else if (chunk_owner != o) chunk_owner = -3;
                        if (o >= 0 && g_returned[o]) chunk_dead = true;
                    }
                    memcpy(dst, &g_wire[g_wire_pos], m);
                    g_wire_pos += m; coff += m; left -= m;
                }
                got += k; chunk += k; g_front_left -= k;
                if (g_front_left == 0) { g_di++; if (g_di < g_deliv.size() && !g_deliv[g_di].eof) g_front_left = g_deliv[g_di].n; }
            }
            if (body && chunk) ev("C%d:%d:%d:%zu@%" PRIu64, r, chunk_owner, (int)chunk_dead, chunk, (uint64_t)photon::now);
            if (got == total) return (ssize_t)got;
            bool have = g_di < g_deliv.size();
            if (have && g_deliv[g_di].eof && g_deliv[g_di].t <= photon::now) return (ssize_t)got;       // EOF
            if (dl <= photon::now) { errno = ETIMEDOUT; return -1; }
            uint64_t wake = dl;
            if (have && g_deliv[g_di].t < wake) wake = g_deliv[g_di].t;
            photon::thread_usleep(wake == (uint64_t)-1 ? (uint64_t)-1 : wake - photon::now);
        }
    }
    ssize_t read(void* buf, size_t count) override {
        struct iovec v{buf, count};
        uint64_t tm = m_timeout;
        ssize_t ret = do_read(&v, 1, false);
        ev("H%d:%" PRIu64 ":%zd@%" PRIu64, self_index(), (uint64_t)tm, ret, (uint64_t)photon::now);
        return ret;
    }
    ssize_t readv(const struct iovec* iov, int iovcnt) override {
        uint64_t tm = m_timeout;
        size_t total = 0; for (int i = 0; i < iovcnt; i++) total += iov[i].iov_len;
        int o = total > 0 ? owner_of(iov[0].iov_base) : -1;     // an empty body names no buffer
        ssize_t ret = do_read(iov, iovcnt, true);
        ev("B%d:%d:%d:%" PRIu64 ":%zd@%" PRIu64, self_index(), o, (int)(o >= 0 && g_returned[o]), (uint64_t)tm, ret, (uint64_t)photon::now);
        return ret;
    }
    ssize_t write(const void* buf, size_t count) override { struct iovec v{(void*)buf, count}; return writev(&v, 1); }
    ssize_t writev(const struct iovec* iov, int iovcnt) override {
        std::vector<uint8_t> all;
        for (int i = 0; i < iovcnt; i++) all.insert(all.end(), (uint8_t*)iov[i].iov_base, (uint8_t*)iov[i].iov_base + iov[i].iov_len);
        uint64_t tag = 0; uint32_t size = 0;
        if (all.size() >= 40) { memcpy(&size, &all[12], 4); memcpy(&tag, &all[24], 8); }
        ssize_t ret = (ssize_t)all.size();
        {   // F34 replay only (not modelled): a writev that blocks until a scripted virtual time
            int me = self_index();
            if (me >= 0 && g_calls[me].wblock) {
                uint64_t until = VSTART + g_calls[me].wblock;
                ev("w%d:%" PRIu64 "@%" PRIu64, me, until, (uint64_t)photon::now);
                while (photon::now < until) photon::thread_usleep(until - photon::now);
            }
        }
        if (shut) { errno = EPIPE; ret = -1; }
        ev("W%d:%" PRIu64 ":%u:%zd@%" PRIu64, self_index(), tag, size, ret, (uint64_t)photon::now);
        return ret;
    }
};

// response-buffer allocator of one call: every block it hands out is registered to that call and
// stays allocated until the case ends (so that a late write is observed, not a crash)
struct OwnerAlloc {
    int owner;
    static int alloc_cb(void* self, IOAlloc::RangeSize size, void** ptr) {
        char* p = (char*)malloc(size.max > 0 ? (size_t)size.max : 1);
        g_ranges.push_back(Range{p, (size_t)size.max, ((OwnerAlloc*)self)->owner});
        *ptr = p;
        return size.max > 0 ? size.max : 1;
    }
    static int dealloc_cb(void*, void*) { return 0; }
};

std::vector<IOVector*> g_req, g_resp;
std::vector<OwnerAlloc*> g_alloc;

std::vector<int> g_ret, g_err;
std::vector<uint64_t> g_rett;
// The frame of run_call holds a 64 KiB pad, so do_call's frame (with the OooArgs context) lies 64 KiB
// below the frame of caller().  Everything the thread does after do_call has returned (logging, parking
// in thread_usleep) is called from caller() and lands in the pad, never on the dead context — a late
// access by the reader (F12) therefore reads the stale-but-intact context and shows up as a C/B event
// with dead=1 instead of an uncontrolled crash.  NOTHING is called between do_call's return and the
// return of run_call (not even the errno accessor: a first call through the PLT runs the dynamic
// linker's lazy resolver, whose xsave area is ~2.5 KiB of stack right on top of the dead context;
// the harness is also linked with -z now).
__attribute__((noinline)) void run_call(int i) {
    volatile char pad[65536];
    pad[0] = 0; pad[sizeof pad - 1] = 0;
    asm volatile("" : : "r"(pad) : "memory");
    photon::Timeout tmo(g_calls[i].tmo);
    int ret = g_stub->do_call(photon::rpc::FunctionID(7, (uint32_t)i), g_req[i], g_resp[i], tmo);
    g_ret[i] = ret; g_rett[i] = photon::now; g_returned[i] = 1;
    asm volatile("" : : "r"(pad) : "memory");
}
void log_return(int i) {
    int ret = g_ret[i];
    std::string hex;
    if (ret >= 0) {
        char b[4];
        for (auto& v : *g_resp[i]) for (size_t j = 0; j < v.iov_len; j++) { snprintf(b, sizeof b, "%02x", ((uint8_t*)v.iov_base)[j]); hex += b; }
    }
    ev("E%d:%d/%d:%s@%" PRIu64, i, ret, ret < 0 ? g_err[i] : 0, hex.empty() ? "-" : hex.c_str(), g_rett[i]);
}
void* caller(void* arg) {
    int i = (int)(intptr_t)arg;
    if (g_calls[i].start > 0) photon::thread_usleep(g_calls[i].start);
    g_started[i] = 1;
    run_call(i);
    g_err[i] = errno;
    log_return(i);
    while (true) photon::thread_usleep(-1);
    return nullptr;
}

std::vector<std::string> split(const std::string& s, char c) {
    std::vector<std::string> out; std::string cur;
    for (char ch : s) { if (ch == c) { out.push_back(cur); cur.clear(); } else cur.push_back(ch); }
    out.push_back(cur); return out;
}
std::string trim(const std::string& s) {
    size_t a = s.find_first_not_of(" \t\r\n"), b = s.find_last_not_of(" \t\r\n");
    return a == std::string::npos ? "" : s.substr(a, b - a + 1);
}
uint64_t pu(const std::string& s) { std::string t = trim(s); if (t == "-1") return (uint64_t)-1; return strtoull(t.c_str(), nullptr, 10); }
void put_le(std::vector<uint8_t>& w, uint64_t v, int n) { for (int i = 0; i < n; i++) w.push_back((uint8_t)(v >> (8 * i))); }

bool parse_case(const std::string& line) {
    auto secs = split(line, '|');
    if (secs.size() != 4) return false;
    std::string h = trim(secs[0]);
    if (h.size() < 3 || h[0] != 'K') return false;
    for (auto& it : split(trim(secs[1]), ';')) {
        auto f = split(trim(it), ','); if (f.size() != 4 && f.size() != 5) return false;
        CallSpec c; c.start = pu(f[0]); c.tmo = pu(f[1]); c.req = pu(f[2]); c.cap = (int64_t)strtoll(trim(f[3]).c_str(), nullptr, 10);
        c.wblock = f.size() == 5 ? pu(f[4]) : 0;      // implementation-only cases (finding F34): this call's writev blocks until that time
        g_calls.push_back(c);
    }
    std::string w = trim(secs[2]);
    if (w != "-") for (auto& it : split(w, ';')) {
        auto f = split(trim(it), ',');
        if (f[0] == "H" && f.size() == 3) {
            put_le(g_wire, photon::rpc::Header::MAGIC, 8); put_le(g_wire, photon::rpc::Header::VERSION, 4);
            put_le(g_wire, pu(f[2]), 4); put_le(g_wire, 0, 8); put_le(g_wire, pu(f[1]), 8); put_le(g_wire, 0, 8);
        } else if (f[0] == "B" && f.size() == 3) {
            uint64_t n = pu(f[1]), seed = pu(f[2]);
            for (uint64_t j = 0; j < n; j++) g_wire.push_back((uint8_t)((seed + j) % 251));
        } else if (f[0] == "X" && f.size() == 2) {
            std::string hx = trim(f[1]);
            for (size_t j = 0; j + 1 < hx.size(); j += 2) g_wire.push_back((uint8_t)strtoul(hx.substr(j, 2).c_str(), nullptr, 16));
        } else return false;
    }
    std::string d = trim(secs[3]);
    size_t covered = 0;
    if (d != "-") for (auto& it : split(d, ';')) {
        auto f = split(trim(it), ','); if (f.size() != 2) return false;
        Delivery dv; dv.t = VSTART + pu(f[0]); dv.eof = trim(f[1]) == "E"; dv.n = dv.eof ? 0 : (size_t)pu(f[1]);
        if (!dv.eof) { if (covered + dv.n > g_wire.size()) dv.n = g_wire.size() - covered; covered += dv.n; }
        g_deliv.push_back(dv);
    }
    return !g_calls.empty() && g_calls.size() <= 64;
}

// diagnosis of a child that does not finish in real time: dump its stack to stderr shortly before the
// parent's limit expires (the parent then re-runs the case, see main)
void on_alarm(int) {
    void* bt[48]; int n = backtrace(bt, 48);
    const char* m = "[C11 harness] child still running at the real-time limit; stack:\n"; (void)!write(2, m, strlen(m));
    backtrace_symbols_fd(bt, n, 2);
    char buf[160]; snprintf(buf, sizeof buf, "[C11 harness] vclock=%" PRIu64 " idle_rounds=%" PRIu64 " trace_len=%zu\n", g_vclock, g_idle_rounds, g_trace.size());
    (void)!write(2, buf, strlen(buf));
}

void child_main(const std::string& line, int outfd) {
    g_outfd = outfd;
    signal(SIGALRM, on_alarm);
    { const char* t = getenv("C11_TIMEOUT_MS"); int ms = t ? atoi(t) : 300000; alarm(ms > 3000 ? (ms - 2000) / 1000 : 1); }
    // a livelock of the code under test burns CPU: stop it by CPU time (independent of the machine's load)
    { struct rlimit rl; rl.rlim_cur = 10; rl.rlim_max = 12; setrlimit(RLIMIT_CPU, &rl); }
    if (!parse_case(line)) { const char* m = "BADCASE\n"; (void)!write(outfd, m, strlen(m)); _exit(0); }
    if (!&photon_verif_clock || !&photon_verif_idle) { const char* m = "NOHOOKS\n"; (void)!write(outfd, m, strlen(m)); _exit(0); }
    log_output_level = ALOG_FATAL + 1;
    g_vclock = VSTART;
    photon_verif_clock = clock_cb;
    photon_verif_idle = idle_cb;
    if (photon::vcpu_init() < 0) { const char* m = "INITFAIL\n"; (void)!write(outfd, m, strlen(m)); _exit(0); }
    if (!g_deliv.empty() && !g_deliv[0].eof) g_front_left = g_deliv[0].n;
    auto stream = new ScriptStream;
    g_stub = photon::rpc::new_rpc_stub(stream, false);
    size_t k = g_calls.size();
    g_th.assign(k, nullptr); g_returned.assign(k, 0); g_started.assign(k, 0); g_ret.assign(k, 0); g_err.assign(k, 0); g_rett.assign(k, 0);
    for (size_t i = 0; i < k; i++) {
        auto a = new OwnerAlloc{(int)i};
        g_alloc.push_back(a);
        IOAlloc ioa; ioa.allocate.bind((void*)a, &OwnerAlloc::alloc_cb); ioa.deallocate.bind((void*)a, &OwnerAlloc::dealloc_cb);
        auto req = new IOVector; auto resp = new IOVector(ioa);
        char* rb = (char*)malloc(g_calls[i].req ? g_calls[i].req : 1);
        for (uint64_t j = 0; j < g_calls[i].req; j++) rb[j] = (char)(0x40 + i);
        if (g_calls[i].req) req->push_back(rb, g_calls[i].req);
        if (g_calls[i].cap >= 0) {
            char* p = (char*)malloc(g_calls[i].cap ? g_calls[i].cap : 1);
            memset(p, 0xEE, g_calls[i].cap ? g_calls[i].cap : 1);
            g_ranges.push_back(Range{p, (size_t)g_calls[i].cap, (int)i});
            resp->push_back(p, g_calls[i].cap);
        }
        g_req.push_back(req); g_resp.push_back(resp);
    }
    for (size_t i = 0; i < k; i++) g_th[i] = photon::thread_create(caller, (void*)(intptr_t)i);
    while (true) photon::thread_usleep(-1);
}

std::string run_once(const std::string& line, int timeout_ms) {
    int fds[2];
    if (pipe(fds) < 0) return "PIPEFAIL";
    fflush(stdout);
    pid_t pid = fork();
    if (pid == 0) { close(fds[0]); child_main(line, fds[1]); _exit(0); }
    close(fds[1]);
    std::string out; char buf[65536]; bool hang = false;
    while (true) {
        struct pollfd p = {fds[0], POLLIN, 0};
        int r = poll(&p, 1, timeout_ms);
        if (r == 0) { hang = true; kill(pid, SIGKILL); break; }
        if (r < 0) { if (errno == EINTR) continue; break; }
        ssize_t n = read(fds[0], buf, sizeof buf);
        if (n <= 0) break;
        out.append(buf, n);
    }
    close(fds[0]);
    int status = 0; waitpid(pid, &status, 0);
    while (!out.empty() && (out.back() == '\n' || out.back() == '\r')) out.pop_back();
    if (hang) return "HANG " + out;
    if (WIFSIGNALED(status) && (WTERMSIG(status) == SIGXCPU || (WTERMSIG(status) == SIGKILL && !hang))) return "HANG(cpu) " + out;
    if (WIFSIGNALED(status)) return "CRASH(sig" + std::to_string(WTERMSIG(status)) + ") " + out;
    if (out.empty()) return "NOOUTPUT(exit" + std::to_string(WEXITSTATUS(status)) + ")";
    return out;
}

}  // namespace

int main(int argc, char** argv) {
    if (argc < 2) { fprintf(stderr, "usage: %s <casefile>\n", argv[0]); return 2; }
    bool twice = !(getenv("C11_ONCE") && getenv("C11_ONCE")[0] == '1');
    int timeout_ms = getenv("C11_TIMEOUT_MS") ? atoi(getenv("C11_TIMEOUT_MS")) : 300000;
    std::ifstream in(argv[1]);
    std::string line;
    while (std::getline(in, line)) {
        if (line.empty() || line[0] == '#') continue;
        if (getenv("C11_NOFORK")) child_main(line, 1);      // debugging aid: run the (single) case in this process
        // A run is a pure function of the case (virtual time).  A livelock of the code under test is stopped by
        // the child's 10 s CPU-time limit (`HANG(cpu)`, load independent, like harness/E2).  A child that
        // produces nothing within the generous WALL-clock limit (300 s) is re-run (up to 3 more times): at load
        // average ~70 children were observed stuck for > 8 s in vcpu_init -> pthread_getattr_np ->
        // fopen("/proc/self/maps") or in thread_create's stack mmap, before the first virtual tick — a stall of
        // the machine, not of the code under test.
        auto run = [&]() { std::string r = run_once(line, timeout_ms);
                           for (int k = 0; k < 3 && r.compare(0, 5, "HANG ") == 0; k++) { fprintf(stderr, "[C11 harness] re-running after %s: %s\n", r.c_str(), line.c_str()); r = run_once(line, timeout_ms); }
                           return r; };
        std::string a = run();
        if (twice) { std::string b = run(); if (a != b) a = "NONDET first{" + a + "} second{" + b + "}"; }
        printf("%s\n", a.c_str());
        fflush(stdout);
    }
    return 0;
}
