// C19 harness: ObjectCache<int, Obj*> of common/expirecontainer.{h,cpp} on ONE vCPU of the real photon
// scheduler.  argv[1] = case file; one output line per case (format of ocaml/C19_run.ml):
//    <now0> <lifespan> <numlimit> | op;op;... | op;... | ...
//    ops:  A k ok y cd b   ref_acquire(k, ctor, cd)  (b=1: through borrow()/~Borrow)
//                          ctor yields y times, then succeeds (ok=1) or returns nullptr
//          R h rc ds       ref_release(handle h, recycle=rc, destroy=ds)
//          X               expire()          Y   thread_yield()          T d   clock += d
// Every case runs in a forked child.  Program thread k is a photon thread created by main in order
// (so the run queue is T0 T1 ...); main then only yields and ends the case when all programs are done
// or nothing ran during one whole round of the run queue (everybody blocked).
// The Timer of the cache is given a cycle of ~1 year, so expiry happens only through the explicit X ops
// and the DEFER(expire()) of the API itself — nothing here depends on real time.
// With -DHAVE_VCLOCK (the E2 hook H-clock is present in the tree) photon::now is the virtual clock
// driven by the T ops; without it the check only generates time-insensitive cases (no T ops, lifespan and
// cooldown either 0-free or practically infinite).
#include <cstdio>
#include <cstdarg>
#include <cstdlib>
#include <cstring>
#include <cinttypes>
#include <string>
#include <vector>
#include <sstream>
#include <fstream>
#include <iostream>
#include <unistd.h>
#include <poll.h>
#include <signal.h>
#include <sys/wait.h>
#include <unordered_set>
#include <algorithm>
#include <tuple>
#include <chrono>
#include <atomic>
#include <memory>
#include <map>
#include <functional>
#define private public
#define protected public
#include <photon/common/expirecontainer.h>
#undef private
#undef protected
#include <photon/thread/thread.h>
#include <photon/common/alog.h>

#ifdef HAVE_VCLOCK
extern "C" { extern uint64_t (*photon_verif_clock)(); }
static uint64_t g_vclock = 1000;
static uint64_t clock_cb() { return g_vclock; }
#endif

struct Obj {
    int key; int serial; int refs = 0;   // refs: the harness's own ledger of outstanding handles
    ~Obj();
};
typedef ObjectCache<int, Obj*> OC;

struct Op { char kind; int64_t a = 0, b = 0, c = 0; uint64_t d = 0; int e = 0; };
struct Handle { OC::ItemPtr item = nullptr; OC::Borrow* borrow = nullptr; Obj* obj = nullptr; bool released = false; };
struct Thread { std::vector<Op> ops; std::vector<Handle> h; int idx = 0; bool finished = false; int id = 0; photon::thread* th = nullptr; };

static OC* g_oc;
static std::vector<Thread> g_thr;
static std::string g_ev;
static uint64_t g_progress = 0;
static int g_serial = 0;
static int g_cur = -1;          // program thread currently running (for the dtor log)
static int g_outfd = 1;

static void ev(const char* fmt, ...) {
    char buf[128];
    va_list ap; va_start(ap, fmt); vsnprintf(buf, sizeof buf, fmt, ap); va_end(ap);
    if (!g_ev.empty()) g_ev += ",";
    g_ev += buf;
}
static int cur_tid() { for (auto& t : g_thr) if (t.th == photon::CURRENT) return t.id; return -1; }
Obj::~Obj() { ev("d%d:%d:%d", cur_tid(), serial, refs); }

static void run_thread(Thread& me) {
    int t = me.id;
    for (me.idx = 0; (size_t)me.idx < me.ops.size(); me.idx++) {
        Op& op = me.ops[me.idx];
        g_progress++;
        g_cur = t;
        switch (op.kind) {
        case 'A': {
            int key = (int)op.a; bool ok = op.b; int y = (int)op.c; uint64_t cd = op.d;
            auto ctor = [&]() -> Obj* {
                ev("c%d:%d", t, key);
                for (int i = 0; i < y; i++) { g_progress++; photon::thread_yield(); g_cur = t; }
                Obj* o = nullptr;
                if (ok) { o = new Obj; o->key = key; o->serial = g_serial++; }
                if (o) ev("C%d:%d:%d", t, key, o->serial); else ev("C%d:%d:F", t, key);
                return o;
            };
            Handle h;
            if (op.e) {
                h.borrow = new OC::Borrow(g_oc->borrow(key, ctor, cd));
                g_cur = t;
                h.item = h.borrow->_ref;
            } else {
                h.item = g_oc->ref_acquire(key, ctor, cd);
                g_cur = t;
            }
            if (h.item) { h.obj = h.item->get_ptr(); h.obj->refs++; ev("a%d.%d:%d", t, me.idx, h.obj->serial); }
            else ev("a%d.%d:N", t, me.idx);
            me.h.push_back(h);
            break; }
        case 'R': {
            size_t hi = (size_t)op.a; bool rc = op.b, ds = op.c;
            if (hi >= me.h.size() || !me.h[hi].item || me.h[hi].released) { ev("s%d.%d", t, me.idx); break; }
            Handle& h = me.h[hi];
            h.released = true;
            h.obj->refs--;
            ev("b%d.%d", t, me.idx);
            Obj* ret = nullptr;
            if (h.borrow) {
                h.borrow->recycle(rc);
                h.borrow->moveout(!ds);
                Obj* o = h.obj;
                delete h.borrow;           // ~Borrow -> ref_release(_ref, _recycle, !_moveout); result dropped
                g_cur = t;
                // ~Borrow drops the pointer returned by ref_release.  Whether this release really recycled
                // (was not demoted because another recycler was pending) is seen from the item having left
                // the set: nothing else runs between the erase and here on one vCPU.
                if (rc && !ds && g_oc->find(o->key) == g_oc->end()) ret = o;
                h.borrow = nullptr;
            } else {
                ret = g_oc->ref_release(h.item, rc, ds);
                g_cur = t;
            }
            if (ret) { ev("r%d.%d:%d/%d", t, me.idx, ret->serial, ret->refs); /* the caller owns it now; keep it (leak) */ }
            else ev("r%d.%d:N", t, me.idx);
            break; }
        case 'X': g_oc->expire(); g_cur = t; ev("x%d.%d", t, me.idx); break;
        case 'Y': ev("y%d.%d", t, me.idx); photon::thread_yield(); g_cur = t; break;
        case 'T':
#ifdef HAVE_VCLOCK
            g_vclock = photon::sat_add(g_vclock, op.d); photon::now = g_vclock;
#endif
            ev("t%d.%d", t, me.idx); break;
        }
    }
    g_progress++;
    me.finished = true;
}
static void* thread_entry(void* arg) { run_thread(*(Thread*)arg); return nullptr; }

static bool parse_case(const std::string& line, uint64_t& now0, uint64_t& life, uint64_t& lim) {
    std::vector<std::string> secs; { std::string cur; for (char ch : line) { if (ch == '|') { secs.push_back(cur); cur.clear(); } else cur.push_back(ch); } secs.push_back(cur); }
    if (secs.size() < 2) return false;
    { std::istringstream is(secs[0]); if (!(is >> now0 >> life >> lim)) return false; }
    g_thr.resize(secs.size() - 1);
    for (size_t k = 1; k < secs.size(); k++) {
        Thread& th = g_thr[k - 1]; th.id = (int)k - 1;
        std::string cur; std::vector<std::string> items;
        for (char ch : secs[k]) { if (ch == ';') { items.push_back(cur); cur.clear(); } else cur.push_back(ch); } items.push_back(cur);
        for (auto& s : items) {
            std::istringstream is(s); std::string w; if (!(is >> w)) continue;
            if (w == "-") continue;
            Op op; op.kind = w[0];
            if (w == "A") { if (!(is >> op.a >> op.b >> op.c >> op.d >> op.e)) return false; }
            else if (w == "R") { if (!(is >> op.a >> op.b >> op.c)) return false; }
            else if (w == "T") { if (!(is >> op.d)) return false; }
            else if (w != "X" && w != "Y") return false;
            th.ops.push_back(op);
        }
    }
    return true;
}

static void child_main(const std::string& line, int outfd) {
    g_outfd = outfd;
    uint64_t now0, life, lim;
    if (!parse_case(line, now0, life, lim)) { const char* m = "BADCASE\n"; (void)!write(outfd, m, strlen(m)); _exit(0); }
    log_output_level = ALOG_FATAL + 1;
#ifdef HAVE_VCLOCK
    g_vclock = now0; photon_verif_clock = clock_cb;
#endif
    if (photon::vcpu_init() < 0) { const char* m = "INITFAIL\n"; (void)!write(outfd, m, strlen(m)); _exit(0); }
#ifdef HAVE_VCLOCK
    photon::now = g_vclock;
#endif
    g_oc = new OC(life, /*timer_cycle*/ 1ULL << 45, lim);
    for (auto& t : g_thr) t.th = photon::thread_create(&thread_entry, &t, 256 * 1024);
    bool alldone = false;
    for (int rounds = 0; rounds < 10000000; rounds++) {
        uint64_t p = g_progress;
        photon::thread_yield();
        alldone = true; for (auto& t : g_thr) if (!t.finished) alldone = false;
        if (alldone || g_progress == p) break;
    }
    std::string s = "ev=" + (g_ev.empty() ? std::string("-") : g_ev) + " blocked=";
    bool first = true; char buf[64];
    for (auto& t : g_thr) if (!t.finished) { snprintf(buf, sizeof buf, "%s%d.%d", first ? "" : ",", t.id, t.idx); s += buf; first = false; }
    if (first) s += "-";
    snprintf(buf, sizeof buf, " size=%zu list=%zu bad=0 end=done\n", g_oc->size(), g_oc->_list.count_by_loop());
    s += buf;
    size_t off = 0;
    while (off < s.size()) { ssize_t n = write(outfd, s.data() + off, s.size() - off); if (n <= 0) break; off += n; }
    _exit(0);
}

static std::string run_once(const std::string& line, int timeout_ms) {
    int fds[2];
    if (pipe(fds) < 0) return "PIPEFAIL";
    fflush(stdout);
    pid_t pid = fork();
    if (pid == 0) { close(fds[0]); child_main(line, fds[1]); _exit(0); }
    close(fds[1]);
    std::string out; char buf[65536]; bool hang = false;
    while (true) {
        struct pollfd p = {fds[0], POLLIN, 0};
        int r = poll(&p, 1, timeout_ms);
        if (r == 0) { hang = true; kill(pid, SIGKILL); break; }
        if (r < 0) { if (errno == EINTR) continue; break; }
        ssize_t n = read(fds[0], buf, sizeof buf);
        if (n <= 0) break;
        out.append(buf, n);
    }
    close(fds[0]);
    int status = 0; waitpid(pid, &status, 0);
    while (!out.empty() && (out.back() == '\n' || out.back() == '\r')) out.pop_back();
    if (hang) return "HANG " + out;
    if (WIFSIGNALED(status)) return "CRASH(sig" + std::to_string(WTERMSIG(status)) + ") " + out;
    if (WIFEXITED(status) && WEXITSTATUS(status) != 0) return "CRASH(exit" + std::to_string(WEXITSTATUS(status)) + ") " + out;
    if (out.empty()) return "NOOUTPUT";
    return out;
}

int main(int argc, char** argv) {
    if (argc < 2) { fprintf(stderr, "usage: %s <casefile>\n", argv[0]); return 2; }
    int timeout_ms = getenv("C19_TIMEOUT_MS") ? atoi(getenv("C19_TIMEOUT_MS")) : 30000;
    std::ifstream in(argv[1]);
    std::string line;
    while (std::getline(in, line)) {
        if (line.empty() || line[0] == '#') continue;
        std::string a = run_once(line, timeout_ms);
        // a loaded machine must not turn into a verdict: a case that did not finish is run again, alone, with a
        // much longer limit; only a case that still does not finish is reported as HANG
        if (a.compare(0, 4, "HANG") == 0) a = run_once(line, timeout_ms * 6);
        printf("%s\n", a.c_str());
        fflush(stdout);
    }
    return 0;
}
