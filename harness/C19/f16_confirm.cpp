// C19 / F16 confirmation on the REAL ObjectCacheV2 (common/objectcachev2.h), two vCPUs, ASan.
// Needs the guarded hook of repo_patches/C19-hook-borrow-window.diff (PHOTON_VERIF_C19_BORROW_WINDOW): it is
// called by ~Borrow / Borrow::operator= between `_box->release()` and the read of `_box->rc`.
//
//   vCPU 0 (T0): borrows key 1 and drops the Borrow; in the hook (its reference is already released) it is stalled
//                — an OS-level stall of the whole vCPU, which is what the window needs;
//   vCPU 1 (T1): borrows the same key and drops it (this puts the box into the LRU), lets more than `lifespan`
//                pass (virtual clock of the E2 hook H-clock, so nothing depends on real time), runs the
//                reclaimer's callback __expire() — the box is erased from the map — and releases T0;
//   T0 continues with `if (_box->rc == 0)` on the destroyed Box.
// argv[1]: "dtor" (stall in ~Borrow) or "assign" (stall in Borrow::operator=(Borrow&&)).
// The child is expected to be killed by ASan (heap-use-after-free); the parent prints ONE line:
//    F16 <mode> confirmed: heap-use-after-free READ in ...   |   F16 <mode> not-reproduced: <why>
#include <cstdio>
#include <cstdlib>
#include <cstring>
#include <string>
#include <thread>
#include <mutex>
#include <condition_variable>
#include <unistd.h>
#include <sys/wait.h>
#include <memory>
#include <vector>
#include <unordered_set>
#include <atomic>
#define private public
#define protected public
#include <photon/common/objectcachev2.h>
#undef private
#undef protected
#include <photon/thread/thread.h>
#include <photon/common/alog.h>

extern "C" { extern uint64_t (*photon_verif_clock)(); }
static std::atomic<uint64_t> g_vclock{1000000};
static uint64_t clock_cb() { return g_vclock.load(); }

struct Obj { int v = 7; };
typedef ObjectCacheV2<int, Obj*> OC2;
static OC2* g_oc;
static const uint64_t LIFESPAN = 1000;     // 1 ms

static std::mutex g_m;
static std::condition_variable g_cv;
static int g_stage = 0;                    // 0 start, 1 cache built, 2 T0 in the window, 3 box erased
static std::thread::id g_t0;
static void set_stage(int s) { std::lock_guard<std::mutex> l(g_m); g_stage = s; g_cv.notify_all(); }
static void wait_stage(int s) { std::unique_lock<std::mutex> l(g_m); g_cv.wait(l, [&] { return g_stage >= s; }); }

static void window_cb(void* box) {
    if (std::this_thread::get_id() != g_t0) return;          // only T0 is stalled
    static bool once = false; if (once) return; once = true;
    fprintf(stderr, "T0: released box %p, stalled before the rc test\n", box);
    set_stage(2);
    wait_stage(3);
    fprintf(stderr, "T0: resumes\n");
}

static void t1_main() {
    photon::vcpu_init();
    wait_stage(2);
    size_t before = g_oc->map.size();
    { auto b = g_oc->borrow(1, [] { return new Obj; }); }     // a complete borrow cycle: the box enters the LRU
    g_vclock += LIFESPAN + 2; photon::now = g_vclock.load();   // more than `lifespan` later
    g_oc->__expire();                                          // the reclaimer's timer callback
    size_t after = g_oc->map.size();
    fprintf(stderr, "T1: map size %zu -> %zu (box erased by the reclaimer)\n", before, after);
    if (after != 0) { fprintf(stderr, "NOT-ERASED\n"); _exit(3); }
    set_stage(3);
    // keep this vCPU alive until T0 has touched the box (the child dies under ASan there)
    for (int i = 0; i < 200; i++) usleep(10000);
    _exit(4);
}

static void child(const char* mode) {
    log_output_level = ALOG_FATAL + 1;
    photon_verif_clock = clock_cb;
    photon_verif_c19_borrow_window = window_cb;
    photon::vcpu_init();
    photon::now = g_vclock.load();
    g_t0 = std::this_thread::get_id();
    g_oc = new OC2(LIFESPAN);
    std::thread t1(t1_main);
    if (!strcmp(mode, "dtor")) {
        auto b = g_oc->borrow(1, [] { return new Obj; });
        // ~Borrow at the end of this scope: release(), hook (stall), rc test on the erased box
    } else {
        auto b = g_oc->borrow(1, [] { return new Obj; });
        b = OC2::Borrow();                                      // operator=(Borrow&&): same window
    }
    fprintf(stderr, "T0: finished without a report\n");
    _exit(5);
}

int main(int argc, char** argv) {
    const char* mode = argc > 1 ? argv[1] : "dtor";
    int fds[2]; if (pipe(fds) < 0) return 2;
    pid_t pid = fork();
    if (pid == 0) { close(fds[0]); dup2(fds[1], 2); alarm(60); child(mode); _exit(6); }
    close(fds[1]);
    std::string err; char buf[4096]; ssize_t n;
    while ((n = read(fds[0], buf, sizeof buf)) > 0) err.append(buf, n);
    int status = 0; waitpid(pid, &status, 0);
    size_t p = err.find("AddressSanitizer: heap-use-after-free");
    if (p != std::string::npos) {
        std::string where;
        size_t q = err.find("objectcachev2.h:", p);      // first frame inside the class: the offending line of ~Borrow / operator=
        if (q != std::string::npos) {
            size_t ls = err.rfind('\n', q), le = err.find('\n', q);
            std::string line = err.substr(ls + 1, le - ls - 1);
            size_t in = line.find(" in ");
            where = "at" + (in == std::string::npos ? " " + line : line.substr(in + 3));
        }
        size_t r = err.find("READ of size", p); std::string rd; if (r != std::string::npos) { size_t e = err.find(" at", r); rd = err.substr(r, e - r); }
        bool freed_by_erase = err.find("__expire") != std::string::npos;
        printf("F16 %s confirmed: heap-use-after-free, %s, %s%s\n", mode, rd.c_str(), where.c_str(), freed_by_erase ? ", freed by ObjectCacheV2::__expire (map.erase)" : "");
    } else {
        std::string last; size_t e = err.find_last_not_of("\n"); if (e != std::string::npos) { size_t b = err.rfind('\n', e); last = err.substr(b == std::string::npos ? 0 : b + 1, e - (b == std::string::npos ? 0 : b + 1) + 1); }
        printf("F16 %s not-reproduced: exit=%d sig=%d last=%s\n", mode, WIFEXITED(status) ? WEXITSTATUS(status) : -1, WIFSIGNALED(status) ? WTERMSIG(status) : 0, last.substr(0, 200).c_str());
    }
    if (getenv("C19_F16_VERBOSE")) fprintf(stderr, "%s", err.c_str());
    return 0;
}
