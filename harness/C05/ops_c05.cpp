// ops_c05.cpp — C05 extension of the E2 op language (see harness/E2/e2.h):
//   nthreads        photon::get_info(INFO_THREAD_NUM) of the current vCPU
//   released <k>    how many times the stack of program thread k has been handed back to the
//                   stack allocator (0 / 1; 2 would be a double release)
// and a RECORDING STACK ALLOCATOR installed through set_photon_thread_stack_allocator before
// vcpu_init: every stack is a fresh mmap; a released stack is never reused but turned PROT_NONE,
// so any later access to it (premature release) is a SIGSEGV, reported by the engine as CRASH.
#include <photon/thread/thread.h>
#include <photon/thread/stack-allocator.h>
#include <sys/mman.h>
#include <vector>
#include "../E2/e2.h"
using namespace e2;

namespace c05 {
struct Rec { char* ptr; size_t size; int freed; };
static std::vector<Rec>& recs() { static std::vector<Rec> r; return r; }

static void* rec_alloc(void*, size_t size) {
    void* p = mmap(nullptr, size, PROT_READ | PROT_WRITE, MAP_PRIVATE | MAP_ANONYMOUS, -1, 0);
    if (p == MAP_FAILED) return nullptr;
    recs().push_back(Rec{(char*)p, size, 0});
    return p;
}
static void rec_dealloc(void*, void* ptr, size_t size) {
    for (auto& r : recs())
        if (r.ptr == (char*)ptr) { r.freed++; break; }
    mprotect(ptr, size, PROT_NONE);
}
struct Install {
    Install() {
        recs().reserve(4096);       // no reallocation while a dying thread's stack is handed back
        photon::set_photon_thread_stack_allocator({&rec_alloc, nullptr}, {&rec_dealloc, nullptr});
    }
};
static Install g_install;
int released_of(photon::thread* th) {
    for (auto& r : recs())
        if ((char*)th >= r.ptr && (char*)th < r.ptr + r.size) return r.freed;
    return -1;
}
}  // namespace c05

E2_OP(nthreads) {
    return RV((int64_t)photon::get_info(photon::INFO_THREAD_NUM));
}
E2_OP(released) {
    int64_t k = op.a(0);
    if (k < 1 || (size_t)k >= c.env.threads.size() || !c.env.threads[k].created) return RV(SKIPPED);
    return RV(c05::released_of(c.env.threads[k].th));
}
