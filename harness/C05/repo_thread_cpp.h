// repo_thread_cpp.h — pulls the REAL thread/thread.cpp of the tree under test into this
// translation unit, so that the file-local `class photon::asymmetric_spinLock` (489-534) is the
// object code under test.  Define C05_INSTRUMENT before including to route its std::atomic_bool
// members through the E3 controller (`std::verif_atomic<bool>`, harness/E3/e3.h).
#pragma once
#define protected public
#include <photon/thread/thread.h>
#include <photon/thread/timer.h>
#include <photon/common/intrusive_list.h>
#undef protected
#include <photon/io/fd-events.h>
#include <photon/common/timeout.h>
#include <photon/common/alog.h>
#include <photon/common/alog-functionptr.h>
#include <photon/thread/thread-key.h>
#include <photon/thread/arch.h>
#include <memory.h>
#include <sys/time.h>
#include <unistd.h>
#include <cstddef>
#include <cassert>
#include <cerrno>
#include <vector>
#include <new>
#include <thread>
#include <mutex>
#include <condition_variable>
#include <sys/mman.h>
#ifdef C05_INSTRUMENT
#define atomic_bool verif_atomic<bool>
#endif
#include "thread/thread.cpp"
#ifdef C05_INSTRUMENT
#undef atomic_bool
#endif
static_assert(sizeof(photon::asymmetric_spinLock) == 2, "asymmetric_spinLock = two atomic_bool");
