// litmus.cpp — hardware litmus for finding F5 on the REAL photon::asymmetric_spinLock:
// one owner thread (foreground_lock/unlock) and one stealer (background_try_lock/unlock) hammer
// the lock; each marks its presence inside with a relaxed flag and looks for the other's flag.
// x86-TSO keeps the order of a thread's own stores, so a flag seen set means the other side
// really is between its acquire and its release: an OVERLAP = both inside at once.
// usage: litmus <milliseconds> [<owner gap>]   (gap = pause iterations of the owner outside the lock)
// prints: overlaps=<n> owner_iters=<n> stealer_iters=<n> ms=<t>
// Real-time and non-deterministic: it can only CONFIRM the finding, it is never required to fire.
#include "repo_thread_cpp.h"
#include <atomic>
#include <chrono>
#include <cstdio>
#include <cstdlib>
#include <pthread.h>
#include <sched.h>

static photon::asymmetric_spinLock g_lock;
alignas(64) static std::atomic<int> in_f{0};
alignas(64) static std::atomic<int> in_b{0};
alignas(64) static std::atomic<bool> stop{false};
alignas(64) static std::atomic<unsigned long> overlaps_f{0};
alignas(64) static std::atomic<unsigned long> overlaps_b{0};
static unsigned long it_f = 0, it_b = 0;

static void pin(int cpu) {
    cpu_set_t s; CPU_ZERO(&s); CPU_SET(cpu, &s);
    pthread_setaffinity_np(pthread_self(), sizeof s, &s);   // best effort
}

int main(int argc, char** argv) {
    int ms = argc > 1 ? atoi(argv[1]) : 3000;
    int gap = argc > 2 ? atoi(argv[2]) : 8;
    int hold = argc > 3 ? atoi(argv[3]) : 4;
    long ncpu = sysconf(_SC_NPROCESSORS_ONLN);
    std::thread owner([&] {
        if (ncpu > 1) pin(0);
        while (!stop.load(std::memory_order_relaxed)) {
            g_lock.foreground_lock();
            in_f.store(1, std::memory_order_relaxed);
            if (in_b.load(std::memory_order_relaxed)) overlaps_f.fetch_add(1, std::memory_order_relaxed);
            for (int i = 0; i < hold; i++) photon::spin_wait();        // stay inside a little: widens the overlap, not the race
            if (in_b.load(std::memory_order_relaxed)) overlaps_f.fetch_add(1, std::memory_order_relaxed);
            in_f.store(0, std::memory_order_relaxed);
            g_lock.foreground_unlock();
            it_f++;
            for (int i = 0; i < gap; i++) photon::spin_wait();
        }
    });
    std::thread stealer([&] {
        if (ncpu > 1) pin(1);
        while (!stop.load(std::memory_order_relaxed)) {
            if (g_lock.background_try_lock()) {
                in_b.store(1, std::memory_order_relaxed);
                if (in_f.load(std::memory_order_relaxed)) overlaps_b.fetch_add(1, std::memory_order_relaxed);
                in_b.store(0, std::memory_order_relaxed);
                g_lock.background_unlock();
            }
            it_b++;
        }
    });
    auto t0 = std::chrono::steady_clock::now();
    std::this_thread::sleep_for(std::chrono::milliseconds(ms));
    stop.store(true);
    owner.join(); stealer.join();
    auto dt = std::chrono::duration_cast<std::chrono::milliseconds>(std::chrono::steady_clock::now() - t0).count();
    printf("overlaps=%lu owner_iters=%lu stealer_iters=%lu ms=%ld\n",
           overlaps_f.load() + overlaps_b.load(), it_f, it_b, (long)dt);
    return 0;
}
