// e4_main.cpp — engine E4 for C05: CONTROLLED, deterministic multi-vCPU replay of the thread
// life-cycle model (coq/C05/C05_Model.v `step`, command layer coq/C05/C05_E4.v) against the REAL
// scheduler.  thread/thread.cpp of the tree under test is compiled INTO this translation unit
// (repo_thread_cpp.h), so the file-static functions (resume_threads, try_work_stealing ->
// ws_scan_standbyq / ws_scan_runq / ws_scan_q, do_thread_migrate, ...) are the object code under
// test and every internal (rings, sleepq arrays, standbyq lists, nthreads, thread fields) can be read.
//
// Case line:   M <nv> <flags,..> | <ops T0> | ... | <ops Tn-1> | <cmd> <cmd> ...
//   nv vCPUs = nv OS threads, vcpu_init()-ed in index order (= pvcpu list order); flags per vCPU:
//   letters a (VCPU_ENABLE_ACTIVE_WORK_STEALING) p (..PASSIVE..) or `-`.  Threads 0..nv-1 are the main
//   photon threads of the vCPUs, nv..n-1 are started by `create k j ws`, n+v is the idler of vCPU v.
//   ops: usleep d | yield | interrupt k e | create k j ws | join k | migrate k u | nthreads | released k | nop
//        waitall (photon::wait_all(), main threads only) | fini (photon::vcpu_fini(), main threads only: the vCPU is
//        finalised — wait_all, go_offline, the idler exits and is joined, vcpu_t and the main thread object are destroyed;
//        its OS thread stays in the token protocol but executes nothing any more; dumped as `V<v>[off]`, T<v>=D, T<n+v>=D)
//   cmds (one vCPU acts at a time, all others are blocked on a semaphore OUTSIDE the scheduler):
//     s<v>  the CURRENT thread of v runs its next op up to the next gate of v (idler: thread_yield())
//     y<v>  same, but if the commanded block is a thread_yield() it parks inside the yield window (hook photon_verif_c05_yield_window);
//           a thread_yield() of ANOTHER thread later in the same command (main thread inside wait_all's loop) does not park
//     r<v>  idler of v: resume_threads()          w<v>  idler of v: try_work_stealing()
//     a<v>  idler: resume_threads, try_work_stealing if alone, thread_yield (the library idler's round); else = s
//     t<d>  the virtual clock advances by d
// Output: ONE line:  init <dump> ;; <cmd> ev=<tid.pc:ret/errno@now,..> <dump> ;; ...
//   dump = V<v>[r=<ring, CURRENT first> q=<sleepq, sorted tids> b=<standbyq order> n=<nthreads>] ...
//          T<k>=<N|Y|R|S|B|D><vcpu>[z = in a sleepq][w<j> = in the join queue of j][e<error_number>][c<started><returned><stack releases>]
//   !NOTE tokens: WRONGCPU (a thread reached a gate on the OS thread of a vCPU it does not belong to), BADIDX (sleepq index),
//          UNLOCKED(rule<id>) (a hooked access was executed without the lock the code's own rules name, lockset hook)
// Every case runs in a forked child (fresh scheduler, no teardown); a runaway child is stopped by
// a CPU-time limit, a blocked one by a generous wall-clock limit (`HANG`).
#include "repo_thread_cpp.h"
#include <semaphore.h>
#include <pthread.h>
#include <poll.h>
#include <signal.h>
#include <time.h>
#include <sys/wait.h>
#include <sys/resource.h>
#include <cinttypes>
#include <string>
#include <sstream>
#include <fstream>
#include <iostream>
#include <algorithm>

namespace e4 {
using photon::thread;
using photon::vcpu_t;
static const int MAXV = 8;
static const int64_t SKIPPED = -2;

struct Item {
    std::string name; std::vector<int64_t> args;
    int64_t a(size_t i, int64_t d = 0) const { return i < args.size() ? args[i] : d; }
};
struct TInfo {
    std::vector<Item> ops;
    thread* th = nullptr;
    bool created = false, finished = false, joinable = false, ws = false, joined = false, claimed = false, exited = false;
    int pc = 0, started = 0, returned = 0;
};
struct Ev { int tid, pc; int64_t ret; int err; uint64_t now; };
struct Res { int64_t ret; int err; };
enum Kind { STEP, BLOCK, RESUME, SCAN, AUTO, TICK };
struct Cmd { Kind k; int v; uint64_t d; std::string text; };

static int NV = 0, N = 0;
static std::vector<TInfo> T;
static std::vector<Cmd> cmds;
static std::vector<Ev> evs;
static std::vector<std::string> notes;
static vcpu_t* VC[MAXV];
static thread** CURSLOT[MAXV];
static uint8_t VFLAGS[MAXV];
static sem_t sem_v[MAXV], sem_done;
static bool holding[MAXV], arm_window[MAXV];
static thread* arm_thread[MAXV];            // the thread whose `y` command armed the window: only ITS thread_yield() parks there
static volatile bool vfini[MAXV];          // vcpu_fini() returned on this OS thread: VC[v], T[v].th, the idler are freed
static Cmd cur_cmd;
static uint64_t vclock = 1000;
static int g_outfd = 1;

// OS-thread identity of the executing code.  Photon threads move between OS threads (migrate, steal): every
// access goes through a noinline function so that no TLS address is cached across a context switch.
static __thread int os_index_tls = -1;
__attribute__((noinline)) static int os_idx() { asm volatile("" ::: "memory"); return os_index_tls; }
__attribute__((noinline)) static int get_errno() { asm volatile("" ::: "memory"); return errno; }
__attribute__((noinline)) static thread* get_current() { asm volatile("" ::: "memory"); return photon::CURRENT; }

// ---- recording stack allocator: every stack a fresh mmap, a released stack becomes PROT_NONE --------------
struct Rec { char* ptr; size_t size; int freed; };
static std::vector<Rec> recs;
static photon::spinlock rec_lock;
static void* rec_alloc(void*, size_t size) {
    void* p = mmap(nullptr, size, PROT_READ | PROT_WRITE, MAP_PRIVATE | MAP_ANONYMOUS | MAP_NORESERVE, -1, 0);
    if (p == MAP_FAILED) return nullptr;
    rec_lock.lock(); recs.push_back(Rec{(char*)p, size, 0}); rec_lock.unlock();
    return p;
}
static void rec_dealloc(void*, void* ptr, size_t size) {
    rec_lock.lock();
    for (auto& r : recs) if (r.ptr == (char*)ptr) { r.freed++; break; }
    rec_lock.unlock();
    mprotect(ptr, size, PROT_NONE);
}
static int released_of(thread* th) {
    for (auto& r : recs) if ((char*)th >= r.ptr && (char*)th < r.ptr + r.size) return r.freed;
    return -1;
}

static void note(const std::string& s) { notes.push_back(s); }
static void install_fatal_handlers();

// lockset hook (thread.h PHOTON_VERIF_LS): every hooked access names the lock(s) that protect it.  One vCPU acts at a time,
// so "the lock is held" = "the acting vCPU holds it": a hooked access outside its lock is reported deterministically.
static void ls_cb(int id, const void*, const void* l1, const void* l2) {
    if (id < 10) return;                        // acquire / release events
    if ((l1 && !((const photon::spinlock*)l1)->locked()) || (l2 && !((const photon::spinlock*)l2)->locked())) {
        std::string n = "UNLOCKED(rule" + std::to_string(id) + ")";
        for (auto& x : notes) if (x == n) return;
        note(n);
    }
}

// ---- the gate: the executing OS thread hands the token back and blocks until its vCPU is commanded again ----
__attribute__((noinline)) static Cmd gate() {
    int me = os_idx();
    thread* c = get_current();
    if (!vfini[me] && (!c || c->get_vcpu() != VC[me])) note("WRONGCPU(os" + std::to_string(me) + ")");
    arm_window[me] = false;
    if (holding[me]) { holding[me] = false; sem_post(&sem_done); }
    while (sem_wait(&sem_v[me]) < 0 && get_errno() == EINTR) {}
    holding[me] = true;
    return cur_cmd;
}
// a program thread waits for a command that lets it execute its next block
static void wait_step() {
    for (;;) {
        Cmd c = gate();
        if (c.k == STEP || c.k == AUTO) return;
        if (c.k == BLOCK) { arm_thread[os_idx()] = get_current(); arm_window[os_idx()] = true; return; }
        // RESUME / SCAN for a vCPU whose CURRENT thread is not the idler: nothing happens (model: idler_running = false)
    }
}
// hook between thread_yield's run-queue unlock and its context save (thread.cpp, PHOTON_VERIF)
static void yield_window_cb() {
    int me = os_idx();
    if (!arm_window[me]) return;
    // The hook runs after goto_next(): CURRENT is already the thread being switched TO, the yielding thread is its ring
    // predecessor.  `y<v>` = "the commanded block, if it is a thread_yield(), parks in the window" (C05_E4.v CBlock): a
    // thread_yield() executed LATER in the same command by another thread — the main thread inside wait_all()'s loop, which
    // goes round without passing a gate — is not the commanded block and must not park.
    { thread* c = get_current(); if (!c || c->prev() != arm_thread[me]) return; }
    for (;;) {
        Cmd c = gate();
        if (c.k == STEP || c.k == AUTO || c.k == BLOCK) return;
    }
}

static bool alive(int64_t k) {
    if (k < 0 || k >= N) return false;
    if (k < NV && vfini[k]) return false;            // the main thread object of a finalised vCPU is deleted
    auto& t = T[k];
    return t.created && (!t.finished || (t.joinable && !t.joined));
}
static bool is_user(int64_t k) { return k >= NV && k < N; }
static Res R(int64_t r) { return Res{r, r < 0 ? get_errno() : 0}; }

static void* thread_body(void* arg);

static Res exec_op(int self, const Item& op) {
    const std::string& n = op.name;
    if (n == "usleep") { int r = photon::thread_usleep((uint64_t)op.a(0)); return R(r); }
    if (n == "yield") { int r = photon::thread_yield(); return Res{r, 0}; }
    if (n == "interrupt") {
        int64_t k = op.a(0);
        if (!alive(k)) return Res{SKIPPED, 0};
        photon::thread_interrupt(T[k].th, (int)op.a(1, EINTR));
        return Res{0, 0};
    }
    if (n == "create") {
        int64_t k = op.a(0);
        if (!is_user(k) || T[k].created) return Res{SKIPPED, 0};
        auto& t = T[k];
        t.joinable = op.a(1, 0) != 0; t.ws = op.a(2, 0) != 0;
        uint64_t fl = (t.joinable ? photon::THREAD_JOINABLE : 0) | (t.ws ? photon::THREAD_ENABLE_WORK_STEALING : 0);
        auto th = photon::thread_create(&thread_body, &t, 128 * 1024, 0, fl);
        if (!th) return R(-1);
        t.th = th; t.created = true;
        return Res{0, 0};
    }
    if (n == "join") {
        int64_t k = op.a(0);
        if (!alive(k) || k == self) return Res{SKIPPED, 0};
        auto& t = T[k];
        if (!t.joinable || t.claimed) return Res{SKIPPED, 0};
        t.claimed = true;
        void* rv = photon::thread_join((photon::join_handle*)t.th);
        t.joined = true;
        return Res{(int64_t)(intptr_t)rv, 0};
    }
    if (n == "migrate") {
        int64_t k = op.a(0), u = op.a(1);
        if (!alive(k) || u < 0 || u >= NV || !is_user(k) || vfini[u]) return Res{SKIPPED, 0};
        int r = photon::thread_migrate(T[k].th, VC[u]);
        return R(r);
    }
    if (n == "nthreads") return Res{(int64_t)photon::get_info(photon::INFO_THREAD_NUM), 0};
    if (n == "released") {
        int64_t k = op.a(0);
        if (!is_user(k) || !T[k].created) return Res{SKIPPED, 0};
        return Res{released_of(T[k].th), 0};
    }
    if (n == "nop") return Res{0, 0};
    if (n == "waitall") {
        if (self >= NV) return Res{SKIPPED, 0};
        int r = photon::wait_all();
        return R(r);
    }
    if (n == "fini") {
        if (self >= NV) return Res{SKIPPED, 0};
        int r = photon::vcpu_fini();              // the commanded idler returns as soon as it sees vcpu->state == DONE
        vfini[self] = true;
        return R(r);
    }
    return Res{-99, 0};
}

static void run_thread(int self) {
    TInfo& me = T[self];
    for (me.pc = 0; (size_t)me.pc < me.ops.size(); me.pc++) {
        wait_step();
        Res r = exec_op(self, me.ops[me.pc]);
        evs.push_back(Ev{self, me.pc, r.ret, r.err, (uint64_t)photon::now});
        if (self < NV && vfini[self]) { me.pc++; for (;;) gate(); }     // no vCPU any more: nothing is executed here again
    }
    if (self >= NV) { me.finished = true; wait_step(); me.exited = true; return; }   // the entry function returns: thread::die
    for (;;) { wait_step(); photon::thread_usleep(-1); }                        // a main thread parks, stays a valid target
}
static void* thread_body(void* arg) {
    TInfo* t = (TInfo*)arg;
    int self = (int)(t - &T[0]);
    t->started++;
    run_thread(self);
    t->returned++;
    return (void*)(intptr_t)(1000 + self);
}

// The idler's LOOP is replaced (idle_worker->start is re-pointed before the idler first runs) by a commanded loop that
// calls the same file-static functions the library's idler() calls, one at a time.
static void* my_idler(void*) {
    for (;;) {
        // vcpu_fini (2345-2346) sets vcpu->state = DONE and joins the idler: the library's idler() leaves its loop (2166, 2171)
        { photon::RunQ rq0; if (rq0.current->get_vcpu()->state == photon::states::DONE) return nullptr; }
        Cmd c = gate();
        photon::RunQ rq;
        auto vcpu = rq.current->get_vcpu();
        switch (c.k) {
        case RESUME: photon::resume_threads(vcpu, rq); break;
        case SCAN: photon::try_work_stealing(vcpu); break;
        case AUTO:
            photon::resume_threads(vcpu, rq);
            if (photon::AtomicRunQ(rq).single()) photon::try_work_stealing(vcpu);
            if (!photon::AtomicRunQ(rq).single()) photon::thread_yield();
            break;
        case BLOCK: arm_thread[os_idx()] = get_current(); arm_window[os_idx()] = true;   /* fall through */
        case STEP: if (!photon::AtomicRunQ(rq).single()) photon::thread_yield(); break;
        default: break;
        }
    }
    return nullptr;
}

static void* os_main(void* arg) {
    int v = (int)(intptr_t)arg;
    os_index_tls = v;
    install_fatal_handlers();
    if (photon::vcpu_init(VFLAGS[v]) < 0) { const char* m = "INITFAIL\n"; (void)!write(g_outfd, m, strlen(m)); _exit(0); }
    VC[v] = photon::CURRENT->get_vcpu();
    CURSLOT[v] = &photon::CURRENT;
    VC[v]->idle_worker->start = &my_idler;
    T[v].th = photon::CURRENT; T[v].created = true;
    sem_post(&sem_done);
    run_thread(v);
    return nullptr;
}

// ---- placement dump (controller only, while every vCPU is blocked at a gate) -----------------------------
static int vcpu_index(const volatile void* p) { for (int v = 0; v < NV; v++) if ((const volatile void*)VC[v] == p) return v; return -1; }
static bool struct_valid(int k) {           // may T[k].th be dereferenced?
    if (k >= N) return !vfini[k - N];
    auto& t = T[k];
    if (!t.created) return false;
    if (k < NV) return !vfini[k];
    return !(t.exited && (!t.joinable || t.joined));
}
static thread* thread_of(int k) { return k < N ? T[k].th : VC[k - N]->idle_worker; }
static std::string tid_of(thread* th) {
    for (int k = 0; k < N + NV; k++) if (struct_valid(k) && thread_of(k) == th) return std::to_string(k);
    return "?";
}
static std::string join_ints(std::vector<std::string>& v) {
    if (v.empty()) return "-";
    std::string s; for (size_t i = 0; i < v.size(); i++) { if (i) s += ","; s += v[i]; } return s;
}
static std::string dump() {
    std::string s; char buf[160];
    for (int v = 0; v < NV; v++) {
        if (vfini[v]) { snprintf(buf, sizeof buf, "V%d[off] ", v); s += buf; continue; }
        auto vc = VC[v];
        std::vector<std::string> rq, sq, sb;
        thread* cur = *CURSLOT[v];
        int guard = 0;
        for (thread* th = cur; th; ) { rq.push_back(tid_of(th)); th = th->next(); if (th == cur || ++guard > 64) break; }
        std::vector<int> sqi;
        for (size_t i = 0; i < vc->sleepq.q.size(); i++) {
            thread* th = vc->sleepq.q[i];
            std::string t = tid_of(th);
            sqi.push_back(t == "?" ? 9999 : atoi(t.c_str()));
            if (t != "?" && th->idx != (int)i) note("BADIDX(T" + t + ")");
        }
        std::sort(sqi.begin(), sqi.end());
        for (int x : sqi) sq.push_back(x == 9999 ? "?" : std::to_string(x));
        guard = 0;
        for (auto th : vc->standbyq) { sb.push_back(tid_of(th)); if (++guard > 64) break; }
        snprintf(buf, sizeof buf, "V%d[r=%s q=%s b=%s n=%u] ", v, join_ints(rq).c_str(), join_ints(sq).c_str(), join_ints(sb).c_str(),
                 (unsigned)vc->nthreads.load());
        s += buf;
    }
    for (int k = 0; k < N + NV; k++) {
        if (k < N && !T[k].created) continue;
        std::string cnt;
        if (is_user(k)) { snprintf(buf, sizeof buf, "c%d%d%d", T[k].started, T[k].returned, released_of(T[k].th)); cnt = buf; }
        if (!struct_valid(k)) { s += "T" + std::to_string(k) + "=D" + cnt + " "; continue; }
        thread* th = thread_of(k);
        int st = th->state;
        if (st == photon::DONE) { s += "T" + std::to_string(k) + "=D" + cnt + " "; continue; }
        const char* L = st == photon::READY ? "Y" : st == photon::RUNNING ? "R" : st == photon::SLEEPING ? "S" : st == photon::STANDBY ? "B" : "?";
        std::string e = "T" + std::to_string(k) + "=" + L + std::to_string(vcpu_index((const volatile void*)th->vcpu));
        if (th->idx != -1) e += "z";
        if (th->waitq) {
            std::string w = "w?";
            for (int j = 0; j < N; j++)
                if (struct_valid(j) && (void*)th->waitq == (void*)&thread_of(j)->cond) w = "w" + std::to_string(j);
            e += w;
        }
        if (th->error_number) e += "e" + std::to_string(th->error_number);
        s += e + cnt + " ";
    }
    for (auto& x : notes) s += "!" + x + " ";
    while (!s.empty() && s.back() == ' ') s.pop_back();
    return s;
}
static std::string events() {
    if (evs.empty()) return "-";
    std::string s; char buf[128];
    for (size_t i = 0; i < evs.size(); i++) {
        auto& e = evs[i];
        snprintf(buf, sizeof buf, "%s%d.%d:%" PRId64 "/%d@%" PRIu64, i ? "," : "", e.tid, e.pc, e.ret, e.err, e.now);
        s += buf;
    }
    return s;
}
static void emit(const std::string& s0) {
    std::string s = s0 + "\n";
    size_t off = 0;
    while (off < s.size()) { ssize_t n = write(g_outfd, s.data() + off, s.size() - off); if (n <= 0) break; off += n; }
}
// ---- a fatal signal / an inconsistent CURRENT ends the case, but what was observed so far is still printed -------------
static std::string g_out;            // dumps so far
static const char* g_cmd = "";       // command being executed
static void fatal_handler(int sig) {
    char buf[64]; int n = snprintf(buf, sizeof buf, "CRASH(sig%d) ", sig);
    (void)!write(g_outfd, buf, n);
    (void)!write(g_outfd, g_out.data(), g_out.size());
    (void)!write(g_outfd, " ;; ", 4);
    (void)!write(g_outfd, g_cmd, strlen(g_cmd));
    (void)!write(g_outfd, "\n", 1);
    _exit(0);
}
static void install_fatal_handlers() {
    // every OS thread needs its own alternate stack (the fault may be a photon stack that became PROT_NONE)
    stack_t ss; ss.ss_sp = malloc(1 << 16); ss.ss_size = 1 << 16; ss.ss_flags = 0;
    sigaltstack(&ss, nullptr);
    struct sigaction sa; memset(&sa, 0, sizeof sa);
    sa.sa_handler = fatal_handler; sa.sa_flags = SA_ONSTACK | SA_NODEFER;
    for (int sg : {SIGSEGV, SIGBUS, SIGILL, SIGFPE, SIGABRT}) sigaction(sg, &sa, nullptr);
}
// the thread a vCPU's OS thread is parked in must be a RUNNING thread of that vCPU, else the replay cannot go on
static std::string current_sane() {
    for (int v = 0; v < NV; v++) {
        if (vfini[v]) continue;
        thread* cur = *CURSLOT[v];
        if (!cur) return "vCPU " + std::to_string(v) + " has no CURRENT thread";
        std::string t = tid_of(cur);
        if (t == "?") return "the CURRENT thread of vCPU " + std::to_string(v) + " is not a live thread";
        if (cur->get_vcpu() != VC[v]) return "the CURRENT thread T" + t + " of vCPU " + std::to_string(v) + " belongs to another vCPU";
        if (cur->state != photon::RUNNING) return "the CURRENT thread T" + t + " of vCPU " + std::to_string(v) + " is not RUNNING";
    }
    return "";
}
static uint64_t clock_cb() { return vclock; }
static int idle_cb(uint64_t, uint64_t) { return 1; }     // the library's idler() never runs; belt and braces

static bool wait_done(int secs) {
    struct timespec ts; clock_gettime(CLOCK_REALTIME, &ts); ts.tv_sec += secs;
    for (;;) {
        if (sem_timedwait(&sem_done, &ts) == 0) return true;
        if (errno == EINTR) continue;
        return false;
    }
}

static std::vector<std::string> split(const std::string& s, char c) {
    std::vector<std::string> out; std::string cur;
    for (char ch : s) { if (ch == c) { out.push_back(cur); cur.clear(); } else cur.push_back(ch); }
    out.push_back(cur); return out;
}
static std::string trim(const std::string& s) {
    size_t a = s.find_first_not_of(" \t\r\n"), b = s.find_last_not_of(" \t\r\n");
    return a == std::string::npos ? "" : s.substr(a, b - a + 1);
}
static bool parse_items(const std::string& sec, std::vector<Item>& out) {
    std::string t = trim(sec);
    if (t.empty() || t == "-") return true;
    for (auto& part : split(t, ';')) {
        std::istringstream is(part);
        Item it; std::string w;
        if (!(is >> it.name)) return false;
        while (is >> w) {
            char* end = nullptr;
            if (w[0] == '-') it.args.push_back((int64_t)strtoll(w.c_str(), &end, 10));
            else it.args.push_back((int64_t)strtoull(w.c_str(), &end, 10));
            if (!end || *end) return false;
        }
        out.push_back(it);
    }
    return true;
}
static const char* OPS[] = {"usleep", "yield", "interrupt", "create", "join", "migrate", "nthreads", "released", "nop", "waitall", "fini"};

static bool parse_case(const std::string& line) {
    auto secs = split(line, '|');
    if (secs.size() < 3) return false;
    std::istringstream hs(secs[0]);
    std::string tag, fl; int nv = 0;
    if (!(hs >> tag >> nv >> fl) || tag != "M" || nv < 1 || nv > MAXV) return false;
    auto fls = split(fl, ',');
    if ((int)fls.size() != nv) return false;
    NV = nv; N = (int)secs.size() - 2;
    if (N < NV) return false;
    for (int v = 0; v < NV; v++)
        VFLAGS[v] = (fls[v].find('a') != std::string::npos ? photon::VCPU_ENABLE_ACTIVE_WORK_STEALING : 0) |
                    (fls[v].find('p') != std::string::npos ? photon::VCPU_ENABLE_PASSIVE_WORK_STEALING : 0);
    T.assign(N, TInfo());
    for (int k = 0; k < N; k++) {
        if (!parse_items(secs[k + 1], T[k].ops)) return false;
        for (auto& op : T[k].ops) {
            bool ok = false;
            for (auto o : OPS) if (op.name == o) ok = true;
            if (!ok) return false;
        }
    }
    std::istringstream cs(secs.back());
    std::string w;
    while (cs >> w) {
        if (w.size() < 2) return false;
        Cmd c; c.text = w; c.v = 0; c.d = 0;
        char* end = nullptr;
        unsigned long long x = strtoull(w.c_str() + 1, &end, 10);
        if (!end || *end) return false;
        switch (w[0]) {
        case 's': c.k = STEP; break;   case 'y': c.k = BLOCK; break;  case 'r': c.k = RESUME; break;
        case 'w': c.k = SCAN; break;   case 'a': c.k = AUTO; break;   case 't': c.k = TICK; break;
        default: return false;
        }
        if (c.k == TICK) c.d = x; else c.v = (int)x;
        cmds.push_back(c);
    }
    return true;
}

static void child_main(const std::string& line, int outfd) {
    g_outfd = outfd;
    if (!parse_case(line)) { emit("BADCASE"); _exit(0); }
    log_output_level = ALOG_FATAL + 1;
    recs.reserve(4096); evs.reserve(4096);
    photon::set_photon_thread_stack_allocator({&rec_alloc, nullptr}, {&rec_dealloc, nullptr});
    photon::photon_verif_clock = clock_cb;
    photon::photon_verif_idle = idle_cb;
    photon::photon_verif_c05_yield_window = yield_window_cb;
    photon::photon_verif_ls_cb = ls_cb;
    sem_init(&sem_done, 0, 0);
    for (int v = 0; v < NV; v++) sem_init(&sem_v[v], 0, 0);
    int limit = getenv("E4_STEP_TIMEOUT_S") ? atoi(getenv("E4_STEP_TIMEOUT_S")) : 30;
    install_fatal_handlers();
    for (int v = 0; v < NV; v++) {          // one after the other: the pvcpu list order is the index order
        pthread_t th;
        pthread_attr_t at; pthread_attr_init(&at); pthread_attr_setstacksize(&at, 1 << 20);
        if (pthread_create(&th, &at, os_main, (void*)(intptr_t)v) != 0) { emit("INITFAIL"); _exit(0); }
        if (!wait_done(limit)) { emit("HANG init"); _exit(0); }
    }
    std::string& out = g_out;
    out.reserve(1 << 16);
    out = "init " + dump();
    for (auto& c : cmds) {
        evs.clear(); notes.clear();
        g_cmd = c.text.c_str();
        if (c.k == TICK) {
            uint64_t n = vclock + c.d; if (n < vclock) n = (uint64_t)-1;
            vclock = n; photon::__update_now();
        } else if (c.v < NV) {
            cur_cmd = c;
            sem_post(&sem_v[c.v]);
            if (!wait_done(limit)) { emit("HANG " + out + " ;; " + c.text); _exit(0); }
        }
        std::string seg = " ;; " + c.text + " ev=" + events() + " " + dump();
        out += seg;
        std::string bad = current_sane();
        if (!bad.empty()) { std::replace(bad.begin(), bad.end(), ' ', '_'); emit("ABORT(" + bad + ") " + out); _exit(0); }
    }
    emit(out);
    _exit(0);
}

static std::string run_once(const std::string& line, int timeout_ms) {
    int fds[2];
    if (pipe(fds) < 0) return "PIPEFAIL";
    fflush(stdout);
    pid_t pid = fork();
    if (pid == 0) {
        close(fds[0]);
        struct rlimit rl = {4, 6};       // a case needs ~20 ms of CPU; a spinning one is cut here (load-independent)
        setrlimit(RLIMIT_CPU, &rl);
        child_main(line, fds[1]); _exit(0);
    }
    close(fds[1]);
    std::string out; char buf[65536];
    bool hang = false;
    while (true) {
        struct pollfd p = {fds[0], POLLIN, 0};
        int r = poll(&p, 1, timeout_ms);
        if (r == 0) { hang = true; kill(pid, SIGKILL); break; }
        if (r < 0) { if (errno == EINTR) continue; break; }
        ssize_t n = read(fds[0], buf, sizeof buf);
        if (n <= 0) break;
        out.append(buf, n);
    }
    close(fds[0]);
    int status = 0; waitpid(pid, &status, 0);
    while (!out.empty() && (out.back() == '\n' || out.back() == '\r')) out.pop_back();
    if (hang) return "HANG " + out;
    if (WIFSIGNALED(status) && (WTERMSIG(status) == SIGXCPU || WTERMSIG(status) == SIGKILL)) return "HANG(cpu) " + out;
    if (WIFSIGNALED(status)) return "CRASH(sig" + std::to_string(WTERMSIG(status)) + ") " + out;
    if (out.empty()) return "NOOUTPUT(exit" + std::to_string(WEXITSTATUS(status)) + ")";
    return out;
}
}  // namespace e4

int main(int argc, char** argv) {
    if (argc < 2) { fprintf(stderr, "usage: %s <casefile>\n", argv[0]); return 2; }
    int timeout_ms = getenv("E4_TIMEOUT_MS") ? atoi(getenv("E4_TIMEOUT_MS")) : 300000;
    int twice_pct = getenv("E4_TWICE_PCT") ? atoi(getenv("E4_TWICE_PCT")) : 10;
    std::ifstream in(argv[1]);
    std::string line;
    while (std::getline(in, line)) {
        if (line.empty() || line[0] == '#') continue;
        if (line[0] != 'M') { printf("BADCASE\n"); fflush(stdout); continue; }
        std::string a = e4::run_once(line, timeout_ms);
        if ((int)(std::hash<std::string>()(line) % 100) < twice_pct) {      // determinism check on a sample
            std::string b = e4::run_once(line, timeout_ms);
            if (a != b) a = "NONDET first{" + a + "} second{" + b + "}";
        }
        printf("%s\n", a.c_str());
        fflush(stdout);
    }
    return 0;
}
