// stress.cpp — multi-vCPU stress of the REAL scheduler: SEARCH ORACLE for C05 (non-deterministic,
// real time: only schedule-independent facts are asserted, with generous limits).
//   stress M <seconds> <seed>   migration (self + other), cross-vCPU interrupt, cross-vCPU join; stealing OFF
//   stress S <seconds> <seed>   work stealing ON (1 passive victim, active thieves); stealable threads sleep, never yield
//   stress J <seconds> <seed>   confirmation of finding F24 (ThreadPoolBase::join ended by an interrupt of the joiner)
//   stress Y <seconds> <seed>   confirmation of finding F23 (needs the guarded hook of
//                               repo_patches/C05-hook-yield-window.diff; prints F23-SKIPPED without it)
// Asserted: every entry function runs exactly once; a thread is never inside its entry on two vCPUs
// at once (marker); thread_join returns the entry's value; non-joinable stacks are handed back
// exactly once and joinable ones exactly once and not before the join (recording allocator);
// every vCPU's thread count is back to 2 at quiescence.  Prints STRESS-OK ... or STRESS-FAIL ....
#include <photon/thread/thread.h>
#include <photon/thread/stack-allocator.h>
#include <photon/thread/thread-pool.h>
#include <photon/common/alog.h>
#include <atomic>
#include <thread>
#include <vector>
#include <mutex>
#include <map>
#include <chrono>
#include <cstdio>
#include <cstdlib>
#include <cstring>
#include <dlfcn.h>
#include <unistd.h>
#include <pthread.h>
#include <signal.h>
#include <sys/mman.h>

using namespace photon;
typedef std::chrono::steady_clock Clock;

static const int MAXV = 8;
static vcpu_base* g_vcpu[MAXV];
static std::atomic<int> g_nv{0};
static int vcpu_index(vcpu_base* v) { for (int i = 0; i < g_nv.load(); i++) if (g_vcpu[i] == v) return i; return -2; }
static uint32_t nthreads_of(vcpu_base* v) { return (uint32_t)get_info(INFO_THREAD_NUM, v); }

// ---- recording stack allocator (thread safe) ---------------------------------------------
struct StackRec { size_t size; int freed; };
static std::mutex g_amx;
static std::map<char*, StackRec> g_stacks;
static std::atomic<long> g_alloc{0}, g_free{0}, g_badfree{0};
static void* rec_alloc(void*, size_t size) {
    void* p = mmap(nullptr, size, PROT_READ | PROT_WRITE, MAP_PRIVATE | MAP_ANONYMOUS, -1, 0);
    if (p == MAP_FAILED) return nullptr;
    std::lock_guard<std::mutex> g(g_amx);
    g_stacks[(char*)p] = StackRec{size, 0}; g_alloc++;
    return p;
}
static void rec_dealloc(void*, void* ptr, size_t size) {
    {
        std::lock_guard<std::mutex> g(g_amx);
        auto it = g_stacks.find((char*)ptr);
        if (it == g_stacks.end() || it->second.freed) g_badfree++; else it->second.freed = 1;
        g_free++;
    }
    mprotect(ptr, size, PROT_NONE);          // never reused: a later touch of a released stack is a SIGSEGV
}
static int freed_of(thread* th) {
    std::lock_guard<std::mutex> g(g_amx);
    auto it = g_stacks.upper_bound((char*)th);
    if (it == g_stacks.begin()) return -1;
    --it;
    if ((char*)th >= it->first + it->second.size) return -1;
    return it->second.freed;
}

// ---- workers ---------------------------------------------------------------------------------
struct Rec {
    std::atomic<int> runs{0}, on{-1}, conflicts{0}, done{0};
    int id = 0; char mode = 'M'; uint32_t rnd = 1; bool joinable = true;
    thread* th = nullptr;
};
static std::atomic<long> g_fail{0};
static char g_failmsg[512];
static void fail(const char* fmt, long a = 0, long b = 0, long c = 0) {
    if (g_fail.fetch_add(1) == 0) snprintf(g_failmsg, sizeof g_failmsg, fmt, a, b, c);
}
static uint32_t xr(uint32_t& s) { s ^= s << 13; s ^= s >> 17; s ^= s << 5; return s; }

static void seg_enter(Rec* r) {
    int me = vcpu_index(get_vcpu());
    int exp = -1;
    if (!r->on.compare_exchange_strong(exp, me)) { r->conflicts++; fail("thread %ld inside its entry on vCPU %ld and %ld at once", r->id, exp, me); }
}
static void seg_leave(Rec* r) { r->on.store(-1); }

static void* worker(void* arg) {
    Rec* r = (Rec*)arg;
    if (r->runs.fetch_add(1) != 0) fail("entry of thread %ld started %ld times", r->id, r->runs.load());
    seg_enter(r);
    int steps = 1 + xr(r->rnd) % 4;
    for (int i = 0; i < steps; i++) {
        uint32_t c = xr(r->rnd) % 8;
        seg_leave(r);
        if (r->mode == 'M') {
            if (c < 3) thread_usleep(50 + xr(r->rnd) % 400);
            else if (c < 5) thread_yield();
            else thread_migrate(CURRENT, g_vcpu[xr(r->rnd) % g_nv.load()]);       // self migration
        } else {
            thread_usleep(50 + xr(r->rnd) % 400);                                  // stealable threads never yield
        }
        seg_enter(r);
    }
    seg_leave(r);
    r->done.store(1, std::memory_order_release);
    return (void*)(intptr_t)(1000 + r->id);
}

static std::atomic<bool> g_stop{false};
static void aux_vcpu(int idx, uint64_t flags) {
    vcpu_init(flags);
    g_vcpu[idx] = get_vcpu();
    g_nv.fetch_add(1);
    while (!g_stop.load(std::memory_order_acquire)) thread_usleep(1000);
    // let migrated / stolen threads finish here before vcpu_fini's wait_all
    vcpu_fini();
}

static int run_ms(char mode, int seconds, uint32_t seed) {
    const int NV = mode == 'M' ? 3 : 4;
    uint64_t f0 = mode == 'S' ? VCPU_ENABLE_PASSIVE_WORK_STEALING : 0;
    uint64_t fx = mode == 'S' ? VCPU_ENABLE_ACTIVE_WORK_STEALING : 0;
    vcpu_init(f0);
    g_vcpu[0] = get_vcpu(); g_nv.fetch_add(1);
    std::vector<std::thread> os;
    for (int i = 1; i < NV; i++) os.emplace_back(aux_vcpu, i, fx);
    while (g_nv.load() < NV) ::usleep(200);
    auto t_end = Clock::now() + std::chrono::seconds(seconds);
    long total = 0, joined = 0, rounds = 0, stolen_or_moved = 0;
    uint32_t rnd = seed * 2654435761u + 12345;
    while (Clock::now() < t_end && !g_fail.load()) {
        const int N = 6 + xr(rnd) % 10;
        std::vector<Rec> recs(N);
        for (int i = 0; i < N; i++) {
            Rec& r = recs[i];
            r.id = (int)(total + i); r.mode = mode; r.rnd = xr(rnd) | 1; r.joinable = xr(rnd) % 4 != 0;
            uint64_t flags = (r.joinable ? THREAD_JOINABLE : 0) | ((mode == 'S' && xr(rnd) % 5 != 0) ? THREAD_ENABLE_WORK_STEALING : 0);
            r.th = thread_create(&worker, &r, 64 * 1024, 0, flags);
            if (!r.th) { fail("thread_create failed"); break; }
            if (mode == 'M' && xr(rnd) % 3 == 0) thread_migrate(r.th, g_vcpu[1 + xr(rnd) % (NV - 1)]);   // READY thread to another vCPU
        }
        // let them run; meanwhile interrupt sleepers wherever they are (only joinable ones: their struct
        // stays valid until we join them)
        for (int k = 0; k < 6; k++) {
            if (mode == 'S' && (xr(rnd) & 1)) ::usleep(300);        // block the OS thread: READY threads stay stealable
            else thread_usleep(200);
            for (int i = 0; i < N; i++)
                if (recs[i].joinable && !recs[i].done.load() && xr(rnd) % 3 == 0) thread_interrupt(recs[i].th, EINTR);
        }
        for (int i = 0; i < N; i++) {
            Rec& r = recs[i];
            if (r.joinable) {
                if (freed_of(r.th) != 0) fail("stack of joinable thread %ld released before thread_join", r.id);
                void* rv = thread_join((join_handle*)r.th);
                if ((intptr_t)rv != 1000 + r.id) fail("thread_join(%ld) returned %ld", r.id, (long)(intptr_t)rv);
                if (!r.done.load()) fail("thread_join(%ld) returned before the entry function returned", r.id);
                if (freed_of(r.th) != 1) fail("stack of thread %ld released %ld times by thread_join", r.id, freed_of(r.th));
                joined++;
            }
        }
        auto lim = Clock::now() + std::chrono::seconds(30);
        for (int i = 0; i < N; i++) {
            while (!recs[i].done.load(std::memory_order_acquire) && Clock::now() < lim) thread_usleep(500);
            if (!recs[i].done.load()) fail("thread %ld never finished (lost)", recs[i].id);
            if (recs[i].runs.load() != 1) fail("entry of thread %ld ran %ld times", recs[i].id, recs[i].runs.load());
        }
        // non-joinable stacks are released on the next thread's stack right after the thread died
        for (int i = 0; i < N && !g_fail.load(); i++) {
            if (recs[i].joinable) continue;
            while (freed_of(recs[i].th) == 0 && Clock::now() < lim) thread_usleep(500);
            if (freed_of(recs[i].th) != 1) fail("stack of non-joinable thread %ld released %ld times", recs[i].id, freed_of(recs[i].th));
        }
        // quiescence: all created threads are done -> every vCPU is back to main + idler
        bool ok = false;
        while (Clock::now() < lim) {
            ok = true;
            for (int v = 0; v < NV; v++) if (nthreads_of(g_vcpu[v]) != 2) ok = false;
            if (ok) break;
            thread_usleep(500);
        }
        if (!ok) fail("thread counts not restored: vCPU0=%ld vCPU1=%ld vCPU2=%ld", nthreads_of(g_vcpu[0]), nthreads_of(g_vcpu[1]), nthreads_of(g_vcpu[2]));
        total += N; rounds++;
    }
    g_stop.store(true, std::memory_order_release);
    for (auto& t : os) t.join();
    if (g_badfree.load()) fail("stack allocator: %ld double/unknown releases", g_badfree.load());
    if (!g_fail.load() && g_alloc.load() - g_free.load() != 1 + 0)      // own idler is released by vcpu_fini below
        ;                                                                // (aux idlers were released by their vcpu_fini)
    vcpu_fini();
    if (!g_fail.load() && g_alloc.load() != g_free.load()) fail("stacks allocated %ld, released %ld", g_alloc.load(), g_free.load());
    if (g_fail.load()) { printf("STRESS-FAIL mode=%c after %ld threads: %s\n", mode, total, g_failmsg); return 1; }
    printf("STRESS-OK mode=%c threads=%ld joined=%ld rounds=%ld vcpus=%d stacks=%ld\n", mode, total, joined, rounds, NV, g_alloc.load());
    return 0;
}

// ---- F23 confirmation ------------------------------------------------------------------------
// hook (guard PHOTON_VERIF, repo_patches/C05-hook-yield-window.diff): called by thread_yield() after the
// run-queue lock has been released (AtomicRunQ destroyed) and before switch_context saves the context of
// the yielding thread.  The callback "pre-empts" the victim's OS thread there for 300 ms.
static Rec g_yrec;
static std::atomic<int> g_arm{0}, g_window{0};
static pthread_t g_victim;
static void f20_report(const char* how) {
    char m[320];
    snprintf(m, sizeof m, "F23-CONFIRMED %s: the yielding thread was taken by vCPU %d between thread_yield's run-queue "
             "unlock and its context save, while vCPU 0 was still executing on its stack\n", how, vcpu_index(get_vcpu(g_yrec.th)));
    (void)!write(1, m, strlen(m));
    _exit(0);
}
static void yield_window_cb() {
    if (!pthread_equal(pthread_self(), g_victim)) return;      // only the victim vCPU's OS thread is "pre-empted"
    if (g_arm.exchange(0) == 0) return;
    g_window.fetch_add(1);
    for (int i = 0; i < 3000; i++) {                            // the OS thread is descheduled here for up to 300 ms
        if (get_vcpu(g_yrec.th) != g_vcpu[0]) f20_report("stolen inside the window");
        ::usleep(100);
    }
}
// the thief resumes the stolen thread from its stale saved context on the stack vCPU 0 is still using:
// whichever of the two OS threads trips first ends up here
static void crash_handler(int sig) {
    if (g_window.load() > 0 && g_yrec.th && get_vcpu(g_yrec.th) != g_vcpu[0]) f20_report(sig == SIGSEGV ? "SIGSEGV after the steal" : "fatal signal after the steal");
    const char* m = "F23-UNRELATED-CRASH\n"; (void)!write(1, m, strlen(m));
    _exit(3);
}
static void* yworker(void*) {
    Rec* r = &g_yrec;                 // (the stub zeroes thread::arg at the first start)
    int n = r->runs.fetch_add(1) + 1;
    if (n >= 2) {
        // second incarnation of the same entry, started by the thief from the stale (initial) context
        char m[256];
        snprintf(m, sizeof m, "F23-CONFIRMED entry function of one thread started %d times (second start on vCPU %d): "
                 "stolen between thread_yield's run-queue unlock and its context save\n", n, vcpu_index(get_vcpu()));
        (void)!write(1, m, strlen(m));
        _exit(0);
    }
    thread_pause_work_stealing(false);     // from now on a thief may take this thread when it is READY
    g_arm.store(1);
    thread_yield();                        // first switch-out ever: the saved context is still the initial frame
    r->done.store(1);
    return nullptr;
}
static int run_y(int seconds) {
    typedef void (*cb_t)();
    cb_t* slot = (cb_t*)dlsym(RTLD_DEFAULT, "photon_verif_c05_yield_window");
    if (!slot) { printf("F23-SKIPPED the library has no photon_verif_c05_yield_window hook\n"); return 0; }
    g_victim = pthread_self();
    {   // fatal-signal handler on an alternate stack, for every thread of the process
        static char alt[1 << 16];
        stack_t ss; ss.ss_sp = alt; ss.ss_size = sizeof alt; ss.ss_flags = 0; sigaltstack(&ss, nullptr);
        struct sigaction sa; memset(&sa, 0, sizeof sa); sa.sa_handler = crash_handler; sa.sa_flags = SA_ONSTACK;
        sigaction(SIGSEGV, &sa, nullptr); sigaction(SIGBUS, &sa, nullptr); sigaction(SIGILL, &sa, nullptr);
    }
    *slot = &yield_window_cb;
    vcpu_init(VCPU_ENABLE_PASSIVE_WORK_STEALING);
    g_vcpu[0] = get_vcpu(); g_nv.fetch_add(1);
    std::thread thief(aux_vcpu, 1, (uint64_t)VCPU_ENABLE_ACTIVE_WORK_STEALING);
    while (g_nv.load() < 2) ::usleep(200);
    g_yrec.th = thread_create(&yworker, nullptr, 64 * 1024, 0, THREAD_JOINABLE | THREAD_ENABLE_WORK_STEALING);
    thread_pause_work_stealing(true, g_yrec.th);     // it must START on this vCPU
    auto lim = Clock::now() + std::chrono::seconds(seconds > 0 ? seconds : 3);
    while (!g_yrec.done.load() && Clock::now() < lim) thread_yield();
    printf("F23-NOT-REPRODUCED window_hits=%d runs=%d\n", g_window.load(), g_yrec.runs.load());
    fflush(stdout);
    _exit(0);
}

// ---- F24 confirmation: is ThreadPoolBase::join interrupt-safe? ----------------------------------
// one vCPU; margins of 10 ms / 200 ms / 1 s make the outcome independent of timing
static std::atomic<int> j_work_done{0}, j_join_returned{0}, j_joined_early{0};
static void* j_work(void*) { thread_usleep(200 * 1000); j_work_done.store(1); return nullptr; }
struct JArg { ThreadPoolBase* pool; TPControl* ctrl; };
static void* j_joiner(void* a_) {
    auto a = (JArg*)a_;
    a->pool->join(a->ctrl);
    if (!j_work_done.load()) j_joined_early.store(1);
    j_join_returned.store(1);
    return nullptr;
}
static int run_j() {
    vcpu_init();
    auto pool = new_thread_pool(4, 256 * 1024);
    auto ctrl = pool->thread_create_ex(&j_work, nullptr, true);
    JArg a{pool, ctrl};
    auto j = thread_create(&j_joiner, &a, 256 * 1024);
    thread_usleep(10 * 1000);                 // the joiner is blocked inside pool->join()
    thread_interrupt(j, EINTR);               // an unrelated interrupt of the JOINING thread
    for (int i = 0; i < 1000 && !j_join_returned.load(); i++) thread_usleep(1000);
    if (j_joined_early.load())
        printf("F24-CONFIRMED ThreadPoolBase::join returned before the pooled entry function returned (joiner interrupted)\n");
    else
        printf("F24-NOT-REPRODUCED join_returned=%d\n", j_join_returned.load());
    fflush(stdout);
    _exit(0);
}

int main(int argc, char** argv) {
    if (argc < 4) { fprintf(stderr, "usage: stress M|S|Y|J <seconds> <seed>\n"); return 2; }
    log_output_level = ALOG_FATAL + 1;
    set_photon_thread_stack_allocator({&rec_alloc, nullptr}, {&rec_dealloc, nullptr});
    char mode = argv[1][0]; int secs = atoi(argv[2]); uint32_t seed = (uint32_t)atoll(argv[3]);
    if (mode == 'Y') return run_y(secs);
    if (mode == 'J') return run_j();
    return run_ms(mode, secs, seed);
}
