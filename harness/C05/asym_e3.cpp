// asym_e3.cpp — engine E3 on the REAL photon::asymmetric_spinLock (thread/thread.cpp 489-534).
// Case line:  A <n> <rounds> <bound> [<schedule>]     n participants: 0 = the owner vCPU
// (foreground_lock/unlock, `rounds` times), 1..n-1 = stealers (background_try_lock, and
// background_unlock when it returned true, `rounds` times).  Output (one line):
//   livelock=<0|1> steps=<k> digest=<fnv> log=<p.kind.addr.values ...> maxin=<max occupancy>
// The model (coq/C05/C05_Asym.v, asym_e3) prints the same line without `maxin`.
#define C05_INSTRUMENT
#include "../E3/e3.h"
#include "repo_thread_cpp.h"
#include <fstream>
#include <sstream>
#include <iostream>

struct Box { photon::asymmetric_spinLock l; int inside = 0, maxin = 0; };

static void enter(Box* b) { b->inside++; if (b->inside > b->maxin) b->maxin = b->inside; }
static void leave(Box* b) { b->inside--; }

int main(int argc, char** argv) {
    if (argc < 2) return 2;
    std::ifstream in(argv[1]);
    std::string line;
    while (std::getline(in, line)) {
        if (line.empty() || line[0] == '#') continue;
        std::istringstream is(line);
        std::string tag, sched; int n = 0, rounds = 0, bound = 0;
        is >> tag >> n >> rounds >> bound; is >> sched;
        if (tag != "A" || n < 1 || n > 8 || rounds < 0 || bound <= 0) { printf("BADCASE\n"); fflush(stdout); continue; }
        Box* b = new Box();                         // leaked on livelock (abandoned participants still use it)
        e3::clear_names();
        e3::name((char*)&b->l + 0, "fg");           // foreground_locked
        e3::name((char*)&b->l + 1, "bg");           // background_locked
        auto o = e3::run(n, e3::parse_schedule(sched), bound, [b, rounds](int p) {
            if (p == 0) {
                for (int r = 0; r < rounds; r++) {
                    b->l.foreground_lock(); enter(b); leave(b); b->l.foreground_unlock();
                }
            } else {
                for (int r = 0; r < rounds; r++) {
                    if (b->l.background_try_lock()) { enter(b); leave(b); b->l.background_unlock(); }
                }
            }
        });
        // occupancy is recomputed by the checker from the log; `inside` here brackets no point,
        // so it is the checker's reconstruction that decides (see checks/C05.py)
        printf("livelock=%d steps=%d digest=%" PRIu64 " log=%s%s\n", o.livelock ? 1 : 0, o.steps(), e3::digest(o.log),
               e3::join(o.log, " ").c_str(), o.error.empty() ? "" : (" E3ERROR=" + o.error).c_str());
        fflush(stdout);
        if (!o.livelock) delete b;
    }
    return 0;
}
