// C16 implementation harness: the file adaptors of /repo's current working tree
// (fs/aligned-file.cpp, fs/xfile.cpp, fs/virtual-file.cpp — compiled into this
// executable with ASan) stacked on a recording in-memory IFile.
// One output line per case, same format as ocaml/C16_run.ml.
//
// Case line (tokens separated by one space):
//   A  <alignment> <align_memory> <hex>            <op>...      AlignedFileAdaptor
//   LF <unit> <n>  <hex,hex,...>                   <op>...      new_fixed_size_linear_file
//   LV <n>         <hex,hex,...>                   <op>...      new_linear_file
//   ST <stripe> <n> <hex,hex,...>                  <op>...      new_stripe_file
// (an empty file is written `-`).  Ops:
//   R:<off>:<mis>:<len>          pread into a buffer at address = 4096-aligned base + mis
//   W:<off>:<mis>:<hex>          pwrite
//   RV:<off>:<mis>/<len>,...     preadv  (one iovec element per item)
//   WV:<off>:<mis>/<hex>,...     pwritev
//   F                            fstat  -> st_size
//   T:<len>                      ftruncate
// Output:  init=<ok|NULL>[trace] then per op ` ; <ret>,<errno>,<buffers>,[trace],<files|=>`
// and finally ` ; final=<files>`.  A trace entry is file.OP.offset.length.mem where mem is
// 1/0 = every buffer address (and, for vectored calls, every element length) is/is not a
// multiple of the alignment — printed only for the aligned adaptor with align_memory, else `-`.
#include <cstdio>
#include <cstdlib>
#include <cstring>
#include <cerrno>
#include <cinttypes>
#include <string>
#include <vector>
#include <sstream>
#include <fstream>
#include <iostream>
#include <sys/stat.h>
#include <sys/uio.h>
#include <fcntl.h>
#include <unistd.h>
#include <photon/common/alog.h>
#include <photon/fs/filesystem.h>
#include <photon/fs/aligned-file.h>
#include <photon/fs/xfile.h>
using namespace photon::fs;

static uint64_t g_align = 0;        // alignment against which buffer addresses are classified
static bool g_show_mem = false;
static std::string g_trace;

static void tr(int fi, const char* op, int64_t off, uint64_t len, int mem) {
    char b[160];
    if (!g_trace.empty()) g_trace += ",";
    if (g_show_mem && mem >= 0) snprintf(b, sizeof b, "%d.%s.%" PRId64 ".%" PRIu64 ".%d", fi, op, off, len, mem);
    else snprintf(b, sizeof b, "%d.%s.%" PRId64 ".%" PRIu64 ".-", fi, op, off, len);
    g_trace += b;
}
static int mem_ok(const void* p) { return g_align ? (((uint64_t)p % g_align) == 0) : 1; }
static int iov_ok(const struct iovec* iov, int n) {
    if (!g_align) return 1;
    for (int i = 0; i < n; i++)
        if (((uint64_t)iov[i].iov_base % g_align) || (iov[i].iov_len % g_align)) return 0;
    return 1;
}

// a well-behaved plain file in memory: no short I/O other than at EOF
class MemFile : public IFile {
public:
    int idx;
    std::vector<unsigned char> d;
    off_t pos = 0;
    MemFile(int idx) : idx(idx) {}
    ssize_t rd(void* buf, size_t count, off_t offset) {
        if (offset < 0) { errno = EINVAL; return -1; }
        if ((uint64_t)offset >= d.size()) return 0;
        size_t n = std::min<size_t>(count, d.size() - offset);
        if (n) memcpy(buf, d.data() + offset, n);
        return n;
    }
    ssize_t wr(const void* buf, size_t count, off_t offset) {
        if (offset < 0) { errno = EINVAL; return -1; }
        if (count == 0) return 0;
        if (offset + count > d.size()) d.resize(offset + count, 0);
        memcpy(d.data() + offset, buf, count);
        return count;
    }
    virtual ssize_t pread(void* buf, size_t count, off_t offset) override {
        tr(idx, "pread", offset, count, mem_ok(buf));
        return rd(buf, count, offset);
    }
    virtual ssize_t pwrite(const void* buf, size_t count, off_t offset) override {
        tr(idx, "pwrite", offset, count, mem_ok(buf));
        return wr(buf, count, offset);
    }
    virtual ssize_t preadv(const struct iovec* iov, int iovcnt, off_t offset) override {
        size_t sum = 0; for (int i = 0; i < iovcnt; i++) sum += iov[i].iov_len;
        tr(idx, "preadv", offset, sum, iov_ok(iov, iovcnt));
        ssize_t total = 0;
        for (int i = 0; i < iovcnt; i++) {
            ssize_t r = rd(iov[i].iov_base, iov[i].iov_len, offset + total);
            if (r < 0) return -1;
            total += r;
            if ((size_t)r < iov[i].iov_len) break;
        }
        return total;
    }
    virtual ssize_t pwritev(const struct iovec* iov, int iovcnt, off_t offset) override {
        size_t sum = 0; for (int i = 0; i < iovcnt; i++) sum += iov[i].iov_len;
        tr(idx, "pwritev", offset, sum, iov_ok(iov, iovcnt));
        ssize_t total = 0;
        for (int i = 0; i < iovcnt; i++) {
            ssize_t r = wr(iov[i].iov_base, iov[i].iov_len, offset + total);
            if (r < 0) return -1;
            total += r;
        }
        return total;
    }
    virtual int fstat(struct stat* buf) override {
        tr(idx, "fstat", 0, 0, -1);
        memset(buf, 0, sizeof *buf);
        buf->st_size = d.size();
        buf->st_mode = S_IFREG | 0644;
        return 0;
    }
    virtual int ftruncate(off_t length) override {
        tr(idx, "ftruncate", length, 0, -1);
        if (length < 0) { errno = EINVAL; return -1; }
        d.resize(length, 0);
        return 0;
    }
    virtual off_t lseek(off_t offset, int whence) override {
        if (whence == SEEK_SET) pos = offset; else if (whence == SEEK_CUR) pos += offset; else pos = d.size() + offset;
        return pos;
    }
    virtual ssize_t read(void* buf, size_t count) override { auto r = pread(buf, count, pos); if (r > 0) pos += r; return r; }
    virtual ssize_t write(const void* buf, size_t count) override { auto r = pwrite(buf, count, pos); if (r > 0) pos += r; return r; }
    virtual ssize_t readv(const struct iovec* iov, int iovcnt) override { auto r = preadv(iov, iovcnt, pos); if (r > 0) pos += r; return r; }
    virtual ssize_t writev(const struct iovec* iov, int iovcnt) override { auto r = pwritev(iov, iovcnt, pos); if (r > 0) pos += r; return r; }
    virtual IFileSystem* filesystem() override { return nullptr; }
    virtual int close() override { return 0; }
    virtual int fsync() override { return 0; }
    virtual int fdatasync() override { return 0; }
    virtual int fchmod(mode_t) override { return 0; }
    virtual int fchown(uid_t, gid_t) override { return 0; }
};

static int hexv(char c) { return c <= '9' ? c - '0' : (c | 32) - 'a' + 10; }
static std::vector<unsigned char> unhex(const std::string& s) {
    std::vector<unsigned char> v;
    if (s == "-") return v;
    for (size_t i = 0; i + 1 < s.size(); i += 2) v.push_back(hexv(s[i]) * 16 + hexv(s[i + 1]));
    return v;
}
static std::string hex(const unsigned char* p, size_t n) {
    static const char* H = "0123456789abcdef";
    if (n == 0) return "-";
    std::string s; s.reserve(2 * n);
    for (size_t i = 0; i < n; i++) { s += H[p[i] >> 4]; s += H[p[i] & 15]; }
    return s;
}
static std::vector<std::string> split(const std::string& s, char c) {
    std::vector<std::string> v; std::string cur;
    for (char ch : s) { if (ch == c) { v.push_back(cur); cur.clear(); } else cur += ch; }
    v.push_back(cur);
    return v;
}

// a user buffer of exactly `len` bytes at address (4096-aligned base) + mis; the allocation
// ends exactly at the buffer's end (ASan traps any overrun), the `mis` bytes before it are a canary
struct UBuf {
    unsigned char* base = nullptr; size_t mis = 0, len = 0;
    UBuf(size_t mis, size_t len) : mis(mis), len(len) {
        void* p = nullptr;
        if (posix_memalign(&p, 4096, mis + len + (mis + len == 0 ? 1 : 0))) abort();
        base = (unsigned char*)p;
        memset(base, 0xA5, mis);
        memset(base + mis, 0xCC, len);
    }
    UBuf(const UBuf&) = delete;
    UBuf(UBuf&& o) : base(o.base), mis(o.mis), len(o.len) { o.base = nullptr; }
    ~UBuf() { free(base); }
    unsigned char* ptr() { return base + mis; }
    bool canary_ok() const { for (size_t i = 0; i < mis; i++) if (base[i] != 0xA5) return false; return true; }
};

static std::string files_state(std::vector<MemFile*>& fs) {
    std::string s;
    for (size_t i = 0; i < fs.size(); i++) { if (i) s += ","; s += hex(fs[i]->d.data(), fs[i]->d.size()); }
    return s;
}

static void run_case(const std::string& line) {
    std::vector<std::string> tok = split(line, ' ');
    size_t k = 0;
    std::string kind = tok[k++];
    uint64_t p1 = 0, n = 1; bool am = false;
    if (kind == "A") { p1 = strtoull(tok[k++].c_str(), 0, 10); am = tok[k++] == "1"; }
    else if (kind == "LF" || kind == "ST") { p1 = strtoull(tok[k++].c_str(), 0, 10); n = strtoull(tok[k++].c_str(), 0, 10); }
    else if (kind == "LV") { n = strtoull(tok[k++].c_str(), 0, 10); }
    else { printf("BADCASE\n"); fflush(stdout); return; }
    std::vector<std::string> contents = split(tok[k++], ',');
    std::vector<MemFile*> fs;
    std::vector<IFile*> ifs;
    for (size_t i = 0; i < contents.size(); i++) {
        auto f = new MemFile((int)i); f->d = unhex(contents[i]); fs.push_back(f); ifs.push_back(f);
    }
    g_trace.clear();
    g_align = (kind == "A") ? p1 : 0;
    g_show_mem = (kind == "A") && am;
    IFile* ad = nullptr;
    if (kind == "A") ad = new_aligned_file_adaptor(ifs[0], (uint32_t)p1, am, false, nullptr);
    else if (kind == "LF") ad = new_fixed_size_linear_file(p1, ifs.data(), n, false);
    else if (kind == "LV") ad = new_linear_file(ifs.data(), n, false);
    else if (kind == "ST") ad = new_stripe_file(p1, ifs.data(), n, false);
    std::string out = std::string("init=") + (ad ? "ok" : "NULL") + "[" + g_trace + "]";
    if (ad) {
        for (; k < tok.size(); k++) {
            std::vector<std::string> f = split(tok[k], ':');
            const std::string& o = f[0];
            g_trace.clear();
            errno = 0;
            ssize_t ret = 0; int err = 0; std::string bufs = "-"; bool wrote = false;
            if (o == "R") {
                int64_t off = strtoll(f[1].c_str(), 0, 10);
                UBuf b(strtoull(f[2].c_str(), 0, 10), strtoull(f[3].c_str(), 0, 10));
                ret = ad->pread(b.ptr(), b.len, off); err = errno;
                bufs = hex(b.ptr(), b.len);
                if (!b.canary_ok()) bufs += "!UNDERRUN";
            } else if (o == "W") {
                int64_t off = strtoll(f[1].c_str(), 0, 10);
                auto data = unhex(f[3]);
                UBuf b(strtoull(f[2].c_str(), 0, 10), data.size());
                if (data.size()) memcpy(b.ptr(), data.data(), data.size());
                ret = ad->pwrite(b.ptr(), b.len, off); err = errno;
                bufs = (b.len == data.size() && (data.empty() || !memcmp(b.ptr(), data.data(), data.size())) && b.canary_ok()) ? "-" : "!SRC-MODIFIED";
                wrote = true;
            } else if (o == "RV" || o == "WV") {
                int64_t off = strtoll(f[1].c_str(), 0, 10);
                std::vector<UBuf> ub; std::vector<struct iovec> iov; std::vector<std::vector<unsigned char>> datas;
                std::vector<std::string> items = f.size() > 2 && !f[2].empty() ? split(f[2], ',') : std::vector<std::string>();
                ub.reserve(items.size());
                for (auto& it : items) {
                    auto ml = split(it, '/');
                    size_t mis = strtoull(ml[0].c_str(), 0, 10);
                    if (o == "RV") { ub.emplace_back(mis, strtoull(ml[1].c_str(), 0, 10)); }
                    else { auto d = unhex(ml[1]); ub.emplace_back(mis, d.size()); if (d.size()) memcpy(ub.back().ptr(), d.data(), d.size()); datas.push_back(d); }
                }
                for (auto& b : ub) iov.push_back({b.ptr(), b.len});
                std::vector<struct iovec> iov0 = iov;
                if (o == "RV") ret = ad->preadv(iov.data(), (int)iov.size(), off);
                else ret = ad->pwritev(iov.data(), (int)iov.size(), off);
                err = errno;
                bool iov_same = iov.size() == iov0.size();
                for (size_t i = 0; iov_same && i < iov.size(); i++) iov_same = iov[i].iov_base == iov0[i].iov_base && iov[i].iov_len == iov0[i].iov_len;
                if (o == "RV") {
                    bufs.clear();
                    for (size_t i = 0; i < ub.size(); i++) { if (i) bufs += "/"; bufs += hex(ub[i].ptr(), ub[i].len); if (!ub[i].canary_ok()) bufs += "!UNDERRUN"; }
                    if (ub.empty()) bufs = "-";
                } else {
                    bool same = true;
                    for (size_t i = 0; i < ub.size(); i++) same = same && ub[i].canary_ok() && (datas[i].empty() || !memcmp(ub[i].ptr(), datas[i].data(), datas[i].size()));
                    bufs = same ? "-" : "!SRC-MODIFIED";
                    wrote = true;
                }
                if (!iov_same) bufs += "!IOV-MODIFIED";
            } else if (o == "F") {
                struct stat st; memset(&st, 0, sizeof st);
                int r = ad->fstat(&st); err = errno;
                ret = r < 0 ? r : (ssize_t)st.st_size;
            } else if (o == "T") {
                ret = ad->ftruncate(strtoll(f[1].c_str(), 0, 10)); err = errno; wrote = true;
            } else { out += " ; BADOP"; continue; }
            char b[96];
            snprintf(b, sizeof b, " ; %zd,%d,", ret, ret < 0 ? err : 0);
            out += b; out += bufs; out += ",[" + g_trace + "],";
            out += wrote ? files_state(fs) : std::string("=");
        }
        g_trace.clear();
        delete ad;
    }
    out += " ; final=" + files_state(fs);
    for (auto f : fs) delete f;
    puts(out.c_str());
    fflush(stdout);
}

int main(int argc, char** argv) {
    log_output_level = ALOG_FATAL + 1;
    std::ifstream in(argv[1]); std::string line;
    while (std::getline(in, line)) {
        if (line.empty() || line[0] == '#') continue;
        run_case(line);
    }
    return 0;
}
