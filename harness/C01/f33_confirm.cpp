// f33_confirm.cpp — confirmation of finding F33 on the REAL library (2 OS threads).
// thread_interrupt's branch for a target that is not SLEEPING (thread.cpp `out:`) tests
// `state == READY && error_number == 0` and then stores error_number, with no lock.  The guarded hook
// `photon_verif_intr_window` (repo_patches/C01-hook-interrupt-window.diff) is called between the test
// and the store; this harness parks the interrupting OS thread there, lets the target call
// mutex::lock(), sleep in the queue and be handed the mutex by unlock() (owner = target,
// error_number = -1), and then releases the interrupter.
// Prints ONE line:  F33 hook=<0|1> lock_ret=<r> errno=<e> owner_is_self=<0|1> [CONFIRMED|not-reproduced]
// Deterministic: every hand-over between the two OS threads is an explicit flag; no timing assumption.
#include <atomic>
#include <cassert>
#include <cerrno>
#include <chrono>
#include <cstdio>
#include <thread>
#include <type_traits>
#include <dlfcn.h>
#include <unistd.h>
#include <emmintrin.h>
#include <photon/common/callback.h>
#include <photon/common/timeout.h>
#include <photon/thread/stack-allocator.h>
#define protected public
#define private public
#include <photon/thread/thread.h>
#undef protected
#undef private
#include <photon/common/alog.h>

static std::atomic<int> in_window{0}, release_it{0}, intr_done{0};
static void window_cb(void*) {
    in_window.store(1);
    while (!release_it.load()) std::this_thread::yield();
}
static photon::mutex* M;
static int w_ret = 99, w_errno = 0, w_owner_self = -1, w_done = 0;
static void* waiter(void*) {
    int r = M->lock();                              // no timeout
    w_ret = r; w_errno = errno;
    w_owner_self = (M->owner.load() == photon::CURRENT) ? 1 : 0;
    w_done = 1;
    return nullptr;
}
int main() {
    log_output_level = ALOG_FATAL + 1;
    auto hook = (void (**)(void*))dlsym(RTLD_DEFAULT, "photon_verif_intr_window");
    if (!hook) { printf("F33 hook=0 (tree without repo_patches/C01-hook-interrupt-window.diff: confirmation skipped)\n"); return 0; }
    *hook = window_cb;
    if (photon::vcpu_init() < 0) { printf("F33 hook=1 INITFAIL\n"); return 0; }
    M = new photon::mutex(0);                       // retries = 0 (seq_mutex behaviour)
    M->lock();                                      // A (this photon thread) holds the mutex
    auto W = photon::thread_create(&waiter, nullptr);   // W: READY, error_number == 0, has not run yet
    std::thread I([W] {                             // another OS thread (no photon context needed for this branch)
        photon::thread_interrupt(W, EINTR);         // reads READY / 0, parks in the window
        intr_done.store(1);
    });
    while (!in_window.load()) std::this_thread::yield();    // A does not switch: W stays READY
    photon::thread_yield();                         // W runs: lock() -> CAS fails -> sleeps in the queue
    M->unlock();                                    // hand-off: owner = W, W.error_number = -1, W READY
    release_it.store(1);                            // the interrupter's late store
    while (!intr_done.load()) std::this_thread::yield();
    I.join();
    for (int k = 0; k < 100 && !w_done; k++) photon::thread_yield();   // W: lock() returns
    bool confirmed = w_done && w_ret == -1 && w_owner_self == 1;
    printf("F33 hook=1 lock_ret=%d errno=%d owner_is_self=%d %s\n", w_ret, w_errno, w_owner_self,
           confirmed ? "CONFIRMED: lock() failed although owner == CURRENT (mutex stuck)" : "not-reproduced");
    fflush(stdout);
    _exit(0);
}
