// ops_mutex.cpp — C01: photon::mutex / seq_mutex / recursive_mutex in the E2 op language
// (model: coq/C01/C01_Model.v run through coq/C01/C01_Coop.v).
//   decls:  mutex <retries> <contending>     photon::mutex(retries, contending)
//           seq_mutex                        photon::seq_mutex
//           rmutex <retries> <contending>    photon::recursive_mutex(retries, contending)
//   ops:    lock i t | try_lock i | unlock i          on mutex / seq_mutex objects
//           rlock i t | rtry_lock i | runlock i       on rmutex objects
//           musleep t | myield | minterrupt k e       the scheduler calls, routed through the
//                                                     fine-grained model on the model side
// Client discipline (same rule in C01_Model.start): an op on an object of the wrong class, and
// lock/try_lock of a plain mutex by the thread that holds it, are not executed (-2/0).
// After every successful lock the harness-side OCCUPANCY counter of the object is checked: a second
// thread inside makes the op report ret = 7777 (+ occupancy), which no model run can produce.
#include "e2.h"                              // system headers first
#include <atomic>
#include <cassert>
#include <cerrno>
#include <chrono>
#include <map>
#include <type_traits>
#include <emmintrin.h>
#include <photon/common/callback.h>
#include <photon/common/timeout.h>
#include <photon/thread/stack-allocator.h>
#define protected public                     // seq_mutex / recursive_mutex derive PROTECTEDLY from mutex
#define private public
#include <photon/thread/thread.h>
#undef protected
#undef private
using namespace e2;

namespace {
struct MObj {
    int kind;                       // 0 mutex, 1 seq_mutex, 2 recursive
    photon::mutex* m = nullptr;     // kinds 0,1 (seq_mutex derives protectedly from mutex)
    photon::recursive_mutex* r = nullptr;
    photon::seq_mutex* sq = nullptr;
    std::map<int, int> depth;       // harness-side: successes not yet unlocked, per thread
    int inside() const { int n = 0; for (auto& kv : depth) if (kv.second > 0) n++; return n; }
};

MObj* get(Ctx& c, int64_t i, bool rec) {
    if (!(c.env.obj_is(i, "mutex") || c.env.obj_is(i, "seq_mutex") || c.env.obj_is(i, "rmutex"))) return nullptr;
    auto o = c.env.obj<MObj>(i);
    if ((o->kind == 2) != rec) return nullptr;
    return o;
}
Result after_lock(Ctx& c, MObj* o, int r, bool is_try) {
    if (r == 0) {
        o->depth[c.self]++;
        if (o->inside() > 1) return RV(7777 + o->inside());
        return RV(0);
    }
    return is_try ? RV(r, 0) : R(r);
}
}

E2_DECL(mutex)     { auto o = new MObj; o->kind = 0; o->m = new photon::mutex((uint16_t)d.a(0, 100), d.a(1, 0) != 0); return o; }
E2_DECL(seq_mutex) { auto o = new MObj; o->kind = 1; o->sq = new photon::seq_mutex; o->m = o->sq; return o; }
E2_DECL(rmutex)    { auto o = new MObj; o->kind = 2; o->r = new photon::recursive_mutex((uint16_t)d.a(0, 100), d.a(1, 0) != 0); return o; }

E2_OP(lock) {
    auto o = get(c, op.a(0), false);
    if (!o || o->depth[c.self] > 0) return RV(SKIPPED);
    int r = o->m->lock(photon::Timeout(op.u(1)));
    return after_lock(c, o, r, false);
}
E2_OP(try_lock) {
    auto o = get(c, op.a(0), false);
    if (!o || o->depth[c.self] > 0) return RV(SKIPPED);
    return after_lock(c, o, o->m->try_lock(), true);
}
E2_OP(unlock) {
    auto o = get(c, op.a(0), false);
    if (!o) return RV(SKIPPED);
    // the region ends when unlock() starts; unlock() by a non-owner is an error path that does nothing
    if (o->depth[c.self] > 0) o->depth[c.self]--;
    o->m->unlock();
    return RV(0);
}
E2_OP(rlock) {
    auto o = get(c, op.a(0), true);
    if (!o) return RV(SKIPPED);
    int r = o->r->lock(photon::Timeout(op.u(1)));
    return after_lock(c, o, r, false);
}
E2_OP(rtry_lock) {
    auto o = get(c, op.a(0), true);
    if (!o) return RV(SKIPPED);
    return after_lock(c, o, o->r->try_lock(), true);
}
E2_OP(runlock) {
    auto o = get(c, op.a(0), true);
    if (!o) return RV(SKIPPED);
    if (o->depth[c.self] > 0) o->depth[c.self]--;
    o->r->unlock();
    return RV(0);
}
// locked i: mutex::locked()  (owner != nullptr), any class
E2_OP(locked) {
    if (!(c.env.obj_is(op.a(0), "mutex") || c.env.obj_is(op.a(0), "seq_mutex") || c.env.obj_is(op.a(0), "rmutex"))) return RV(SKIPPED);
    auto o = c.env.obj<MObj>(op.a(0));
    bool l = o->kind == 2 ? ((photon::mutex*)o->r)->locked() : o->m->locked();
    return RV(l ? 1 : 0);
}
E2_OP(musleep) { int r = photon::thread_usleep((uint64_t)op.u(0)); return R(r); }
E2_OP(myield)  { int r = photon::thread_yield(); return RV(r, 0); }
E2_OP(minterrupt) {
    int64_t k = op.a(0);
    if (!c.env.alive(k)) return RV(SKIPPED);
    photon::thread_interrupt(c.env.threads[k].th, (int)op.a(1, EINTR));
    return RV(0);
}
