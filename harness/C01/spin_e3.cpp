// spin_e3.cpp — engine E3 on the REAL photon::spinlock (thread.h 230-261, inline), photon::ticket_spinlock
// and photon::qspinlock (thread.cpp 1636-1694): thread.h and thread.cpp of the tree under test are compiled
// into THIS translation unit with std::atomic / atomic_bool / atomic_size_t routed through the E3
// controller (std::verif_atomic, harness/E3/e3.h); /repo is not modified.
// Case line:  S <tas|tkl|qsl> <bound> | <script 0> | ... | <script n-1> | <schedule>
//   script = string over L (lock) T (try_lock) U (unlock), '-' = empty.  Client discipline (same rule as
//   C01_Spin_Model.next_pc): U is skipped by a participant that does not hold the lock, L/T by one that does.
// Output:     steps=<k> livelock=<0|1> digest=<fnv> log=<p.kind.addr.values ...>
#include "../E3/e3.h"
#include <photon/common/callback.h>
#include <photon/common/timeout.h>
#include <photon/thread/stack-allocator.h>
#include <emmintrin.h>
#include <memory.h>
#include <sys/time.h>
#include <unistd.h>
#include <cstddef>
#include <cassert>
#include <cerrno>
#include <vector>
#include <new>
#include <thread>
#include <mutex>
#include <condition_variable>
#include <sys/mman.h>
#include <fstream>
#include <sstream>
#include <iostream>
// std::atomic<T> of the two files is routed through the controller only for pointers (qspinlock::_owner_tail,
// holder::next, mutex::owner) and bool (holder::got_lock); the other atomics of thread.cpp keep std::atomic
// (some are accessed through volatile pointers, which verif_atomic's members do not accept)
namespace std {
template <class T> struct c01_pick { typedef atomic<T> type; };
template <class T> struct c01_pick<T*> { typedef verif_atomic<T*> type; };
template <> struct c01_pick<bool> { typedef verif_atomic<bool> type; };
template <class T> using c01_atomic_sel = typename c01_pick<T>::type;
}
#define atomic c01_atomic_sel
#define atomic_bool verif_atomic<bool>
#define atomic_size_t verif_atomic<size_t>
#define protected public
#include <photon/thread/thread.h>
#include <photon/thread/timer.h>
#include <photon/common/intrusive_list.h>
#undef protected
#include <photon/io/fd-events.h>
#include <photon/common/alog.h>
#include <photon/common/alog-functionptr.h>
#include <photon/thread/thread-key.h>
#include <photon/thread/arch.h>
#include "thread/thread.cpp"
#undef atomic
#undef atomic_bool
#undef atomic_size_t

struct Box { photon::spinlock tas; photon::ticket_spinlock tkl; photon::qspinlock qsl; };

static std::vector<std::string> split(const std::string& s, char c) {
    std::vector<std::string> out; std::string cur;
    for (char ch : s) { if (ch == c) { out.push_back(cur); cur.clear(); } else cur.push_back(ch); }
    out.push_back(cur); return out;
}
static std::string trim(const std::string& s) {
    size_t a = s.find_first_not_of(" \t\r\n"), b = s.find_last_not_of(" \t\r\n");
    return a == std::string::npos ? "" : s.substr(a, b - a + 1);
}

static std::string run_once(int kind, int bound, const std::vector<std::string>& scripts, const std::string& sched) {
    Box* b = new Box();                              // leaked on livelock
    e3::clear_names();
    e3::name(&b->tas._lock, "lock");
    e3::name(&b->tkl.next, "next"); e3::name(&b->tkl.serv, "serv");
    e3::name(&b->qsl._owner_tail, "tail");
    int n = (int)scripts.size();
    auto o = e3::run(n, e3::parse_schedule(sched), bound, [&, b, kind](int p) {
        if (kind == 2) {                             // this OS thread's holder (participants start one after the other)
            e3::name(&photon::qslholder.next, "hnext", p);
            e3::name(&photon::qslholder.got_lock, "hgot", p);
        }
        bool holding = false;
        for (char op : scripts[p]) {
            if (op == 'L' && !holding) {
                if (kind == 0) b->tas.lock(); else if (kind == 1) b->tkl.lock(); else b->qsl.lock();
                holding = true;
            } else if (op == 'T' && !holding && kind != 1) {
                holding = ((kind == 0 ? b->tas.try_lock() : b->qsl.try_lock()) == 0);
            } else if (op == 'U' && holding) {
                if (kind == 0) b->tas.unlock(); else if (kind == 1) b->tkl.unlock(); else b->qsl.unlock();
                holding = false;
            }
        }
    });
    char buf[96];
    snprintf(buf, sizeof buf, "steps=%d livelock=%d digest=%016" PRIx64 " log=", o.steps(), o.livelock ? 1 : 0, e3::digest(o.log));
    std::string s = buf; s += e3::join(o.log, " ");
    if (!o.error.empty()) s += " E3ERROR=" + o.error;
    if (!o.livelock) delete b;
    return s;
}

int main(int argc, char** argv) {
    if (argc < 2) return 2;
    e3::pin_to_one_cpu();
    std::ifstream in(argv[1]);
    std::string line;
    while (std::getline(in, line)) {
        if (line.empty() || line[0] == '#') continue;
        auto secs = split(line, '|');
        std::istringstream is(secs[0]);
        std::string tag, k; int bound = 0;
        is >> tag >> k >> bound;
        int kind = k == "tas" ? 0 : k == "tkl" ? 1 : k == "qsl" ? 2 : -1;
        if (tag != "S" || kind < 0 || bound <= 0 || secs.size() < 3 || secs.size() > 10) { printf("BADCASE\n"); fflush(stdout); continue; }
        std::vector<std::string> scripts;
        bool bad = false;
        for (size_t i = 1; i + 1 < secs.size(); i++) {
            std::string t = trim(secs[i]); if (t == "-") t = "";
            for (char c : t) if (!(c == 'L' || c == 'U' || (c == 'T' && kind != 1))) bad = true;
            scripts.push_back(t);
        }
        if (bad) { printf("BADCASE\n"); fflush(stdout); continue; }
        std::string sched = trim(secs.back());
        std::string a = run_once(kind, bound, scripts, sched);
        std::string c = run_once(kind, bound, scripts, sched);
        if (a != c) a = "E3ERROR nondeterministic replay first{" + a + "} second{" + c + "}";
        printf("%s\n", a.c_str());
        fflush(stdout);
    }
    return 0;
}
