// ops_core.cpp — the scheduler-level operations of the E2 op language (model: coq/Sched/Prog.v
// `core_op`).  Thread arguments are program thread indices (0 = main).
#include <photon/thread/thread.h>
#include "e2.h"
using namespace e2;

// usleep <t>           photon::thread_usleep(t)      (t = -1: for ever)
E2_OP(usleep) {
    int r = photon::thread_usleep((uint64_t)op.u(0));
    return R(r);
}
// yield                photon::thread_yield(): the returned error_number is the value
E2_OP(yield) {
    int r = photon::thread_yield();
    return RV(r, 0);
}
// yield_to <k>         photon::thread_yield_to(thread k)
E2_OP(yield_to) {
    int64_t k = op.a(0);
    if (!c.env.alive(k)) return RV(SKIPPED);
    errno = 0;
    int r = photon::thread_yield_to(c.env.threads[k].th);
    return R(r);
}
// interrupt <k> <e>    photon::thread_interrupt(thread k, e)
E2_OP(interrupt) {
    int64_t k = op.a(0);
    if (!c.env.alive(k)) return RV(SKIPPED);
    photon::thread_interrupt(c.env.threads[k].th, (int)op.a(1, EINTR));
    return RV(0);
}
// shutdown <k> <flag>  photon::thread_shutdown(thread k, flag)
E2_OP(shutdown) {
    int64_t k = op.a(0);
    if (!c.env.alive(k)) return RV(SKIPPED);
    int r = photon::thread_shutdown(c.env.threads[k].th, op.a(1, 1) != 0);
    return R(r);
}
// create <k> <joinable>   start program thread k (once; k >= 1)
E2_OP(create) {
    int64_t k = op.a(0);
    if (k < 1 || (size_t)k >= c.env.threads.size() || c.env.threads[k].created) return RV(SKIPPED);
    auto& t = c.env.threads[k];
    auto th = photon::thread_create(&thread_body, &t, 256 * 1024);
    if (!th) return R(-1);
    t.th = th; t.created = true; t.joinable = op.a(1, 0) != 0;
    if (t.joinable) photon::thread_enable_join(th);
    return RV(0);
}
// join <k>             photon::thread_join (only a joinable thread, once, not self): value = retval
E2_OP(join) {
    int64_t k = op.a(0);
    if (!c.env.alive(k) || k == c.self) return RV(SKIPPED);
    auto& t = c.env.threads[k];
    if (!t.joinable || t.join_claimed) return RV(SKIPPED);
    t.join_claimed = true;
    void* rv = photon::thread_join((photon::join_handle*)t.th);
    t.joined = true;
    return RV((int64_t)(intptr_t)rv);
}
// state <k>            photon::thread_stat(thread k)
E2_OP(state) {
    int64_t k = op.a(0);
    if (!c.env.alive(k)) return RV(SKIPPED);
    return RV((int64_t)photon::thread_stat(c.env.threads[k].th));
}
// nop
E2_OP(nop) { return RV(0); }
