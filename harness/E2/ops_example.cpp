// ops_example.cpp — WORKED EXAMPLE of adding a primitive to the E2 harness in a file of its own
// (model: coq/Sched/Example.v).  decl `cv`; ops `cv_wait i t`, `cv_notify i`, `cv_notify_all i`.
#include <photon/thread/thread.h>
#include "e2.h"
using namespace e2;

E2_DECL(cv) { return new photon::condition_variable; }

E2_OP(cv_wait) {
    if (!c.env.obj_is(op.a(0), "cv")) return RV(SKIPPED);
    auto cv = c.env.obj<photon::condition_variable>(op.a(0));
    int r = cv->wait_no_lock(photon::Timeout(op.u(1)));
    return R(r);
}
E2_OP(cv_notify) {
    if (!c.env.obj_is(op.a(0), "cv")) return RV(SKIPPED);
    return RV(c.env.obj<photon::condition_variable>(op.a(0))->notify_one() != nullptr);
}
E2_OP(cv_notify_all) {
    if (!c.env.obj_is(op.a(0), "cv")) return RV(SKIPPED);
    return RV(c.env.obj<photon::condition_variable>(op.a(0))->notify_all());
}
