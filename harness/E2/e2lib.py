# e2lib.py — python side of the E2 engine, shared by the checks of C01-C06, C08, C09, C11, C19.
# Usage from checks/<ID>.py:
#     import sys; sys.path.insert(0, os.path.join(VERIF, 'harness', 'E2')); import e2lib
#     runner_ml = e2lib.make_runner('<ID>', ['ocaml/E2_lib.ml', 'ocaml/<ID>_run.ml'])   # absolute path
#     def build_impl(self): return e2lib.build_impl(self.id, ['harness/<ID>/ops_xxx.cpp'])
# See /verif/notes/E2.md.
import os, re
import vlib

E2_SOURCES = ['harness/E2/e2_main.cpp', 'harness/E2/ops_core.cpp']
VCLOCK_START = 1000
MAX64 = (1 << 64) - 1


def build_impl(pid, extra_sources=(), out=None):
    """compile the E2 driver + core ops + the property's own op files against the hook-enabled libphoton"""
    exe, log = vlib.cxx_build(pid, E2_SOURCES + list(extra_sources),
                              extra='-I%s' % os.path.join(vlib.VERIF, 'harness', 'E2'), libphoton=True, out=out)
    if not exe:
        raise RuntimeError(log[-3000:])
    return exe


def make_runner(pid, parts):
    """concatenate OCaml fragments (paths relative to /verif) into .build/gen/<pid>_run.ml; returns its
    absolute path (usable as DiffCheck.runner_ml)"""
    d = os.path.join(vlib.BUILD, 'gen')
    os.makedirs(d, exist_ok=True)
    path = os.path.join(d, pid + '_run.ml')
    txt = ''
    for p in parts:
        ap = p if os.path.isabs(p) else os.path.join(vlib.VERIF, p)
        txt += '# 1 "%s"\n' % ap + open(ap).read() + '\n'
    old = open(path).read() if os.path.exists(path) else None
    if old != txt:
        open(path, 'w').write(txt)
    return path


def parse_items(sec):
    sec = sec.strip()
    if sec in ('', '-'):
        return []
    out = []
    for part in sec.split(';'):
        w = part.split()
        if w:
            out.append((w[0], [int(x) for x in w[1:]]))
    return out


def parse_case(line):
    """'P decls | ops | ops ...' -> (decls, [ops of T0, ops of T1, ...]); items are (name, [int args])"""
    secs = line[1:].split('|')
    return parse_items(secs[0]), [parse_items(s) for s in secs[1:]]


def fmt_items(items):
    return ';'.join(' '.join([n] + [str(a) for a in args]) for n, args in items) if items else '-'


def fmt_case(decls, threads):
    return 'P ' + ' | '.join([fmt_items(decls)] + [fmt_items(t) for t in threads])


_EV = re.compile(r'^(\d+)\.(\d+):(-?\d+)/(-?\d+)@(\d+)$')


def parse_result(line):
    """-> dict(flag, tr=[(tid,pc,ret,err,time)], blocked=[(tid,pc)], end) or None if unparsable"""
    m = re.match(r'^(?:([A-Z][A-Z-]*(?:\([^)]*\))?) )?tr=(\S+) blocked=(\S+) end=(\d+)$', line.strip())
    if not m:
        return None
    tr = []
    if m.group(2) != '-':
        for e in m.group(2).split(','):
            g = _EV.match(e)
            if not g:
                return None
            tr.append(tuple(int(x) for x in g.groups()))
    bl = []
    if m.group(3) != '-':
        for b in m.group(3).split(','):
            k, pc = b.split('.')
            bl.append((int(k), int(pc)))
    return dict(flag=m.group(1) or '', tr=tr, blocked=bl, end=int(m.group(4)))
