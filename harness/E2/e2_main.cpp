// e2_main.cpp — E2 engine driver (see e2.h).  argv[1] = case file; one output line per case.
// Every case runs in a forked child (fresh scheduler state, no teardown needed), TWICE, and the
// two result lines must be identical (determinism check) — else the line is `NONDET ...`.
#include <photon/thread/thread.h>
#include <photon/common/alog.h>
#include <cstdio>
#include <cstdlib>
#include <cstring>
#include <cinttypes>
#include <unistd.h>
#include <poll.h>
#include <signal.h>
#include <sys/wait.h>
#include <sys/resource.h>
#include <fstream>
#include <sstream>
#include <iostream>
#include "e2.h"

extern "C" {
extern uint64_t (*photon_verif_clock)();
extern int (*photon_verif_idle)(uint64_t usec, uint64_t next_wakeup);
}

namespace e2 {

std::map<std::string, OpHandler>&   op_registry()   { static std::map<std::string, OpHandler> r; return r; }
std::map<std::string, DeclHandler>& decl_registry() { static std::map<std::string, DeclHandler> r; return r; }

static uint64_t g_vclock = VCLOCK_START;
static Env* g_env = nullptr;
static int g_outfd = 1;
static uint64_t g_idle_rounds = 0;
uint64_t vnow() { return g_vclock; }
Env& env() { return *g_env; }

static std::vector<std::string> split(const std::string& s, char c) {
    std::vector<std::string> out; std::string cur;
    for (char ch : s) { if (ch == c) { out.push_back(cur); cur.clear(); } else cur.push_back(ch); }
    out.push_back(cur);
    return out;
}
static std::string trim(const std::string& s) {
    size_t a = s.find_first_not_of(" \t\r\n"), b = s.find_last_not_of(" \t\r\n");
    return a == std::string::npos ? "" : s.substr(a, b - a + 1);
}
static bool parse_items(const std::string& sec, std::vector<Item>& out) {
    std::string t = trim(sec);
    if (t.empty() || t == "-") return true;
    for (auto& part : split(t, ';')) {
        std::istringstream is(part);
        Item it; std::string w;
        if (!(is >> it.name)) return false;
        while (is >> w) {
            errno = 0; char* end = nullptr;
            if (w[0] == '-') { long long v = strtoll(w.c_str(), &end, 10); it.args.push_back((int64_t)v); }
            else { unsigned long long v = strtoull(w.c_str(), &end, 10); it.args.push_back((int64_t)v); }
            if (!end || *end) return false;
        }
        out.push_back(it);
    }
    return true;
}

static void emit_and_exit(const char* prefix) {
    Env& e = *g_env;
    std::string s = prefix;
    s += "tr=";
    char buf[128];
    bool first = true;
    for (auto& ev : e.trace) {
        snprintf(buf, sizeof buf, "%s%d.%d:%" PRId64 "/%d@%" PRIu64, first ? "" : ",", ev.tid, ev.pc, ev.ret, ev.err, ev.now);
        s += buf; first = false;
    }
    if (first) s += "-";
    s += " blocked=";
    first = true;
    for (size_t k = 0; k < e.threads.size(); k++) {
        auto& t = e.threads[k];
        if (t.created && !t.finished && (size_t)t.pc < t.ops.size()) {
            snprintf(buf, sizeof buf, "%s%zu.%d", first ? "" : ",", k, t.pc);
            s += buf; first = false;
        }
    }
    if (first) s += "-";
    snprintf(buf, sizeof buf, " end=%" PRIu64 "\n", (uint64_t)photon::now);
    s += buf;
    size_t off = 0;
    while (off < s.size()) { ssize_t n = write(g_outfd, s.data() + off, s.size() - off); if (n <= 0) break; off += n; }
    _exit(0);
}

static uint64_t clock_cb() { return g_vclock; }
// H-idle: only the idler is runnable.  next_wakeup = deadline at the front of the sleep queue
// (2^64-1 if the queue is empty or only infinite sleepers remain: nothing can ever run again).
static int idle_cb(uint64_t usec, uint64_t next_wakeup) {
    if (next_wakeup == (uint64_t)-1) emit_and_exit("");
    if (++g_idle_rounds > 100000) emit_and_exit("IDLE-LIMIT ");
    g_vclock += usec;               // the wait the idler asked for elapses exactly
    return 1;                       // skip the real wait
}

static void run_ops(int self) {
    Env& e = *g_env;
    ThreadInfo& me = e.threads[self];
    Ctx c{e, self, me};
    for (me.pc = 0; (size_t)me.pc < me.ops.size(); me.pc++) {
        const Item& op = me.ops[me.pc];
        auto it = op_registry().find(op.name);
        Result r;
        if (it == op_registry().end()) r = RV(-99, 0);
        else r = it->second(c, op);
        e.trace.push_back(TraceEv{self, me.pc, r.ret, r.err, (uint64_t)photon::now});
        if (e.trace.size() > 100000) emit_and_exit("TRACE-LIMIT ");
    }
    if (self != 0) me.finished = true;   // T0 (the main photon thread) parks but stays a valid target
}

void* thread_body(void* arg) {
    ThreadInfo* t = (ThreadInfo*)arg;
    int self = (int)(t - &g_env->threads[0]);
    run_ops(self);
    return (void*)(intptr_t)(1000 + self);
}

static void child_main(const std::string& line, int outfd) {
    g_outfd = outfd;
    Env e; g_env = &e;
    auto secs = split(line.substr(1), '|');
    bool ok = secs.size() >= 2 && parse_items(secs[0], e.decls);
    if (ok) {
        e.threads.resize(secs.size() - 1);
        for (size_t k = 1; k < secs.size() && ok; k++) ok = parse_items(secs[k], e.threads[k - 1].ops);
    }
    if (ok) for (auto& d : e.decls) if (!decl_registry().count(d.name)) ok = false;
    if (ok) for (auto& t : e.threads) for (auto& op : t.ops) if (!op_registry().count(op.name)) ok = false;
    if (!ok) { const char* m = "BADCASE\n"; (void)!write(outfd, m, strlen(m)); _exit(0); }

    log_output_level = ALOG_FATAL + 1;
    g_vclock = VCLOCK_START;
    photon_verif_clock = clock_cb;
    photon_verif_idle = idle_cb;
    if (photon::vcpu_init() < 0) { const char* m = "INITFAIL\n"; (void)!write(outfd, m, strlen(m)); _exit(0); }
    for (auto& d : e.decls) e.objs.push_back(decl_registry()[d.name](e, d));
    e.threads[0].created = true;
    e.threads[0].th = photon::CURRENT;
    run_ops(0);
    // T0 is done: park the main photon thread for ever; the idle hook ends the case
    while (true) photon::thread_usleep(-1);
}

static std::string run_once(const std::string& line, int timeout_ms) {
    int fds[2];
    if (pipe(fds) < 0) return "PIPEFAIL";
    fflush(stdout);
    pid_t pid = fork();
    if (pid == 0) {
        close(fds[0]);
        // a runaway case is stopped by CPU time (independent of machine load), not by wall clock
        struct rlimit rl = {10, 12};
        setrlimit(RLIMIT_CPU, &rl);
        child_main(line, fds[1]); _exit(0);
    }
    close(fds[1]);
    std::string out; char buf[65536];
    bool hang = false;
    while (true) {
        struct pollfd p = {fds[0], POLLIN, 0};
        int r = poll(&p, 1, timeout_ms);
        if (r == 0) { hang = true; kill(pid, SIGKILL); break; }
        if (r < 0) { if (errno == EINTR) continue; break; }
        ssize_t n = read(fds[0], buf, sizeof buf);
        if (n <= 0) break;
        out.append(buf, n);
    }
    close(fds[0]);
    int status = 0; waitpid(pid, &status, 0);
    while (!out.empty() && (out.back() == '\n' || out.back() == '\r')) out.pop_back();
    if (hang) return "HANG " + out;
    if (WIFSIGNALED(status) && (WTERMSIG(status) == SIGXCPU || WTERMSIG(status) == SIGKILL)) return "HANG(cpu) " + out;
    if (WIFSIGNALED(status)) return "CRASH(sig" + std::to_string(WTERMSIG(status)) + ") " + out;
    if (out.empty()) return "NOOUTPUT(exit" + std::to_string(WEXITSTATUS(status)) + ")";
    return out;
}

}  // namespace e2

int main(int argc, char** argv) {
    if (argc < 2) { fprintf(stderr, "usage: %s <casefile>\n", argv[0]); return 2; }
    // determinism check: a case is run a second time (fresh process) and the two lines compared;
    // E2_TWICE_PCT = percentage of cases (chosen by a hash of the line) that get the second run
    // (default 25; 100 = every case; E2_ONCE=1 = none)
    bool once = getenv("E2_ONCE") && getenv("E2_ONCE")[0] == '1';
    int twice_pct = getenv("E2_TWICE_PCT") ? atoi(getenv("E2_TWICE_PCT")) : 25;
    // wall-clock limit per run: generous, because the machine may be heavily loaded; genuine
    // runaways are caught by the 10 s CPU limit of the child
    int timeout_ms = getenv("E2_TIMEOUT_MS") ? atoi(getenv("E2_TIMEOUT_MS")) : 300000;
    std::ifstream in(argv[1]);
    std::string line;
    while (std::getline(in, line)) {
        if (line.empty() || line[0] == '#') continue;
        if (line[0] != 'P') { printf("BADCASE\n"); fflush(stdout); continue; }
        std::string a = e2::run_once(line, timeout_ms);
        bool twice = !once && (int)(std::hash<std::string>()(line) % 100) < twice_pct;
        if (twice) {
            std::string b = e2::run_once(line, timeout_ms);
            if (a != b) a = "NONDET first{" + a + "} second{" + b + "}";
        }
        printf("%s\n", a.c_str());
        fflush(stdout);
    }
    return 0;
}
