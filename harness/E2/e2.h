// e2.h — the E2 engine: deterministic single-vCPU replay of thread programs on the REAL
// photon scheduler under a virtual clock (hooks H-clock / H-idle, repo_patches/E2-hooks.diff).
//
// A case line:   P <decls> | <ops of T0> | <ops of T1> | ...
//   decls / ops are `;`-separated items `name arg arg ...` (args: signed decimal; -1 = 2^64-1);
//   `-` = empty section.  T0 is the vCPU's main photon thread; T1.. are started by `create k`.
// Output line:   tr=<k>.<pc>:<ret>/<errno>@<now>,...  blocked=<k>.<pc>,...  end=<now>
//
// To add a primitive (mutex, semaphore, ...) write a new .cpp that includes this header and
// registers object kinds with E2_DECL and operations with E2_OP; link it with e2_main.cpp and
// ops_core.cpp.  Do not edit the shared files.  See /verif/notes/E2.md.
#pragma once
#include <cstdint>
#include <cerrno>
#include <string>
#include <vector>
#include <map>

namespace photon { struct thread; }

namespace e2 {

struct Item {                       // one decl or op: name + integer arguments
    std::string name;
    std::vector<int64_t> args;
    int64_t  a(size_t i, int64_t dflt = 0) const { return i < args.size() ? args[i] : dflt; }
    uint64_t u(size_t i, uint64_t dflt = 0) const { return i < args.size() ? (uint64_t)args[i] : dflt; }
};

struct Result {                     // value of a completed op as it appears in the trace
    int64_t ret; int err;
};
// errno is reported only for failing calls (ret < 0), else 0
inline Result R(int64_t ret) { return Result{ret, ret < 0 ? errno : 0}; }
inline Result RV(int64_t ret, int err = 0) { return Result{ret, err}; }
const int64_t SKIPPED = -2;         // op not executed: its target does not exist (any more);
                                    // printed as -2/0; the model applies the same rule

struct TraceEv { int tid, pc; int64_t ret; int err; uint64_t now; };

struct ThreadInfo {
    std::vector<Item> ops;
    photon::thread* th = nullptr;   // valid while alive()
    bool created = false, finished = false, joinable = false, joined = false, join_claimed = false;
    int pc = 0;                     // index of the op being executed
    int64_t local[8] = {0};         // scratch registers for primitives
};

struct Env {
    std::vector<Item> decls;
    std::vector<void*> objs;        // objs[i] built from decls[i] by its E2_DECL handler
    std::vector<ThreadInfo> threads;
    std::vector<TraceEv> trace;
    // target thread k may be passed to the photon API: it exists and its struct is still valid
    bool alive(int64_t k) const {
        if (k < 0 || (size_t)k >= threads.size()) return false;
        auto& t = threads[k];
        return t.created && (!t.finished || (t.joinable && !t.joined));
    }
    template<class T> T* obj(int64_t i) const {
        return (i >= 0 && (size_t)i < objs.size()) ? (T*)objs[i] : nullptr;
    }
    bool obj_is(int64_t i, const char* kind) const {
        return i >= 0 && (size_t)i < decls.size() && decls[i].name == kind;
    }
};

struct Ctx { Env& env; int self; ThreadInfo& me; };

typedef Result (*OpHandler)(Ctx&, const Item&);
typedef void*  (*DeclHandler)(Env&, const Item&);
std::map<std::string, OpHandler>&   op_registry();
std::map<std::string, DeclHandler>& decl_registry();
struct RegOp   { RegOp(const char* n, OpHandler h)   { op_registry()[n] = h; } };
struct RegDecl { RegDecl(const char* n, DeclHandler h) { decl_registry()[n] = h; } };

#define E2_OP(NAME) \
    static e2::Result e2_op_##NAME(e2::Ctx& c, const e2::Item& op); \
    static e2::RegOp e2_regop_##NAME(#NAME, e2_op_##NAME); \
    static e2::Result e2_op_##NAME(e2::Ctx& c, const e2::Item& op)
#define E2_DECL(NAME) \
    static void* e2_decl_##NAME(e2::Env& env, const e2::Item& d); \
    static e2::RegDecl e2_regdecl_##NAME(#NAME, e2_decl_##NAME); \
    static void* e2_decl_##NAME(e2::Env& env, const e2::Item& d)

uint64_t vnow();                    // the virtual clock (== photon::now while a case runs)
const uint64_t VCLOCK_START = 1000; // virtual time at which every case starts
void* thread_body(void* arg);       // entry of every created program thread (arg = ThreadInfo*)
Env& env();                         // the running case

}  // namespace e2
