// C15 implementation harness: drives fs/range-split.h and range-split-vi.h of
// /repo's current working tree on the case file and prints one line per case
// in the same format as ocaml/C15_run.ml.
#include <cstdio>
#include <cstdlib>
#include <cstring>
#include <cinttypes>
#include <string>
#include <vector>
#include <sstream>
#include <fstream>
#include <iostream>
#include <photon/fs/range-split.h>
#include <photon/fs/range-split-vi.h>
using namespace photon::fs;
static const int FUEL = 4096;

static std::string sub(const sub_range& s) {
    char b[128]; snprintf(b, sizeof b, "%" PRIu64 ",%" PRIu64 ",%" PRIu64, s.i, s.offset, s.length); return b;
}
template<class RS> static std::string all_parts(const RS& rs) {
    std::string s; int n = 0;
    auto parts = rs.all_parts();
    for (auto it = parts.begin(), e = parts.end(); it != e; ++it) {
        if (n == FUEL) return "RUNAWAY";
        if (n) s += ";";
        s += sub(*it); n++;
    }
    return std::to_string(n) + "[" + s + "]";
}
template<class RS> static std::string aligned_parts(const RS& rs) {
    std::string s; int n = 0;
    auto parts = rs.aligned_parts();
    for (auto it = parts.begin(), e = parts.end(); it != e; ++it) {
        if (n == FUEL) return "RUNAWAY";
        if (n) s += ";";
        s += sub(*it); n++;
    }
    return std::to_string(n) + "[" + s + "]";
}
template<class RS> static void show(const RS& rs) {
    printf("ab=%" PRIu64 " ae=%" PRIu64 " apb=%" PRIu64 " ape=%" PRIu64 " br=%" PRIu64 " er=%" PRIu64
           " small=%s pre=%s first=%s post=%s all=%s aligned=%s abo=%" PRIu64 " aeo=%" PRIu64 "\n",
           rs.abegin, rs.aend, rs.apbegin, rs.apend, rs.begin_remainder, rs.end_remainder,
           sub(rs.small_note).c_str(), sub(rs.preface).c_str(), sub(rs.first).c_str(), sub(rs.postface).c_str(),
           all_parts(rs).c_str(), aligned_parts(rs).c_str(),
           rs.aligned_begin_offset(), rs.aligned_end_offset());
    fflush(stdout);
}
int main(int argc, char** argv) {
    std::ifstream in(argv[1]); std::string line;
    while (std::getline(in, line)) {
        if (line.empty() || line[0] == '#') continue;
        std::istringstream ss(line); std::string kind; ss >> kind;
        uint64_t off, len; ss >> off >> len;
        if (kind == "F") { uint64_t iv; ss >> iv; show(range_split(off, len, iv)); }
        else if (kind == "P") { uint64_t iv; ss >> iv; show(range_split_power2(off, len, iv)); }
        else if (kind == "V") {
            std::string kps; ss >> kps; std::vector<uint64_t> kp; std::stringstream ks(kps); std::string tok;
            while (std::getline(ks, tok, ',')) kp.push_back(strtoull(tok.c_str(), 0, 10));
            show(range_split_vi(off, len, kp.data(), kp.size()));
        } else { puts("BADCASE"); fflush(stdout); }
    }
    return 0;
}
