#!/usr/bin/env python3
# C04 implementation dispatcher: `H` case lines go to the heap harness (E1), `P` lines to the E2
# harness; the output lines are merged back in the order of the case file (one line per case).
import sys, subprocess, os, tempfile
heap_exe, e2_exe, casefile = sys.argv[1], sys.argv[2], sys.argv[3]
lines = [l.rstrip('\n') for l in open(casefile) if l.strip() and not l.startswith('#')]
groups = {'H': [], 'P': []}
for i, l in enumerate(lines):
    groups.setdefault(l[0], []).append(i)
out = [None] * len(lines)
for tag, exe in (('H', heap_exe), ('P', e2_exe)):
    idx = groups.get(tag, [])
    if not idx: continue
    fd, fn = tempfile.mkstemp(prefix='C04_%s_' % tag, suffix='.cases', dir=os.path.dirname(casefile))
    with os.fdopen(fd, 'w') as f:
        for i in idx: f.write(lines[i] + '\n')
    p = subprocess.run([exe, fn], stdout=subprocess.PIPE, stderr=subprocess.PIPE, universal_newlines=True, errors='replace')
    res = p.stdout.split('\n')
    if res and res[-1] == '': res.pop()
    for j, i in enumerate(idx):
        if j < len(res): out[i] = res[j]
        elif j == len(res): out[i] = 'CRASH(%s): %s' % (p.returncode, (p.stderr.strip().splitlines() or [''])[-1][:200])
        else: out[i] = 'CRASH(%s): not run' % p.returncode
    os.unlink(fn)
for i, l in enumerate(lines):
    print(out[i] if out[i] is not None else 'BADCASE')
sys.stdout.flush()
