# C04 (part A) case generator for the sleep-queue heap differential test.
#   heap_cases(tier, rng) -> list of case lines  "H <n> <op> ..."   (format: heap_harness.cpp)
#
# (a) exhaustive: every op sequence of length <= L over 4 threads, thread t always pushed with
#     deadline D[t], D = [1, 1, 2, 2^64-1]; ops = push t | pop t | pop_front  (9 per step).
#     Pruning (only this one): an op that is a no-op in the current state (push of an already
#     queued thread -> skipped; pop_front on an empty queue -> skipped; pop of a thread that is
#     not queued -> returns -1 and changes nothing) is generated only as the LAST op of a
#     sequence.  Such an op leaves the state unchanged, so a sequence with a no-op in the middle
#     behaves like the shorter sequence without it; every (reachable state, op) pair is still
#     exercised and the no-op's result value is still compared.  No symmetry pruning.
#     L = 7 (quick: 122049 lines) / 8 (thorough: 582957 lines); unpruned 9^k sums would be 5.4M / 48M.
# (a2) 7 threads, deadlines [1,1,2,2,3,3,2^64-1]: all 5040 push orders x pop(t) for each t,
#     then drain by pop_front (35280 lines) -- smallest domain where pop() moves UP.
# (b) random: n in 3..12 threads, 10..60 ops, deadlines from a small tie-rich set plus 2^64-1
#     plus random 64-bit values; biased so that the queue usually holds >= 5 elements and
#     removals hit the middle of the array.
#
# `RefHeap` below is a plain textbook array heap used ONLY to know which threads are queued
# (for the pruning in (a) and the bias in (b)); it is never used as an oracle.
U64MAX = 18446744073709551615
D4 = [1, 1, 2, U64MAX]


class RefHeap(object):
    def __init__(self):
        self.q = []
        self.dl = {}

    def _less(self, a, b):
        return self.dl[a] < self.dl[b]

    def _up(self, i):
        q = self.q
        tmp = q[i]
        moved = False
        while i != 0:
            c = (i - 1) >> 1
            if not self._less(tmp, q[c]):
                break
            q[i] = q[c]
            i = c
            moved = True
        if moved:
            q[i] = tmp
        return moved

    def _down(self, i):
        q = self.q
        tmp = q[i]
        moved = False
        c = 2 * i + 1
        while c < len(q):
            if c + 1 < len(q) and self._less(q[c + 1], q[c]):
                c += 1
            if not self._less(q[c], tmp):
                break
            q[i] = q[c]
            i = c
            c = 2 * i + 1
            moved = True
        if moved:
            q[i] = tmp
        return moved

    def apply(self, tok):
        """returns True iff the op changed the state"""
        q = self.q
        if tok[0] == 'u':
            c = tok.index(':')
            t = int(tok[1:c])
            if t in q:
                return False
            self.dl[t] = int(tok[c + 1:])
            q.append(t)
            self._up(len(q) - 1)
            return True
        if tok[0] == 'f':
            if not q:
                return False
            b = q.pop()
            if q:
                q[0] = b
                self._down(0)
            return True
        t = int(tok[1:])
        if t not in q:
            return False
        i = q.index(t)
        b = q.pop()
        if i < len(q):
            q[i] = b
            if not self._up(i):
                self._down(i)
        return True

    def copy(self):
        h = RefHeap()
        h.q = list(self.q)
        h.dl = dict(self.dl)
        return h


def exhaustive(maxlen, nthreads=4, dl=None):
    dl = dl or D4
    toks = ['u%d:%d' % (t, dl[t]) for t in range(nthreads)] + ['o%d' % t for t in range(nthreads)] + ['f']
    head = 'H %d ' % nthreads
    out = []

    def rec(prefix, heap, depth):
        if prefix:
            out.append(head + ' '.join(prefix))
        if depth == maxlen:
            return
        for tk in toks:
            h2 = heap.copy()
            if h2.apply(tk):
                rec(prefix + [tk], h2, depth + 1)
            else:
                out.append(head + ' '.join(prefix + [tk]))       # no-op: only as last op

    rec([], RefHeap(), 0)
    return out


SMALL_DL = [0, 1, 1, 2, 2, 3, 5, 5, 7, 100, 100, U64MAX, U64MAX, U64MAX - 1,
            1 << 63, (1 << 63) - 1, 1 << 32, (1 << 32) - 1]


def random_case(rng):
    n = rng.randint(3, 12)
    nops = rng.randint(10, 60)
    style = rng.random()
    if style < 0.45:
        pool = [rng.choice(SMALL_DL) for _ in range(rng.randint(2, 5))]      # very many ties
    elif style < 0.8:
        pool = SMALL_DL
    else:
        pool = None                                                         # random 64-bit

    def deadline():
        r = rng.random()
        if r < 0.08:
            return U64MAX
        if pool is None or r < 0.2:
            return rng.getrandbits(64)
        return rng.choice(pool)

    heap = RefHeap()
    ops = []
    target = min(n, rng.randint(5, 9))
    for _ in range(nops):
        size = len(heap.q)
        r = rng.random()
        if (size < target and r < 0.75) or (size == 0 and r < 0.95):
            free = [t for t in range(n) if t not in heap.q]
            if free and rng.random() < 0.93:
                t = rng.choice(free)
            else:
                t = rng.randrange(n)                      # possibly already queued -> skipped
            tok = 'u%d:%d' % (t, deadline())
        elif r < 0.82:
            if size > 2 and rng.random() < 0.75:
                t = heap.q[rng.randrange(0, size - 1)]    # not the last slot: forces up/down
            elif size and rng.random() < 0.8:
                t = rng.choice(heap.q)
            else:
                t = rng.randrange(n)                      # possibly not queued -> -1
            tok = 'o%d' % t
        else:
            tok = 'f'
        heap.apply(tok)
        ops.append(tok)
    return 'H %d %s' % (n, ' '.join(ops))


D7 = [1, 1, 2, 2, 3, 3, U64MAX]


def perm7():
    """(a2) 7 threads with deadlines D7: every push order (5040) x every single pop(t) (7), then
    drain with 6 pop_fronts.  Removing from the middle of a 7-element heap is the smallest
    situation in which pop() needs up() to move (the 4-thread domain never reaches it)."""
    import itertools
    out = []
    for perm in itertools.permutations(range(7)):
        pushes = ' '.join('u%d:%d' % (t, D7[t]) for t in perm)
        for t in range(7):
            out.append('H 7 %s o%d f f f f f f' % (pushes, t))
    return out


def heap_cases(tier, rng):
    cases = exhaustive(7 if tier == "quick" else 8)
    cases += perm7()
    nrand = 20000 if tier == 'quick' else 200000
    for _ in range(nrand):
        cases.append(random_case(rng))
    return cases


if __name__ == '__main__':
    import random
    import sys
    tier = sys.argv[1] if len(sys.argv) > 1 else 'quick'
    seed = int(sys.argv[2]) if len(sys.argv) > 2 else 1
    sys.stdout.write('\n'.join(heap_cases(tier, random.Random(seed))) + '\n')
