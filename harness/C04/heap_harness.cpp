// C04 (part A) implementation harness: the file-local `class SleepQueue` of thread/thread.cpp
// (lines 374-483) driven by op sequences.  Same line format as ocaml/C04_heap_run.ml.
//
//   case line :  H <n> <op> <op> ...
//                n   = number of dummy threads (ids 0..n-1)
//                op  = u<t>:<d>   ts_wakeup(t) := d (decimal uint64); push(t)   [skipped, r=-2, when idx != -1]
//                      f          pop_front()                                   [skipped, r=-2, when empty]
//                      o<t>       pop(t)  (r = the C++ return value)
//   output    :  q=<t0,t1,...> idx=<i0,...,i(n-1)> r=<r0,r1,...>
//
// The real class is reached by including the translation unit itself (the include path comes
// from the compile line: -I$REPO/include -iquote $REPO).  The dummy `photon::thread` objects are
// zeroed storage with idx = -1; SleepQueue reads/writes only `idx` and `ts_wakeup`; they are
// never run, constructed or destroyed.
//
// Build (no libphoton needed; the unreferenced rest of thread.cpp, which needs alog / epoll /
// thread-key symbols, is discarded by the section garbage collector):
//   g++ -std=c++14 -O1 -g -DNDEBUG -I$REPO/include -iquote $REPO -Wno-deprecated-declarations \
//       -DPHOTON_VERIF -ffunction-sections -fdata-sections -Wl,--gc-sections \
//       harness/C04/heap_harness.cpp -o heap_impl -lpthread
//   i.e. vlib.cxx_build('C04', ['harness/C04/heap_harness.cpp'],
//                       extra='-ffunction-sections -fdata-sections -Wl,--gc-sections')
#include "thread/thread.cpp"

#include <cstdio>
#include <cstdlib>
#include <cstring>
#include <string>
#include <vector>
#include <fstream>
#include <sstream>

static void run_line(const std::string& line) {
    std::stringstream ss(line);
    std::string tok;
    ss >> tok;
    if (tok != "H") { puts("BADCASE"); fflush(stdout); return; }
    size_t n = 0;
    ss >> n;
    std::vector<photon::thread*> th(n);
    for (size_t i = 0; i < n; i++) {
        th[i] = (photon::thread*)calloc(1, sizeof(photon::thread));
        th[i]->idx = -1;
        th[i]->ts_wakeup = 0;
    }
    photon::SleepQueue sq;
    std::string res;
    bool bad = false;
    auto add = [&](long long v) {
        if (!res.empty()) res += ",";
        res += std::to_string(v);
    };
    while (ss >> tok) {
        if (tok[0] == 'u') {
            size_t c = tok.find(':');
            if (c == std::string::npos) { bad = true; break; }
            size_t t = strtoull(tok.substr(1, c - 1).c_str(), nullptr, 10);
            uint64_t d = strtoull(tok.c_str() + c + 1, nullptr, 10);
            if (t >= n) { bad = true; break; }
            if (th[t]->idx != -1) { add(-2); continue; }
            th[t]->ts_wakeup = d;
            add(sq.push(th[t]));
        } else if (tok[0] == 'f') {
            if (sq.empty()) { add(-2); continue; }
            photon::thread* p = sq.pop_front();
            long long id = -3;
            for (size_t i = 0; i < n; i++) if (th[i] == p) id = (long long)i;
            add(id);
        } else if (tok[0] == 'o') {
            size_t t = strtoull(tok.c_str() + 1, nullptr, 10);
            if (t >= n) { bad = true; break; }
            add(sq.pop(th[t]));
        } else { bad = true; break; }
    }
    if (bad) { puts("BADCASE"); fflush(stdout); }
    else {
        std::string qs, is;
        for (size_t k = 0; k < sq.q.size(); k++) {
            long long id = -3;
            for (size_t i = 0; i < n; i++) if (th[i] == sq.q[k]) id = (long long)i;
            if (k) qs += ",";
            qs += std::to_string(id);
        }
        for (size_t i = 0; i < n; i++) {
            if (i) is += ",";
            is += std::to_string(th[i]->idx);
        }
        printf("q=%s idx=%s r=%s\n", qs.c_str(), is.c_str(), res.c_str());
        fflush(stdout);
    }
    for (size_t i = 0; i < n; i++) free(th[i]);
}

int main(int argc, char** argv) {
    if (argc < 2) { fprintf(stderr, "usage: %s casefile\n", argv[0]); return 2; }
    std::ifstream in(argv[1]);
    std::string line;
    while (std::getline(in, line)) {
        if (line.empty() || line[0] == '#') continue;
        run_line(line);
    }
    return 0;
}
