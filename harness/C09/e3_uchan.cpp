// C09 / engine E3: the UNBUFFERED path of photon::channel<int> (thread/go.h unbuffered_send / unbuffered_recv /
// unbuffered_try_send / unbuffered_try_recv / close), /repo untouched, between OS threads under the lock-step
// controller of harness/E3/e3.h.  photon::mutex and photon::condition_variable are replaced (by macro, only inside
// go.h) by stand-ins that implement their C01/C03 specification with every operation an instrumentation point:
//   VMutex::lock    point "lock", repeated until the mutex is free (a spin point: the controller runs the others)
//   VMutex::unlock  point "unlock"
//   VCond::wait     point "cvwait": ATOMICALLY enqueue at the tail of the FIFO and release the mutex
//                   (thread_usleep_defer); then points "cvblk" until woken; flavor 1 on a sleeper whose deadline has
//                   passed (photon::now, moved only by script op A) = the timer wakes it: it leaves the queue and its
//                   wait returns -1/ETIMEDOUT; then "lock" again
//   VCond::notify_one / notify_all   point "notify1" / "notifyall": head of the queue / everybody
//   flavor 2 on a participant asleep in "cvblk" (or spinning on a held mutex) DISMISSES it: the OS thread longjmps out
//   of the channel call without touching the channel (no destructor runs: waiter counters, queues, mutex stay as they
//   are) and ends; the model appends one such entry per thread still asleep when nobody can move, so every replay ends
//   with all threads joined (an abandoned, parked thread per blocked participant would exhaust the pid space).
// m_closed, m_senders_waiting, m_receivers_waiting are std::verif_atomic (every access a point); every op of a
// script starts with a point "op" (the Timeout of the call is constructed in that step).
// case:   U <bound> | <script p0> | <script p1> | ... | <e3 schedule (base-36 digits; e / n = 1: timer flavor)>
//         ops: S send  R recv  s try_send  r try_recv  C close  T<d> send(v, Timeout(d))  V<d> recv(x, Timeout(d))
//              A = one point "tick", then photon::now += 200
// output: res=<results p0>|.. blocked=<p,..|-> slot=<value|-1> closed=<0|1> sw=<n> rw=<n> seq=<n> scv=<p,..|-> rcv=<p,..|-> mtx=<p|->
//         results: S/T/s -> 1|0, R/V/r -> value|-1, C/A -> 0
// The expected line and the schedule are produced by the model (coq/C09/C09_E3U.v, ocaml/C09_e3_run.ml).
#include "../E3/e3.h"
#include <fstream>
#include <iostream>
#include <sstream>
#include <algorithm>
#include <cerrno>
#include <csetjmp>
#include <photon/common/timeout.h>
#include <photon/common/utility.h>
#include <photon/thread/thread.h>
#include <photon/thread/thread11.h>
#include <photon/common/lockfree_queue.h>

static jmp_buf g_jb[64];
static char g_dismissed[64];
static void dismiss_if_asked() {
    if (e3::in_participant() && e3::flavor() == 2) { int me = e3::me(); g_dismissed[me] = 1; longjmp(g_jb[me], 1); }
}

namespace photon {
struct VMutex {
    int owner = -1;
    VMutex(uint16_t = 100, bool = false) {}
    int lock(Timeout = {}) {
        for (;;) {
            e3::point("lock");
            if (!e3::in_participant()) { owner = 99; return 0; }    // the main thread (destructor) only touches a finished run
            if (owner < 0) { owner = e3::me(); return 0; }
            dismiss_if_asked();
        }
    }
    int try_lock() { e3::point("trylock"); if (owner < 0) { owner = e3::me(); return 0; } errno = EBUSY; return -1; }
    bool locked() { return owner >= 0; }
    void unlock() { e3::point("unlock"); owner = -1; }
};
struct VCond {
    std::vector<int> q;            // FIFO of waiting participants, head first
    char st[64] = {0};             // 0 not waiting, 1 asleep, 2 woken by notify, 3 woken by its deadline
    int wait(VMutex& m, Timeout t = {}) {
        int me = e3::me();
        e3::point("cvwait");                               // enqueue + release the mutex: one atomic step
        q.push_back(me); st[me] = 1; m.owner = -1;
        for (;;) {
            e3::point("cvblk");
            if (st[me] != 1) break;
            dismiss_if_asked();
            if (e3::flavor() == 1 && t.expiration() <= photon::now) {      // resume_threads: the deadline has passed
                q.erase(std::remove(q.begin(), q.end(), me), q.end()); st[me] = 3;
            }
        }
        bool timedout = (st[me] == 3); st[me] = 0;
        m.lock();
        if (timedout) { errno = ETIMEDOUT; return -1; }
        return 0;
    }
    int wait(VMutex* m, Timeout t = {}) { return wait(*m, t); }
    void* notify_one() { e3::point("notify1"); if (!q.empty()) { st[q.front()] = 2; q.erase(q.begin()); } return nullptr; }
    int notify_all() { e3::point("notifyall"); int n = (int)q.size(); for (int p : q) st[p] = 2; q.clear(); return n; }
};
}

#define atomic verif_atomic
#define mutex VMutex
#define condition_variable VCond
#define private public
#define protected public
#include <photon/thread/go.h>
#undef private
#undef protected
#undef condition_variable
#undef mutex
#undef atomic

typedef photon::channel<int> Chan;

static std::vector<std::string> split(const std::string& s, char c) {
    std::vector<std::string> v; std::string cur;
    for (char ch : s) { if (ch == c) { v.push_back(cur); cur.clear(); } else cur.push_back(ch); }
    v.push_back(cur); return v;
}
static std::string plist(const std::vector<int>& v) {
    if (v.empty()) return "-";
    std::string s; for (size_t i = 0; i < v.size(); i++) { if (i) s += ","; s += std::to_string(v[i]); } return s;
}

static void run_script(Chan* ch, int p, const std::string& script, std::vector<long>& res) {
    int seq = 0;
    std::istringstream is(script); std::string w;
    while (is >> w) {
        if (w[0] == 'A') { e3::point("tick"); photon::now = photon::now + 200; res.push_back(0); continue; }
        e3::point("op");
        switch (w[0]) {
        case 'S': res.push_back(ch->send(1000 * p + seq++) ? 1 : 0); break;
        case 'T': res.push_back(ch->send(1000 * p + seq++, photon::Timeout(strtoull(w.c_str() + 1, nullptr, 10))) ? 1 : 0); break;
        case 's': res.push_back(ch->try_send(1000 * p + seq++) ? 1 : 0); break;
        case 'R': { int x = -1; bool ok = ch->recv(x); res.push_back(ok ? x : -1); break; }
        case 'V': { int x = -1; bool ok = ch->recv(x, photon::Timeout(strtoull(w.c_str() + 1, nullptr, 10))); res.push_back(ok ? x : -1); break; }
        case 'r': { int x = -1; bool ok = ch->try_recv(x); res.push_back(ok ? x : -1); break; }
        case 'C': ch->close(); res.push_back(0); break;
        default: break;
        }
    }
}

static std::string run_once(int bound, const std::vector<std::string>& scripts, const std::string& sched) {
    e3::clear_names();
    photon::now = 0;                                        // the clock of Timeout, moved only by op A
    Chan* ch = new Chan(0);                                 // leaked on livelock (parked threads reference it)
    e3::name(&ch->m_closed, "closed");
    e3::name(&ch->m_senders_waiting, "sw");
    e3::name(&ch->m_receivers_waiting, "rw");
    int n = (int)scripts.size();
    std::vector<std::vector<long>> res(n);
    memset(g_dismissed, 0, sizeof g_dismissed);
    e3::Outcome o = e3::run(n, e3::parse_schedule(sched), bound, [&](int p) {
        if (setjmp(g_jb[p]) == 0) run_script(ch, p, scripts[p], res[p]);     // else: dismissed while blocked, the thread ends here
    });
    std::string out = "res=";
    for (int p = 0; p < n; p++) {
        if (p) out += "|";
        for (size_t i = 0; i < res[p].size(); i++) { if (i) out += ","; out += std::to_string(res[p][i]); }
    }
    std::vector<int> bl;
    for (int p = 0; p < n; p++) if (!o.finished[p] || g_dismissed[p]) bl.push_back(p);
    out += " blocked=" + plist(bl);
    out += " slot=" + std::to_string(ch->m_handoff_ready ? (ch->m_handoff_ptr ? (long)*ch->m_handoff_ptr : -2L) : -1L);
    out += " closed=" + std::to_string((int)ch->m_closed.std::atomic<bool>::load());
    out += " sw=" + std::to_string(ch->m_senders_waiting.std::atomic<int>::load());
    out += " rw=" + std::to_string(ch->m_receivers_waiting.std::atomic<int>::load());
    out += " seq=" + std::to_string(ch->m_handoff_seq);
    out += " scv=" + plist(ch->m_unbuf_send_cv.q) + " rcv=" + plist(ch->m_unbuf_recv_cv.q);
    out += " mtx=" + (ch->m_unbuf_mutex.owner < 0 ? std::string("-") : std::to_string(ch->m_unbuf_mutex.owner));
    if (!o.error.empty()) out = "E3ERROR " + o.error + " " + out;
    if (getenv("E3_LOG")) out += " LOG " + e3::join(o.log, " ");
    if (!o.livelock) delete ch;
    return out;
}

int main(int argc, char** argv) {
    if (argc < 2) { fprintf(stderr, "usage: %s <casefile>\n", argv[0]); return 2; }
    e3::pin_to_one_cpu();
    std::ifstream in(argv[1]);
    std::string line;
    while (std::getline(in, line)) {
        if (line.empty() || line[0] == '#') continue;
        auto secs = split(line, '|');
        std::istringstream hs(secs[0]); std::string k; int bound = 0;
        if (secs.size() < 3 || !(hs >> k >> bound) || k != "U") { printf("BADCASE\n"); fflush(stdout); continue; }
        std::vector<std::string> scripts(secs.begin() + 1, secs.end() - 1);
        std::string sched = secs.back();
        std::string a = run_once(bound, scripts, sched);
        std::string b = run_once(bound, scripts, sched);
        if (a != b) a = "E3ERROR nondeterministic replay {" + a + "} {" + b + "}";
        printf("%s\n", a.c_str()); fflush(stdout);
    }
    fflush(stdout);
    _exit(0);
}
