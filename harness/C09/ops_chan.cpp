// ops_chan.cpp — the go-style channel ops of the E2 op language (model: coq/C09/C09_E2.v).
//   decl:  chan <capacity> [<fx>]        photon::channel<int>(capacity); fx is for the model only
//   ops :  send i d      ch.send(1000*self+seq, Timeout(d))   -> 1 / 0      (d = -1: never)
//          recv i d      ch.recv(x, Timeout(d))               -> x / -1
//          try_send i    ch.try_send(1000*self+seq)           -> 1 / 0
//          try_recv i    ch.try_recv(x)                       -> x / -1
//          close i       ch.close()                           -> 0
// errno is never reported (several false paths of go.h leave it stale); the virtual time stamp of
// every completed op is what shows that a timed-out call returned at its deadline.
#include <photon/thread/thread.h>
#include <photon/thread/go.h>
#include "e2.h"
using namespace e2;
typedef photon::channel<int> Chan;

E2_DECL(chan) { return new Chan((size_t)d.u(0, 0)); }

static Chan* ch_of(Ctx& c, const Item& op) {
    return c.env.obj_is(op.a(0), "chan") ? c.env.obj<Chan>(op.a(0)) : nullptr;
}
E2_OP(send) {
    auto ch = ch_of(c, op); if (!ch) return RV(SKIPPED);
    int v = 1000 * c.self + (int)c.me.local[0]++;
    bool ok = ch->send(v, photon::Timeout(op.u(1, (uint64_t)-1)));
    return RV(ok ? 1 : 0, 0);
}
E2_OP(recv) {
    auto ch = ch_of(c, op); if (!ch) return RV(SKIPPED);
    int x = -1;
    bool ok = ch->recv(x, photon::Timeout(op.u(1, (uint64_t)-1)));
    return RV(ok ? x : -1, 0);
}
E2_OP(try_send) {
    auto ch = ch_of(c, op); if (!ch) return RV(SKIPPED);
    int v = 1000 * c.self + (int)c.me.local[0]++;
    return RV(ch->try_send(v) ? 1 : 0, 0);
}
E2_OP(try_recv) {
    auto ch = ch_of(c, op); if (!ch) return RV(SKIPPED);
    int x = -1;
    bool ok = ch->try_recv(x);
    return RV(ok ? x : -1, 0);
}
E2_OP(close) {
    auto ch = ch_of(c, op); if (!ch) return RV(SKIPPED);
    ch->close();
    return RV(0, 0);
}
