// C09 / engine E3: the BUFFERED path of photon::channel<int> (thread/go.h 259-355, close 153-159) and the real MPMC
// ring (common/lockfree_queue.h), /repo untouched, under the lock-step controller of harness/E3/e3.h.
// Every access to m_closed, m_senders_waiting, m_receivers_waiting, the ring's head/tail/marks is an
// instrumentation point; photon::semaphore is replaced by VSem, a counter + FIFO wait queue with the in-order
// resume of thread.cpp 1887-1922 (signal = add, wake the head waiters while the local count lasts; a woken
// waiter subtracts in its own next step or queues again; flavor 1 = the wait times out).
// case:   E <capacity> <bound> | <script p0> | <script p1> | ... | <e3 schedule (base-36 digits)>
//         script ops: S send (never times out)  R recv  s try_send  r try_recv  C close
//                     T<d> send with Timeout(d)  A = one point "tick", then photon::now += 200 (harness-controlled
//                     clock: photon::now is 0 at the start of every run and only changes through A; finding F40)
// output: res=<results p0>|<results p1>|.. blocked=<p,..|-> q=<items> closed=<0|1> sw=<n> rw=<n> ssem=<cnt> rsem=<cnt>
//         results: S/s -> 1|0, R/r -> value|-1, C -> 0 ; a participant that did not finish is listed in blocked
// The expected line and the schedule are produced by the model (coq/C09/C09_E3.v, ocaml/C09_e3_run.ml).
#include "../E3/e3.h"
#include <fstream>
#include <iostream>
#include <sstream>
#include <algorithm>
#include <cerrno>
#include <photon/common/timeout.h>
#include <photon/common/utility.h>
#include <photon/thread/thread.h>
#include <photon/thread/thread11.h>

namespace photon {
struct VSem {
    uint64_t cnt = 0;
    std::vector<int> q;            // FIFO of waiting participants
    char woken[64] = {0};
    explicit VSem(uint64_t c = 0, bool = true) : cnt(c) {}
    void resume(uint64_t c) { while (!q.empty() && c > 0) { woken[q.front()] = 1; q.erase(q.begin()); c--; } }
    int wait(uint64_t, Timeout = {}) {
        int me = e3::me();
        e3::point("semwait");                              // first section: subtract or enqueue
        if (cnt >= 1) { cnt -= 1; return 0; }
        q.push_back(me);
        for (;;) {
            e3::point("semblk");                           // asleep / woken
            if (e3::flavor() == 1) {                       // the deadline expires
                q.erase(std::remove(q.begin(), q.end(), me), q.end()); woken[me] = 0;
                if (cnt > 0) resume(cnt);
                errno = ETIMEDOUT; return -1;
            }
            if (woken[me]) { woken[me] = 0; if (cnt >= 1) { cnt -= 1; return 0; } q.push_back(me); }
        }
    }
    int signal(uint64_t n) { e3::point("semsig"); cnt += n; resume(cnt); return 0; }
};
}

#define atomic verif_atomic
#define semaphore VSem
#define private public
#define protected public
#include <photon/common/lockfree_queue.h>
#include <photon/thread/go.h>
#undef private
#undef protected
#undef semaphore
#undef atomic

typedef photon::channel<int> Chan;

static std::vector<std::string> split(const std::string& s, char c) {
    std::vector<std::string> v; std::string cur;
    for (char ch : s) { if (ch == c) { v.push_back(cur); cur.clear(); } else cur.push_back(ch); }
    v.push_back(cur); return v;
}

static std::string run_once(size_t cap, int bound, const std::vector<std::string>& scripts, const std::string& sched) {
    e3::clear_names();
    photon::now = 0;                                        // the clock of Timeout::expired(), moved only by op A
    Chan* ch = new Chan(cap);                               // leaked on livelock (parked threads reference it)
    e3::name(&ch->m_closed, "closed");
    e3::name(&ch->m_senders_waiting, "sw");
    e3::name(&ch->m_receivers_waiting, "rw");
    auto qu = ch->m_queue;
    e3::name(&qu->head, "head"); e3::name(&qu->tail, "tail");
    for (size_t i = 0; i < qu->capacity; i++) e3::name(&qu->slots[i].mark, "mark", (long)i);
    int n = (int)scripts.size();
    std::vector<std::vector<long>> res(n);
    e3::Outcome o = e3::run(n, e3::parse_schedule(sched), bound, [&](int p) {
        int seq = 0;
        std::istringstream is(scripts[p]); std::string w;
        while (is >> w) {
            switch (w[0]) {
            case 'S': res[p].push_back(ch->send(1000 * p + seq++) ? 1 : 0); break;
            case 'T': res[p].push_back(ch->send(1000 * p + seq++, photon::Timeout(strtoull(w.c_str() + 1, nullptr, 10))) ? 1 : 0); break;
            case 'A': e3::point("tick"); photon::now = photon::now + 200; res[p].push_back(0); break;
            case 's': res[p].push_back(ch->try_send(1000 * p + seq++) ? 1 : 0); break;
            case 'R': { int x = -1; bool ok = ch->recv(x); res[p].push_back(ok ? x : -1); break; }
            case 'r': { int x = -1; bool ok = ch->try_recv(x); res[p].push_back(ok ? x : -1); break; }
            case 'C': ch->close(); res[p].push_back(0); break;
            default: break;
            }
        }
    });
    std::string out = "res=";
    for (int p = 0; p < n; p++) {
        if (p) out += "|";
        for (size_t i = 0; i < res[p].size(); i++) { if (i) out += ","; out += std::to_string(res[p][i]); }
    }
    out += " blocked=";
    bool first = true;
    for (int p = 0; p < n; p++) if (!o.finished[p]) { out += (first ? "" : ","); out += std::to_string(p); first = false; }
    if (first) out += "-";
    out += " q=" + std::to_string((size_t)(qu->tail.std::atomic<size_t>::load() - qu->head.std::atomic<size_t>::load()));
    out += " closed=" + std::to_string((int)ch->m_closed.std::atomic<bool>::load());
    out += " sw=" + std::to_string(ch->m_senders_waiting.std::atomic<int>::load());
    out += " rw=" + std::to_string(ch->m_receivers_waiting.std::atomic<int>::load());
    out += " ssem=" + std::to_string(ch->m_send_sem.cnt) + " rsem=" + std::to_string(ch->m_recv_sem.cnt);
    if (!o.error.empty()) out = "E3ERROR " + o.error + " " + out;
    if (getenv("E3_LOG")) out += " LOG " + e3::join(o.log, " ");
    if (!o.livelock) delete ch;
    return out;
}

int main(int argc, char** argv) {
    if (argc < 2) { fprintf(stderr, "usage: %s <casefile>\n", argv[0]); return 2; }
    e3::pin_to_one_cpu();
    std::ifstream in(argv[1]);
    std::string line;
    while (std::getline(in, line)) {
        if (line.empty() || line[0] == '#') continue;
        auto secs = split(line, '|');
        std::istringstream hs(secs[0]); std::string k; size_t cap = 0; int bound = 0;
        if (secs.size() < 3 || !(hs >> k >> cap >> bound) || k != "E" || cap == 0) { printf("BADCASE\n"); fflush(stdout); continue; }
        std::vector<std::string> scripts(secs.begin() + 1, secs.end() - 1);
        std::string sched = secs.back();
        std::string a = run_once(cap, bound, scripts, sched);
        std::string b = run_once(cap, bound, scripts, sched);
        if (a != b) a = "E3ERROR nondeterministic replay {" + a + "} {" + b + "}";
        printf("%s\n", a.c_str()); fflush(stdout);
    }
    fflush(stdout);
    _exit(0);
}
