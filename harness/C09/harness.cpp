// C09 direct harness: thread programs over ONE photon::channel<int> on the REAL photon runtime,
// one vCPU, no clock dependence (only Timeout(0) = expired at once and the default Timeout = never
// are used here; finite timeouts are replayed through engine E2, harness/C09/ops_chan.cpp).
//
// case line:   U | <ops of T1> | <ops of T2> | ...        unbuffered channel
//              B <capacity> | <ops of T1> | ...           buffered channel
//   ops (space separated):  S<d> send, R<d> recv (d = n: never, 0: Timeout(0)), s try_send,
//                           r try_recv, C close, Y thread_yield
//   T1..Tn are created in this order by the main thread, which then yields until every program
//   thread is SLEEPING or DONE (quiescence: on one vCPU, with no timers, nothing can run again).
// output line: <t>.<K>.<res>[.<sender>.<seq>] ... / blocked=<t>,...|-
//   K = S R s r C Y;  res: 1 true, 2 false (closed), 3 false (errno == ETIMEDOUT), 0 false (try_*)
// All cases run in one process on one vCPU; after a case the channel is closed, which releases every
// blocked thread (their further operations are not recorded), and the threads are joined; a thread
// that still does not finish is abandoned together with its channel.
#include <photon/photon.h>
#include <photon/thread/thread.h>
#include <photon/thread/thread11.h>
#include <photon/thread/stack-allocator.h>
#include <photon/common/alog.h>
#include <photon/thread/go.h>
#include <cstdio>
#include <cstdlib>
#include <cstring>
#include <string>
#include <vector>
#include <sstream>
#include <fstream>
#include <unistd.h>
#include <poll.h>
#include <signal.h>
#include <sys/wait.h>

struct Op { char k; bool never; };
struct Ev { int t; char k; int res; bool hasv; int v; };

static std::vector<Ev> g_ev;
static photon::channel<int>* g_ch;
static bool g_over;     // the case is over: released threads stop at once

static void run_prog(int t, const std::vector<Op>* ops) {
    int seq = 0;
    for (auto& op : *ops) {
        if (g_over) return;
        Ev e{t, op.k, 0, false, 0};
        errno = 0;
        switch (op.k) {
        case 'S': {
            int v = 1000 * t + seq++;
            bool ok = op.never ? g_ch->send(v) : g_ch->send(v, photon::Timeout(0));
            e.res = ok ? 1 : (errno == ETIMEDOUT ? 3 : 2); e.hasv = true; e.v = v; break; }
        case 's': {
            int v = 1000 * t + seq++;
            bool closed_before = g_ch->is_closed();
            bool ok = g_ch->try_send(v);
            e.res = ok ? 1 : (closed_before ? 2 : 0); e.hasv = true; e.v = v; break; }
        case 'R': {
            int x = -1;
            bool ok = op.never ? g_ch->recv(x) : g_ch->recv(x, photon::Timeout(0));
            e.res = ok ? 1 : (errno == ETIMEDOUT ? 3 : 2); e.hasv = ok; e.v = x; break; }
        case 'r': {
            int x = -1;
            bool ok = g_ch->try_recv(x);
            e.res = ok ? 1 : 0; e.hasv = ok; e.v = x; break; }
        case 'C': g_ch->close(); e.res = 1; break;
        case 'Y': e.res = 1; g_ev.push_back(e); photon::thread_yield(); continue;   // logged at the call
        }
        if (g_over) return;
        g_ev.push_back(e);
    }
}

static std::string run_case(const std::string& line) {
    std::vector<std::string> secs;
    { std::string cur; for (char c : line) { if (c == '|') { secs.push_back(cur); cur.clear(); } else cur.push_back(c); } secs.push_back(cur); }
    if (secs.size() < 2) return "BADCASE";
    std::istringstream hs(secs[0]);
    std::string kind; hs >> kind;
    if (!kind.empty() && kind.back() == 'x') kind.pop_back();   // "Ux"/"Bx": tag for the model only
    size_t cap = 0;
    if (kind == "B") { if (!(hs >> cap) || cap == 0) return "BADCASE"; }
    else if (kind != "U") return "BADCASE";
    std::vector<std::vector<Op>> progs;
    for (size_t i = 1; i < secs.size(); i++) {
        std::istringstream is(secs[i]); std::string w; std::vector<Op> p;
        while (is >> w) {
            Op o{w[0], false};
            if (w[0] == 'S' || w[0] == 'R') {
                if (w.size() < 2) return "BADCASE";
                if (w[1] == 'n') o.never = true; else if (w != std::string(1, w[0]) + "0") return "BADCASE";
            } else if (!(w == "s" || w == "r" || w == "C" || w == "Y")) return "BADCASE";
            p.push_back(o);
        }
        progs.push_back(p);
    }
    g_ev.clear(); g_over = false;
    g_ch = new photon::channel<int>(cap);
    int n = (int)progs.size();
    std::vector<photon::thread*> th(n);
    for (int i = 0; i < n; i++) {
        th[i] = photon::thread_create11((uint64_t)(128 * 1024), &run_prog, i + 1, &progs[i]);
        photon::thread_enable_join(th[i]);
    }
    for (long rounds = 0;; rounds++) {
        photon::thread_yield();
        bool quiet = true;
        for (int i = 0; i < n; i++) {
            auto st = photon::thread_stat(th[i]);
            if (st != photon::SLEEPING && st != photon::DONE) quiet = false;
        }
        if (quiet) break;
        if (rounds > 1000000) return "LIVELOCK";
    }
    std::string out;
    char buf[64];
    for (auto& e : g_ev) {
        if (!out.empty()) out += ' ';
        snprintf(buf, sizeof buf, "%d.%c.%d", e.t, e.k, e.res); out += buf;
        if (e.hasv) { snprintf(buf, sizeof buf, ".%d.%d", e.v / 1000, e.v % 1000); out += buf; }
    }
    if (out.empty()) out = "-";
    out += " / blocked=";
    bool first = true;
    for (int i = 0; i < n; i++)
        if (photon::thread_stat(th[i]) != photon::DONE) { snprintf(buf, sizeof buf, "%s%d", first ? "" : ",", i + 1); out += buf; first = false; }
    if (first) out += "-";
    // clean up: release whoever is blocked, join
    g_over = true;
    g_ch->close();
    bool all = false;
    for (int rounds = 0; rounds < 1000 && !all; rounds++) {
        photon::thread_yield();
        all = true;
        for (int i = 0; i < n; i++) if (photon::thread_stat(th[i]) != photon::DONE) all = false;
    }
    for (int i = 0; i < n; i++) if (photon::thread_stat(th[i]) == photon::DONE) photon::thread_join((photon::join_handle*)th[i]);
    if (all) delete g_ch;
    return out;
}

int main(int argc, char** argv) {
    if (argc < 2) { fprintf(stderr, "usage: %s <casefile>\n", argv[0]); return 2; }
    log_output_level = ALOG_FATAL + 1;
    photon::use_pooled_stack_allocator();      // no mmap/munmap per thread
    if (photon::vcpu_init() < 0) { fprintf(stderr, "vcpu_init failed\n"); return 3; }
    std::ifstream in(argv[1]);
    std::string line;
    while (std::getline(in, line)) {
        if (line.empty() || line[0] == '#') continue;
        printf("%s\n", run_case(line).c_str());
        fflush(stdout);
    }
    fflush(stdout);
    _exit(0);                                  // abandoned threads must not be waited for
}
