// e3.h — engine E3: lock-step atomic-step replay of header-only lock-free code.
//
// Usage in a harness translation unit (see notes/E3.md, harness/C07/harness.cpp):
//
//     #include "../E3/e3.h"                       // system headers, controller, std::verif_atomic<T>
//     #include <photon/thread/thread.h>           // every header the code under test includes, FIRST
//     ...
//     #define atomic verif_atomic                 // from here on `std::atomic<T>` reads `std::verif_atomic<T>`
//     #include <photon/common/lockfree_queue.h>   // the header under test, /repo untouched
//     #undef atomic
//
// Every load/store/RMW of a verif_atomic executed by a *participant* thread is an instrumentation
// point: the participant parks before the operation, the controller lets exactly one participant
// run from its point (inclusive) to its next point (exclusive) in the order given by a SCHEDULE,
// and the operation is logged as `participant.kind.address-name.values`.  Addresses are logged by
// the names registered with e3::name(), never as raw pointers.  Threads that are not participants
// (the harness main thread preparing / inspecting the object) pass straight through.
//
// Because one participant runs at a time and the hand-over is a semaphore operation, every
// execution under E3 is sequentially consistent BY CONSTRUCTION: E3 validates the algorithm over
// SC interleavings of its atomic operations, not the hardware memory model (DESIGN.md §4.4).
#pragma once
#include <atomic>
#include <cstddef>
#include <cstdint>
#include <cstdio>
#include <cstdlib>
#include <cstring>
#include <cinttypes>
#include <functional>
#include <map>
#include <memory>
#include <string>
#include <thread>
#include <type_traits>
#include <utility>
#include <vector>
#include <semaphore.h>
#include <pthread.h>
#include <time.h>
#include <unistd.h>
#include <sched.h>
#include <errno.h>

namespace e3 {

// ---------------------------------------------------------------- names -----
struct Names {
    std::map<const void*, std::string> m;
};
inline Names& names() { static Names n; return n; }
inline void clear_names() { names().m.clear(); }
// register a logical name for an address: name(&q.head,"head"), name(&q.slots[i].mark,"mark",i)
inline void name(const volatile void* a, const char* nm, long idx = -1) {
    std::string s(nm);
    if (idx >= 0) s += "[" + std::to_string(idx) + "]";
    names().m[const_cast<const void*>(a)] = s;
}

// ---------------------------------------------------------------- run state -
struct Run {
    int n = 0;                                  // participants
    std::vector<sem_t> psem;                    // one per participant: "you may run"
    sem_t csem;                                 // controller: "the running participant parked / finished"
    std::vector<char> finished;
    std::vector<std::string> log;               // one entry per executed instrumentation point
    bool aborting = false;                      // step bound hit: the remaining participants stay parked for ever
    int flavor = 0;                             // schedule entry = p + n*flavor; readable by instrumented primitives
    std::string error;                          // harness-level error (unnamed address, ...)
};
inline Run*& cur() { static Run* r = nullptr; return r; }
inline int& me() { static thread_local int p = -1; return p; }
inline int flavor() { return cur() ? cur()->flavor : 0; }
inline bool in_participant() { return me() >= 0 && cur() != nullptr; }

inline void die(const char* msg) {
    fprintf(stderr, "E3ERROR %s\n", msg); fflush(stderr); _exit(97);
}
inline void cwait(Run* r) {                     // controller waits for the running participant, with a watchdog
    timespec ts; clock_gettime(CLOCK_REALTIME, &ts); ts.tv_sec += 20;
    while (sem_timedwait(&r->csem, &ts) != 0) {
        if (errno == EINTR) continue;
        die("participant did not reach an instrumentation point within 20 s (uninstrumented wait loop?)");
    }
}

// park before an instrumentation point; returns when the controller schedules this participant
inline void pre() {
    Run* r = cur();
    if (me() < 0 || !r) return;
    sem_post(&r->csem);
    while (sem_wait(&r->psem[me()]) != 0) {}
    if (r->aborting) { for (;;) pause(); }      // never scheduled again (thread is leaked, see run())
}

template <class T, class = void> struct Show {
    static std::string s(const T& v) {
        // integral / enum / bool: printed as the unsigned value of the same width
        typename std::make_unsigned<typename std::conditional<std::is_same<T, bool>::value, unsigned char, T>::type>::type u =
            (typename std::make_unsigned<typename std::conditional<std::is_same<T, bool>::value, unsigned char, T>::type>::type)v;
        return std::to_string((unsigned long long)u);
    }
};
template <class T> struct Show<T*, void> {      // pointers are printed by registered name only
    static std::string s(T* const& v) {
        if (!v) return "null";
        auto& m = names().m; auto it = m.find((const void*)v);
        if (it == m.end()) { if (cur()) cur()->error = "unnamed pointer value"; return "?"; }
        return it->second;
    }
};
template <class T> inline std::string show(const T& v) { return Show<T>::s(v); }

inline std::string addr_name(const volatile void* a) {
    auto& m = names().m; auto it = m.find(const_cast<const void*>(a));
    if (it == m.end()) { if (cur()) cur()->error = "atomic access to an address without a registered name"; return "?"; }
    return it->second;
}
// log the point just executed:  p.kind.addr[.v1[.v2[.v3]]]
inline void post(const char* kind, const volatile void* a, const std::string& v1 = "", const std::string& v2 = "",
                 const std::string& v3 = "", const std::string& v4 = "") {
    Run* r = cur();
    if (me() < 0 || !r || r->aborting) return;
    std::string s = std::to_string(me()); s += '.'; s += kind;
    if (a) { s += '.'; s += addr_name(a); }
    if (!v1.empty()) { s += '.'; s += v1; }
    if (!v2.empty()) { s += '.'; s += v2; }
    if (!v3.empty()) { s += '.'; s += v3; }
    if (!v4.empty()) { s += '.'; s += v4; }
    r->log.push_back(std::move(s));
}
// a point that is not an atomic operation: a spin/pause/yield iteration, or a step of an
// instrumented primitive (counter semaphore, ...).  `name` is logged verbatim.
inline void point(const char* kind, const char* nm = nullptr, const std::string& v1 = "", const std::string& v2 = "") {
    pre();
    Run* r = cur();
    if (me() < 0 || !r || r->aborting) return;
    std::string s = std::to_string(me()); s += '.'; s += kind;
    if (nm) { s += '.'; s += nm; }
    if (!v1.empty()) { s += '.'; s += v1; }
    if (!v2.empty()) { s += '.'; s += v2; }
    r->log.push_back(std::move(s));
}
// optional: the harness calls this right after an op of the running participant's script returned; it
// appends '!' to the log entry of the step in which the op completed (model side: obs with o_v4 = 1 on a
// non-CAS kind).  Lets an oracle see from the log which participants are inside an operation.
inline void mark_done() {
    Run* r = cur();
    if (me() < 0 || !r || r->aborting || r->log.empty()) return;
    r->log.back() += "!";
}
// the pause()/spin_wait()/yield() replacement: one stutter step of the spinning participant
inline void spin() { point("sp"); }
// for code templated on a Pause policy derive one in the harness AFTER including the header under
// test:   struct E3Pause : PauseBase { static void pause() { e3::spin(); } };

// Only one thread of the harness runs at any time, so pin the whole process to one CPU: the
// hand-over then never needs a cross-CPU wake-up (100x faster inside a VM).  Call first in main().
inline void pin_to_one_cpu() {
    cpu_set_t all; CPU_ZERO(&all);
    if (sched_getaffinity(0, sizeof all, &all) != 0) return;
    std::vector<int> cpus;
    for (int i = 0; i < CPU_SETSIZE; i++) if (CPU_ISSET(i, &all)) cpus.push_back(i);
    if (cpus.empty()) return;
    int c = cpus[(size_t)getpid() % cpus.size()];       // shards started together get consecutive pids
    cpu_set_t set; CPU_ZERO(&set); CPU_SET(c, &set);
    sched_setaffinity(0, sizeof set, &set);
}

// ---------------------------------------------------------------- controller
struct Outcome {
    bool livelock = false;              // step bound reached with unfinished participants
    std::vector<std::string> log;
    std::vector<char> finished;
    std::string error;
    int steps() const { return (int)log.size(); }
};

// Runs body(p) for p = 0..n-1, each on its own OS thread, serialised by the schedule.
// Schedule entry e: participant e % n, flavor e / n.  Entries naming a finished participant are
// skipped; when the schedule is exhausted the next unfinished participant after the last one run
// (cyclically) is chosen with flavor 0; at most `bound` scheduler decisions (skips included).  The same rule is implemented by
// coq/E3/E3_Run.v (e3_run).  If the bound is reached the unfinished participants stay parked for
// ever: their threads — and whatever they reference, the caller must leak it — are abandoned.
inline Outcome run(int n, const std::vector<int>& sched, int bound, const std::function<void(int)>& body) {
    Run* r = new Run();                 // leaked on livelock (abandoned threads still point to it)
    r->n = n; r->psem.resize(n); r->finished.assign(n, 0);
    sem_init(&r->csem, 0, 0);
    for (int p = 0; p < n; p++) sem_init(&r->psem[p], 0, 0);
    cur() = r;
    std::vector<std::thread> th;
    for (int p = 0; p < n; p++) {
        th.emplace_back([r, p, &body]() {
            me() = p;
            body(p);                    // runs up to the first point, parks there (pre), ...
            r->finished[p] = 1;
            me() = -1;
            sem_post(&r->csem);
        });
        cwait(r);                       // p is parked at its first point, or finished
    }
    size_t pos = 0; int last = n - 1, steps = 0;
    Outcome o;
    for (;;) {
        bool all = true; for (int p = 0; p < n; p++) if (!r->finished[p]) all = false;
        if (all) break;
        if (steps >= bound) { o.livelock = true; break; }
        int p = -1, f = 0;
        if (pos < sched.size()) {
            int e = sched[pos++]; p = e % n; f = e / n;
            if (r->finished[p]) { steps++; continue; }      // a skipped entry costs one unit of the bound
        } else {
            for (int k = 1; k <= n; k++) { int c = (last + k) % n; if (!r->finished[c]) { p = c; break; } }
        }
        r->flavor = f;
        size_t before = r->log.size();
        sem_post(&r->psem[p]);
        cwait(r);
        if (r->log.size() != before + 1) r->error = "a scheduled step logged " + std::to_string(r->log.size() - before) + " points (pre/post mismatch)";
        last = p; steps++;
    }
    o.log = r->log; o.finished = r->finished; o.error = r->error;
    if (o.livelock) {
        r->aborting = true;
        for (auto& t : th) t.detach();  // parked threads are abandoned (never scheduled again)
        for (int p = 0; p < n; p++) if (r->finished[p]) { /* already exited */ }
        cur() = nullptr;                // NOTE: Run object intentionally leaked
    } else {
        for (auto& t : th) t.join();
        cur() = nullptr;
        for (int p = 0; p < n; p++) sem_destroy(&r->psem[p]);
        sem_destroy(&r->csem);
        delete r;
    }
    return o;
}

// FNV-1a 64 over the log entries joined by ' ' (same function in the OCaml runners)
inline uint64_t digest(const std::vector<std::string>& log) {
    uint64_t h = 14695981039346656037ULL;
    bool first = true;
    for (auto& s : log) {
        if (!first) { h ^= (unsigned char)' '; h *= 1099511628211ULL; }
        first = false;
        for (unsigned char c : s) { h ^= c; h *= 1099511628211ULL; }
    }
    return h;
}
inline std::string join(const std::vector<std::string>& v, const char* sep) {
    std::string s; for (size_t i = 0; i < v.size(); i++) { if (i) s += sep; s += v[i]; } return s;
}
// schedule string: one base-36 digit per entry ("0120a")
inline std::vector<int> parse_schedule(const std::string& s) {
    std::vector<int> v;
    for (char c : s) {
        if (c >= '0' && c <= '9') v.push_back(c - '0');
        else if (c >= 'a' && c <= 'z') v.push_back(10 + c - 'a');
    }
    return v;
}

}  // namespace e3

// ---------------------------------------------------------------- verif_atomic
namespace std {
template <class T>
struct verif_atomic : public atomic<T> {
    using B = atomic<T>;
    verif_atomic() noexcept = default;
    constexpr verif_atomic(T v) noexcept : B(v) {}
    verif_atomic(const verif_atomic&) = delete;
    verif_atomic& operator=(const verif_atomic&) = delete;

    T load(memory_order mo = memory_order_seq_cst) const {
        e3::pre(); T v = B::load(mo); e3::post("ld", this, e3::show(v)); return v;
    }
    operator T() const { return load(); }
    void store(T v, memory_order mo = memory_order_seq_cst) {
        e3::pre(); B::store(v, mo); e3::post("st", this, e3::show(v));
    }
    T operator=(T v) { store(v); return v; }
    T exchange(T v, memory_order mo = memory_order_seq_cst) {
        e3::pre(); T o = B::exchange(v, mo); e3::post("xg", this, e3::show(v), e3::show(o)); return o;
    }
    // CAS: logged as  expected.desired.observed.ok   (weak is executed as strong: no spurious failure
    // under E3, so that the model needs no extra nondeterminism; x86 never fails spuriously anyway)
    bool compare_exchange_strong(T& e, T d, memory_order s, memory_order f) {
        e3::pre(); T e0 = e; bool ok = B::compare_exchange_strong(e, d, s, f);
        e3::post("cas", this, e3::show(e0), e3::show(d), e3::show(ok ? e0 : e), ok ? "1" : "0"); return ok;
    }
    bool compare_exchange_strong(T& e, T d, memory_order mo = memory_order_seq_cst) {
        e3::pre(); T e0 = e; bool ok = B::compare_exchange_strong(e, d, mo);
        e3::post("cas", this, e3::show(e0), e3::show(d), e3::show(ok ? e0 : e), ok ? "1" : "0"); return ok;
    }
    bool compare_exchange_weak(T& e, T d, memory_order s, memory_order f) { return compare_exchange_strong(e, d, s, f); }
    bool compare_exchange_weak(T& e, T d, memory_order mo = memory_order_seq_cst) { return compare_exchange_strong(e, d, mo); }

    // operand type of the arithmetic RMWs: T itself, or ptrdiff_t for pointers (members of a class
    // template are only instantiated when used, so non-arithmetic T is fine as long as unused)
    using D = typename conditional<is_pointer<T>::value, ptrdiff_t, T>::type;
    T fetch_add(D a, memory_order mo = memory_order_seq_cst) {
        e3::pre(); T o = B::fetch_add(a, mo); e3::post("fa", this, e3::show(a), e3::show(o)); return o;
    }
    T fetch_sub(D a, memory_order mo = memory_order_seq_cst) {
        e3::pre(); T o = B::fetch_sub(a, mo); e3::post("fs", this, e3::show(a), e3::show(o)); return o;
    }
    T fetch_or(T a, memory_order mo = memory_order_seq_cst) {
        e3::pre(); T o = B::fetch_or(a, mo); e3::post("fo", this, e3::show(a), e3::show(o)); return o;
    }
    T fetch_and(T a, memory_order mo = memory_order_seq_cst) {
        e3::pre(); T o = B::fetch_and(a, mo); e3::post("fn", this, e3::show(a), e3::show(o)); return o;
    }
    T fetch_xor(T a, memory_order mo = memory_order_seq_cst) {
        e3::pre(); T o = B::fetch_xor(a, mo); e3::post("fx", this, e3::show(a), e3::show(o)); return o;
    }
    T operator++() { return fetch_add(1) + 1; }
    T operator++(int) { return fetch_add(1); }
    T operator--() { return fetch_sub(1) - 1; }
    T operator--(int) { return fetch_sub(1); }
    T operator+=(D a) { return fetch_add(a) + a; }
    T operator-=(D a) { return fetch_sub(a) - a; }
    T operator|=(T a) { return fetch_or(a) | a; }
    T operator&=(T a) { return fetch_and(a) & a; }
    T operator^=(T a) { return fetch_xor(a) ^ a; }
};
static_assert(sizeof(verif_atomic<uint64_t>) == sizeof(atomic<uint64_t>), "verif_atomic must keep the layout of std::atomic");
}  // namespace std
