// C10 implementation harness.
//   D-cases (part 1): the real KernelSocketStream (net/kernel_socket.cpp compiled into this TU, running on the
//     real net/basic_socket.cpp inside libphoton.so) over a scripted kernel: recv/send/recvmsg/sendmsg/sendfile
//     are interposed by this executable and the vCPU's master event engine is a scripted MasterEventEngine.
//   E-cases (part 2): see engine.inc — the real EventEngineEPoll (io/epoll.cpp compiled into this TU) over
//     interposed epoll_create/epoll_ctl/epoll_wait/eventfd.
//   N-cases (part 2b): the real EventEngineEPollNG (io/epoll-ng.cpp compiled into this TU) over the same mock
//     kernel with one interest list per fake epoll descriptor and nested-epoll readiness.
// One output line per case, same format as ocaml/C10_run.ml.
#include <cstdio>
#include <cstdlib>
#include <cstring>
#include <cinttypes>
#include <cerrno>
#include <cstdarg>
#include <string>
#include <vector>
#include <map>
#include <set>
#include <deque>
#include <sstream>
#include <fstream>
#include <iostream>
#include <algorithm>
#include <memory>
#include <unordered_map>
#include <chrono>
#include <dlfcn.h>
#include <unistd.h>
#include <fcntl.h>
#include <sys/socket.h>
#include <sys/uio.h>
#include <sys/epoll.h>
#include <sys/eventfd.h>
#include <sys/sendfile.h>
#include <photon/photon.h>
#include <photon/thread/thread.h>
#include <photon/thread/thread11.h>
#include <photon/io/fd-events.h>
#include <photon/common/alog.h>
#include <photon/common/timeout.h>
#include <photon/net/socket.h>

// the file-local class KernelSocketStream
#include "net/kernel_socket.cpp"
// the file-local class EventEngineEPoll
#include "io/epoll.cpp"
// the file-local class EventEngineEPollNG (its helper macros must not leak into the rest of this file)
#include "io/epoll-ng.cpp"
#undef engine
#undef rpoller
#undef wpoller
#undef epoller
#undef poller

using photon::net::KernelSocketStream;

static std::vector<std::string> split(const std::string& s, char c) {
    std::vector<std::string> out; std::string cur;
    for (char ch : s) { if (ch == c) { if (!cur.empty()) out.push_back(cur); cur.clear(); } else cur += ch; }
    if (!cur.empty()) out.push_back(cur);
    return out;
}

// ---------------------------------------------------------------- part 1: scripted kernel -----------------
static const int MOCKFD = 1000;          // never a real descriptor in this process
static const size_t STRIDE = 4096;
static const int NBUF = 8;
static const unsigned char FILL = 0xEE;

struct SysAns { bool fail; int64_t v; };
struct WaitAns { char k; uint64_t d; int e; };      // 'w' ready after d, 'n' never, 'x' interrupted after d with e

struct DState {
    bool active = false;
    std::deque<SysAns> sys;
    std::deque<WaitAns> wt;
    bool exhausted = false, hang = false;
    uint64_t now0 = 0, virt = 0;
    uint64_t delivered = 0;                // number of bytes the "peer" has delivered so far (receive side)
    std::string log;
    std::string wire;                      // hex of the bytes handed to the kernel by send-type calls
    unsigned char* arena = nullptr;
} D;

static unsigned char content_byte(uint64_t a) { return (unsigned char)((a * 131 + (a / STRIDE) * 17 + 7) % 256); }
static unsigned char src_byte(uint64_t j) { return (unsigned char)((j * 37 + 11) % 256); }
static void hex(std::string& s, unsigned char b) { static const char* h = "0123456789abcdef"; s += h[b >> 4]; s += h[b & 15]; }

// kind: 0 recv 1 send 2 recvmsg 3 sendmsg 4 sendfile
static ssize_t mock_sys(int kind, int flags, const struct iovec* iov, size_t cnt, off_t* sf_off, size_t sf_count) {
    if (D.exhausted || D.hang || D.sys.empty()) { D.exhausted = true; errno = EBADF; return -1; }
    SysAns a = D.sys.front(); D.sys.pop_front();
    char b[96];
    snprintf(b, sizeof b, "S%d,%d,", kind, flags); D.log += b;
    uint64_t sum = 0;
    if (kind == 4) {
        snprintf(b, sizeof b, "%" PRId64 "+%zu", (int64_t)*sf_off, sf_count); D.log += b; sum = sf_count;
    } else {
        for (size_t i = 0; i < cnt; i++) {
            snprintf(b, sizeof b, "%s%" PRId64 "+%zu", i ? "/" : "", (int64_t)((unsigned char*)iov[i].iov_base - D.arena), iov[i].iov_len);
            D.log += b; sum += iov[i].iov_len;
        }
    }
    if (a.fail) {
        snprintf(b, sizeof b, "=%" PRId64 ";", -a.v); D.log += b;
        errno = (int)a.v; return -1;
    }
    uint64_t r = std::min<uint64_t>((uint64_t)a.v, sum);
    snprintf(b, sizeof b, "=%" PRIu64 ";", r); D.log += b;
    uint64_t left = r;
    if (kind == 4) {
        for (uint64_t j = 0; j < r; j++) hex(D.wire, content_byte((uint64_t)*sf_off + j));
        *sf_off += r;
    } else {
        for (size_t i = 0; i < cnt && left; i++) {
            size_t m = std::min<uint64_t>(left, iov[i].iov_len);
            unsigned char* p = (unsigned char*)iov[i].iov_base;
            for (size_t j = 0; j < m; j++) {
                if (kind == 0 || kind == 2) p[j] = src_byte(D.delivered++);
                else hex(D.wire, p[j]);
            }
            left -= m;
        }
    }
    return (ssize_t)r;
}

#define REAL(name) ((decltype(&::name))dlsym(RTLD_NEXT, #name))
extern "C" ssize_t recv(int fd, void* buf, size_t n, int flags) {
    if (!(D.active && fd == MOCKFD)) { static auto f = REAL(recv); return f(fd, buf, n, flags); }
    struct iovec v{buf, n}; return mock_sys(0, flags, &v, 1, nullptr, 0);
}
extern "C" ssize_t send(int fd, const void* buf, size_t n, int flags) {
    if (!(D.active && fd == MOCKFD)) { static auto f = REAL(send); return f(fd, buf, n, flags); }
    struct iovec v{(void*)buf, n}; return mock_sys(1, flags, &v, 1, nullptr, 0);
}
extern "C" ssize_t recvmsg(int fd, struct msghdr* m, int flags) {
    if (!(D.active && fd == MOCKFD)) { static auto f = REAL(recvmsg); return f(fd, m, flags); }
    return mock_sys(2, flags, m->msg_iov, m->msg_iovlen, nullptr, 0);
}
extern "C" ssize_t sendmsg(int fd, const struct msghdr* m, int flags) {
    if (!(D.active && fd == MOCKFD)) { static auto f = REAL(sendmsg); return f(fd, m, flags); }
    return mock_sys(3, flags, m->msg_iov, m->msg_iovlen, nullptr, 0);
}
extern "C" ssize_t sendfile(int out, int in, off_t* off, size_t count) {
    if (!(D.active && out == MOCKFD)) { static auto f = REAL(sendfile); return f(out, in, off, count); }
    return mock_sys(4, 0, nullptr, 0, off, count);
}

static int (*g_epfd_wait)(int fd, photon::Timeout timeout) = nullptr;    // part 2: readiness of the mock epoll fd
class ScriptedEngine : public photon::MasterEventEngine {
public:
    photon::MasterEventEngine* real = nullptr;
    int wait_for_fd(int fd, uint32_t interest, photon::Timeout timeout) override {
        if (interest == 0) return 0;                       // KernelSocketStream::close()
        if (g_epfd_wait && fd == 900) return g_epfd_wait(fd, timeout);
        if (!(D.active && fd == MOCKFD)) return real->wait_for_fd(fd, interest, timeout);
        if (D.exhausted || D.hang || D.wt.empty()) { D.exhausted = true; errno = EBADF; return -1; }
        WaitAns a = D.wt.front(); D.wt.pop_front();
        uint64_t exp = timeout.expiration();
        bool inf = (exp == (uint64_t)-1);
        uint64_t cur = photon::now;                        // == D.now0 + D.virt: virtual time is made visible to Timeout
        uint64_t rem = inf ? 0 : (exp > cur ? exp - cur : 0);
        int ans; int ret; int e = 0;
        if (a.k == 'n' && inf) { D.hang = true; errno = EBADF; return -1; }
        if (a.k != 'n' && (inf || a.d < rem)) {
            D.virt += a.d;
            if (a.k == 'w') { ans = 0; ret = 0; } else { ans = 2; ret = -1; e = a.e; }
        } else { D.virt += rem; ans = 1; ret = -1; e = ETIMEDOUT; }
        char b[96];
        if (inf) snprintf(b, sizeof b, "W%u,-1=%d;", interest, ans);
        else snprintf(b, sizeof b, "W%u,%" PRIu64 "=%d;", interest, rem, ans);
        D.log += b;
        photon::now = D.now0 + D.virt;
        if (ret < 0) errno = e; else errno = photon::EOK;    // the real engine leaves EOK in errno after an event
        return ret;
    }
    ssize_t wait_and_fire_events(uint64_t timeout) override { return real->wait_and_fire_events(timeout); }
    int cancel_wait() override { return real->cancel_wait(); }
};
static ScriptedEngine scripted;

static void run_D(const std::vector<std::string>& f) {
    // D <op> <tmo> <flags> <lens> <sys> <wt>
    if (f.size() != 7) { puts("BADCASE"); return; }
    const std::string& op = f[1];
    uint64_t tmo = (f[2] == "inf") ? (uint64_t)-1 : strtoull(f[2].c_str(), 0, 10);
    int flags = atoi(f[3].c_str());
    std::vector<size_t> lens;
    if (f[4] != "-") for (auto& x : split(f[4], ',')) lens.push_back(strtoull(x.c_str(), 0, 10));
    D = DState();
    if (f[5] != "-") for (auto& x : split(f[5], ',')) D.sys.push_back(SysAns{x[0] == 'e', (int64_t)strtoll(x.c_str() + 1, 0, 10)});
    if (f[6] != "-") for (auto& x : split(f[6], ',')) {
        WaitAns w{x[0], 0, 0};
        if (x[0] == 'w') w.d = strtoull(x.c_str() + 1, 0, 10);
        if (x[0] == 'x') { auto p = split(x.substr(1), ':'); w.d = strtoull(p[0].c_str(), 0, 10); w.e = atoi(p[1].c_str()); }
        D.wt.push_back(w);
    }
    static unsigned char* arena = (unsigned char*)malloc(STRIDE * (NBUF + 1));
    D.arena = arena;
    bool sending = (op == "write" || op == "writev" || op == "send" || op == "sendv");
    for (size_t a = 0; a < STRIDE * NBUF; a++) arena[a] = sending ? content_byte(a) : FILL;
    std::vector<struct iovec> iov, iov0;
    if (op != "sendfile")
        for (size_t i = 0; i < lens.size(); i++) iov.push_back({arena + i * STRIDE, lens[i]});
    iov0 = iov;
    size_t count = lens.empty() ? 0 : lens[0];
    ssize_t ret = -2; int err = 0;
    {
        KernelSocketStream s(MOCKFD);
        s.timeout(tmo);
        D.now0 = photon::now;
        D.active = true;
        errno = 0;
        if (op == "read") ret = s.read(arena, count);
        else if (op == "write") ret = s.write(arena, count);
        else if (op == "readv") ret = s.readv(iov.data(), (int)iov.size());
        else if (op == "writev") ret = s.writev(iov.data(), (int)iov.size());
        else if (op == "recv") ret = s.recv(arena, count, flags);
        else if (op == "send") ret = s.send(arena, count, flags);
        else if (op == "recvv") ret = s.recv(iov.data(), (int)iov.size(), flags);
        else if (op == "sendv") ret = s.send(iov.data(), (int)iov.size(), flags);
        else if (op == "sendfile") ret = s.sendfile(7, (off_t)lens[0], lens[1]);
        err = errno;
        D.active = false;
        photon::now = D.now0;
        s.fd = -1;                                         // do not shutdown()/close() the fake descriptor
    }
    if (D.hang) { puts("HANG"); return; }
    if (D.exhausted) { puts("SCRIPTEND"); return; }
    std::string data;
    bool guard = true, kept = true;
    if (op == "sendfile") {
        for (size_t a = 0; a < STRIDE * NBUF; a++) if (arena[a] != FILL) guard = false;
    } else if (!sending) {
        for (size_t i = 0; i < lens.size(); i++) {
            if (i) data += "/";
            size_t n = lens[i];
            for (size_t j = 0; j < n; j++) hex(data, arena[i * STRIDE + j]);
            for (size_t j = n; j < STRIDE; j++) if (arena[i * STRIDE + j] != FILL) guard = false;
        }
        for (size_t a = lens.size() * STRIDE; a < STRIDE * NBUF; a++) if (arena[a] != FILL) guard = false;
    } else {
        for (size_t a = 0; a < STRIDE * NBUF; a++) if (arena[a] != content_byte(a)) guard = false;
    }
    for (size_t i = 0; i < iov.size(); i++) if (iov[i].iov_base != iov0[i].iov_base || iov[i].iov_len != iov0[i].iov_len) kept = false;
    if (!D.log.empty() && D.log.back() == ';') D.log.pop_back();
    printf("ret=%zd errno=%d el=%" PRIu64 " log=%s data=%s wire=%s guard=%d iovkept=%d\n",
           ret, ret < 0 ? err : 0, D.virt, D.log.c_str(), data.c_str(), D.wire.c_str(), (int)guard, (int)kept);
}

#include "engine.inc"

int main(int argc, char** argv) {
    log_output_level = ALOG_FATAL + 1;
    if (photon::vcpu_init() < 0) { fprintf(stderr, "vcpu_init failed\n"); return 2; }
    auto vcpu = photon::get_vcpu();
    scripted.real = vcpu->master_event_engine;
    vcpu->master_event_engine = &scripted;
    std::ifstream in(argv[1]); std::string line;
    while (std::getline(in, line)) {
        if (line.empty() || line[0] == '#') continue;
        auto f = split(line, ' ');
        if (f[0] == "D") run_D(f);
        else if (f[0] == "E") run_E(f);
        else if (f[0] == "N") run_N(f);
        else if (f[0] == "R") run_R(f);
        else puts("BADCASE");
        fflush(stdout);
    }
    vcpu->master_event_engine = scripted.real;
    photon::vcpu_fini();
    return 0;
}
