// C17 implementation harness (part 1: RangeModule).  Same line format as ocaml/C17_run.ml.
#include <cstdio>
#include <cstdlib>
#include <cstring>
#include <cinttypes>
#include <string>
#include <vector>
#include <sstream>
#include <fstream>
#include <iostream>
#include <limits>
#include <map>
#define private public
#define protected public
#include "fs/cache/full_file_cache/range_module.h"
#undef private
#undef protected
using photon::fs::RangeModule;

static std::vector<std::string> split(const std::string& s, char c) {
    std::vector<std::string> v; std::string t; std::stringstream ss(s);
    while (std::getline(ss, t, c)) if (!t.empty()) v.push_back(t);
    return v;
}
static std::string show_map(RangeModule& rm) {
    std::string s = "S["; bool first = true;
    for (auto& kv : rm.intervals) {
        if (!first) s += ";"; first = false;
        s += std::to_string((long long)kv.first) + "-" + std::to_string((long long)kv.second);
    }
    return s + "]";
}
static void run_rm(const std::string& ops, const std::string& qs) {
    RangeModule rm; std::string out;
    if (ops != "-") for (auto& o : split(ops, ',')) {
        auto f = split(o, ':');
        if (f[0] == "a") rm.addRange(atoll(f[1].c_str()), atoll(f[2].c_str()));
        else if (f[0] == "r") rm.removeRange(atoll(f[1].c_str()), atoll(f[2].c_str()));
        else if (f[0] == "f") rm.removeFrom(atoll(f[1].c_str()));
        else if (f[0] == "c") rm.clear();
        if (!out.empty()) out += " ";
        out += show_map(rm);
    }
    if (qs != "-") for (auto& q : split(qs, ',')) {
        auto f = split(q, ':');
        auto r = rm.queryRefillRange(atoll(f[0].c_str()), atoll(f[1].c_str()));
        if (!out.empty()) out += " ";
        out += "Q(" + std::to_string((long long)r.first) + "," + std::to_string((long long)r.second) + ")";
    }
    puts(out.c_str()); fflush(stdout);
}
int main(int argc, char** argv) {
    std::ifstream in(argv[1]); std::string line;
    while (std::getline(in, line)) {
        if (line.empty() || line[0] == '#') continue;
        std::istringstream ss(line); std::string kind; ss >> kind;
        if (kind == "RM") { std::string ops, qs; ss >> ops >> qs; run_rm(ops, qs); }
        else { puts("BADCASE"); fflush(stdout); }
    }
    return 0;
}
