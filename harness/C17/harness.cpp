// C17 implementation harness.  Same line format as ocaml/C17_run.ml.
//   RM ...  drives photon::fs::RangeModule (fs/cache/full_file_cache/range_module.h)
//   RD ...  drives the REAL ICacheStore::preadv2 / do_refill_range / try_preadv2 (fs/cache/store.cpp)
//           on a REAL FileCacheStore (fs/cache/full_file_cache/cache_store.cpp: try_preadv2 under the
//           rwlock, do_preadv2, do_pwritev2, queryRefillRange on the in-memory RangeModule path, evict)
//           whose media IFile is an in-memory file and whose source IFile is scripted; the pool is a
//           FileCachePool that is constructed but never Init()ed (no media directory, no timer).
#include <cstdio>
#include <cstdlib>
#include <cstring>
#include <cinttypes>
#include <string>
#include <vector>
#include <sstream>
#include <fstream>
#include <iostream>
#include <limits>
#include <map>
#include <set>
#include <list>
#include <array>
#include <atomic>
#include <memory>
#include <unordered_map>
#include <unordered_set>
#include <algorithm>
#include <numeric>
#include <functional>
#include <utility>
#include <iterator>
#include <mutex>
#include <thread>
#include <condition_variable>
#include <type_traits>
#include <tuple>
#include <cassert>
#include <cerrno>
#include <fcntl.h>
#include <unistd.h>
#include <dirent.h>
#include <sys/stat.h>
#include <sys/uio.h>
#include <sys/types.h>
#include <sys/statvfs.h>
#include <photon/photon.h>
#include <photon/thread/thread.h>
#include <photon/thread/thread11.h>
#include <photon/thread/thread-pool.h>
#include <photon/thread/timer.h>
#include <photon/common/alog.h>
#include <photon/common/io-alloc.h>
#include <photon/common/iovector.h>
#include <photon/common/string-keyed.h>
#include <photon/common/string_view.h>
#include <photon/common/callback.h>
#include <photon/common/object.h>
#include <photon/common/utility.h>
#include <photon/fs/filesystem.h>
#define private public
#define protected public
#include <photon/common/range-lock.h>
#include <photon/fs/cache/pool_store.h>
#include <photon/fs/cache/cache.h>
#include "fs/cache/full_file_cache/range_module.h"
#include "fs/cache/full_file_cache/cache_pool.h"
#include "fs/cache/full_file_cache/cache_store.h"
#undef private
#undef protected
using namespace photon::fs;

static std::vector<std::string> split(const std::string& s, char c, bool keep_empty = false) {
    std::vector<std::string> v; std::string t; std::stringstream ss(s);
    while (std::getline(ss, t, c)) if (keep_empty || !t.empty()) v.push_back(t);
    return v;
}
static std::string ll(long long x) { return std::to_string(x); }

// ------------------------------------------------------------------------ RM ----------
static std::string show_ivs(std::map<off_t, off_t>& m) {
    std::string s; bool first = true;
    for (auto& kv : m) { if (!first) s += ";"; first = false; s += ll(kv.first) + "-" + ll(kv.second); }
    return s;
}
static void run_rm(const std::string& ops, const std::string& qs) {
    RangeModule rm; std::string out;
    if (ops != "-") for (auto& o : split(ops, ',')) {
        auto f = split(o, ':');
        if (f[0] == "a") rm.addRange(atoll(f[1].c_str()), atoll(f[2].c_str()));
        else if (f[0] == "r") rm.removeRange(atoll(f[1].c_str()), atoll(f[2].c_str()));
        else if (f[0] == "f") rm.removeFrom(atoll(f[1].c_str()));
        else if (f[0] == "c") rm.clear();
        if (!out.empty()) out += " ";
        out += "S[" + show_ivs(rm.intervals) + "]";
    }
    if (qs != "-") for (auto& q : split(qs, ',')) {
        auto f = split(q, ':');
        auto r = rm.queryRefillRange(atoll(f[0].c_str()), atoll(f[1].c_str()));
        if (!out.empty()) out += " ";
        out += "Q(" + ll(r.first) + "," + ll(r.second) + ")";
    }
    puts(out.c_str()); fflush(stdout);
}

// ------------------------------------------------------------------------ RD ----------
struct Outcome { char k; long long n; };      // 'k' ok, 's' short n, 'f' fail
struct Ctx {
    std::vector<uint8_t> src;
    std::vector<Outcome> sor, wor; size_t sor_i = 0, wor_i = 0;
    std::vector<std::string> log;
    Outcome next_s() { return sor_i < sor.size() ? sor[sor_i++] : Outcome{'k', 0}; }
    Outcome next_w() { return wor_i < wor.size() ? wor[wor_i++] : Outcome{'k', 0}; }
};
static size_t iov_sum(const struct iovec* iov, int n) { size_t s = 0; for (int i = 0; i < n; i++) s += iov[i].iov_len; return s; }
static void scatter(const struct iovec* iov, int n, const uint8_t* p, size_t len) {
    for (int i = 0; i < n && len; i++) { size_t k = std::min(len, iov[i].iov_len); memcpy(iov[i].iov_base, p, k); p += k; len -= k; }
}
static void gather(const struct iovec* iov, int n, std::vector<uint8_t>& out) {
    for (int i = 0; i < n; i++) out.insert(out.end(), (uint8_t*)iov[i].iov_base, (uint8_t*)iov[i].iov_base + iov[i].iov_len);
}
#define UNIMPL(...) __VA_ARGS__ override { errno = ENOSYS; return -1; }
struct BaseFile : public IFile {
    IFileSystem* filesystem() override { return nullptr; }
    ssize_t pread(void* buf, size_t count, off_t offset) override { struct iovec v{buf, count}; return preadv(&v, 1, offset); }
    ssize_t pwrite(const void* buf, size_t count, off_t offset) override { struct iovec v{(void*)buf, count}; return pwritev(&v, 1, offset); }
    UNIMPL(off_t lseek(off_t, int)) UNIMPL(int fsync()) UNIMPL(int fdatasync()) UNIMPL(int fchmod(mode_t)) UNIMPL(int fchown(uid_t, gid_t))
    UNIMPL(int close()) UNIMPL(ssize_t read(void*, size_t)) UNIMPL(ssize_t readv(const struct iovec*, int))
    UNIMPL(ssize_t write(const void*, size_t)) UNIMPL(ssize_t writev(const struct iovec*, int))
};
// the scripted source file
struct SrcFile : public BaseFile {
    Ctx* c; SrcFile(Ctx* c) : c(c) {}
    ssize_t preadv(const struct iovec* iov, int n, off_t off) override {
        long long len = iov_sum(iov, n), size = c->src.size();
        long long av = std::max(0LL, std::min(len, size - (long long)off));
        auto o = c->next_s(); long long ret = o.k == 'k' ? av : o.k == 's' ? std::min(std::max(0LL, o.n), av) : -1;
        if (ret > 0) scatter(iov, n, c->src.data() + off, ret);
        c->log.push_back("sr" + ll(off) + "/" + ll(len) + "/" + ll(ret));
        if (ret < 0) errno = EIO;
        return ret;
    }
    ssize_t pwritev(const struct iovec*, int, off_t) override { errno = EROFS; return -1; }
    int fstat(struct stat* st) override {
        auto o = c->next_s();
        if (o.k == 'f') { c->log.push_back("st-1"); errno = EIO; return -1; }
        memset(st, 0, sizeof *st); st->st_size = c->src.size(); st->st_mode = S_IFREG | 0644;
        c->log.push_back("st" + ll(c->src.size())); return 0;
    }
    UNIMPL(int ftruncate(off_t))
};
// the in-memory media file (plain-file semantics)
struct MemFile : public BaseFile {
    Ctx* c; std::vector<uint8_t> data; MemFile(Ctx* c) : c(c) {}
    ssize_t preadv(const struct iovec* iov, int n, off_t off) override {
        long long len = iov_sum(iov, n), size = data.size();
        long long av = std::max(0LL, std::min(len, size - (long long)off));
        if (av > 0) scatter(iov, n, data.data() + off, av);
        c->log.push_back("mr" + ll(off) + "/" + ll(len) + "/" + ll(av)); return av;
    }
    ssize_t pwritev(const struct iovec* iov, int n, off_t off) override {
        std::vector<uint8_t> buf; gather(iov, n, buf); long long len = buf.size();
        auto o = c->next_w(); long long ret = o.k == 'k' ? len : o.k == 's' ? std::min(std::max(0LL, o.n), len) : -1;
        if (ret > 0) { if (data.size() < (size_t)(off + ret)) data.resize(off + ret, 0); memcpy(data.data() + off, buf.data(), ret); }
        c->log.push_back("mw" + ll(off) + "/" + ll(len) + "/" + ll(ret));
        if (ret < 0) errno = EIO;
        return ret;
    }
    int ftruncate(off_t len) override { data.resize(len, 0); c->log.push_back("mt" + ll(len)); return 0; }
    int fallocate(int mode, off_t off, off_t len) override {
        long long size = data.size(), n = std::max(0LL, std::min((long long)len, size - (long long)off));
        if (n > 0) memset(data.data() + off, 0, n);
        c->log.push_back("ph" + ll(off) + "/" + ll(len)); return 0;
    }
    int fstat(struct stat* st) override {
        memset(st, 0, sizeof *st); st->st_size = data.size(); st->st_blocks = (data.size() + 511) / 512; st->st_mode = S_IFREG | 0644; return 0;
    }
};
struct TestPool : public FileCachePool {
    TestPool(uint64_t unit) : FileCachePool(nullptr, 1024, 1000ULL * 1000 * 1000, 0, unit) {}
};
static std::vector<uint8_t> unhex(const std::string& s) {
    std::vector<uint8_t> v; if (s == "-") return v;
    for (size_t i = 0; i + 1 < s.size(); i += 2) v.push_back((uint8_t)strtoul(s.substr(i, 2).c_str(), 0, 16));
    return v;
}
static std::string hex(const uint8_t* p, size_t n) {
    if (!n) return "-"; static const char* d = "0123456789abcdef"; std::string s;
    for (size_t i = 0; i < n; i++) { s += d[p[i] >> 4]; s += d[p[i] & 15]; } return s;
}
static std::vector<Outcome> parse_outcomes(const std::string& s) {
    std::vector<Outcome> v; if (s == "-") return v;
    for (auto& t : split(s, ',')) v.push_back(Outcome{t[0], t.size() > 1 ? atoll(t.c_str() + 1) : 0});
    return v;
}
struct Held { uint64_t o, l; bool f; };

static void run_rd(std::map<std::string, std::string>& kv) {
    Ctx c;
    uint64_t page = strtoull(kv["page"].c_str(), 0, 10), unit = strtoull(kv["unit"].c_str(), 0, 10);
    bool use_pool = kv["pool"] == "1", tp = kv["tp"] == "1";
    c.src = unhex(kv["src"]); c.sor = parse_outcomes(kv["sor"]); c.wor = parse_outcomes(kv["wor"]);
    auto pool = new TestPool(unit);
    const_cast<uint32_t&>(pool->m_max_refilling) = (uint32_t)strtoull(kv["maxr"].c_str(), 0, 10);
    const_cast<uint32_t&>(pool->m_refilling_threshold) = (uint32_t)strtoull(kv["thr"].c_str(), 0, 10);
    uint32_t refilling0 = (uint32_t)strtoull(kv["refilling"].c_str(), 0, 10);
    pool->m_refilling = refilling0;
    if (tp) { pool->m_thread_pool = photon::new_thread_pool(2, 128 * 1024ULL); pool->m_vcpu = photon::get_vcpu(); }
    // what FileCachePool::do_open does for a new file (cache_pool.cpp:147-158)
    auto lruIter = pool->lru_.push_front(pool->fileIndex_.end());
    std::unique_ptr<FileCachePool::LruEntry> entry(new FileCachePool::LruEntry{lruIter, 1, 0});
    auto find = pool->fileIndex_.emplace("/f", std::move(entry)).first;
    pool->lru_.front() = find;
    auto media = new MemFile(&c);
    auto srcf = new SrcFile(&c);
    IOAlloc alloc;
    auto store = new FileCacheStore(pool, media, unit, find);
    store->set_pool(use_pool ? pool : nullptr);
    store->set_src_file(srcf); store->set_page_size(page); store->set_allocator(&alloc);
    store->set_actual_size(atoll(kv["actual"].c_str()));
    store->ref_ = 1;
    media->data = unhex(kv["media"]);
    if (kv["filled"] != "-") for (auto& iv : split(kv["filled"], ';')) {
        auto f = split(iv, '-'); store->filledRanges_.intervals[atoll(f[0].c_str())] = atoll(f[1].c_str());
    }
    find->second->truncate_done = kv["td"] == "1";

    std::string out;
    for (auto& ops : split(kv["ops"], ',')) {
        auto f = split(ops, '/');
        c.log.clear();
        std::string tok;
        if (f[0] == "R") {
            off_t off = atoll(f[1].c_str());
            std::vector<std::vector<uint8_t>> segs; std::vector<struct iovec> iov;
            for (auto& s : split(f[2], '+')) segs.emplace_back((size_t)atoll(s.c_str()), (uint8_t)0xAA);
            for (auto& s : segs) iov.push_back({s.data(), s.size()});
            std::vector<Held> held;
            if (f[3] != "-") for (auto& h : split(f[3], ';')) { auto g = split(h, ':'); held.push_back({strtoull(g[0].c_str(), 0, 10), strtoull(g[1].c_str(), 0, 10), g[2] == "1"}); }
            int flags = 0;
            if (f[4].find('c') != std::string::npos) flags |= RW_V2_CACHE_ONLY;
            if (f[4].find('s') != std::string::npos) flags |= RW_V2_SYNC_MODE;
            for (auto& h : held) { uint64_t o = h.o, l = h.l; store->range_lock_.try_lock_wait(o, l); }
            bool reader_done = false;
            photon::join_handle* jh = nullptr;
            if (!held.empty()) {
                auto th = photon::thread_create11([&]() {
                    if (!reader_done) {
                        c.log.push_back("wt");
                        for (auto& h : held) if (h.f) {
                            long long size = c.src.size(), av = std::max(0LL, std::min((long long)h.l, size - (long long)h.o));
                            if (av > 0) { struct iovec v{c.src.data() + h.o, (size_t)av}; store->do_pwritev2(&v, 1, h.o, 0); }
                        }
                    }
                    for (auto& h : held) store->range_lock_.unlock(h.o, h.l);
                });
                jh = photon::thread_enable_join(th);
            }
            ssize_t ret = store->preadv2(iov.data(), (int)iov.size(), off, flags);
            reader_done = true;
            c.log.push_back("rt" + ll(ret));
            if (jh) photon::thread_join(jh);
            for (int spin = 0; pool->m_refilling.load() != refilling0 && spin < 100000; spin++) photon::thread_yield();
            for (int k = 0; k < 4; k++) photon::thread_yield();
            std::vector<uint8_t> flat; for (auto& s : segs) flat.insert(flat.end(), s.begin(), s.end());
            tok = ll(ret) + ":" + hex(flat.data(), flat.size()) + ":";
        } else if (f[0] == "E") {
            long long cnt = atoll(f[2].c_str());
            store->evict(atoll(f[1].c_str()), cnt == -1 ? (size_t)-1 : (size_t)cnt);
            tok = "0:-:";
        } else if (f[0] == "T") {
            // FileCachePool::evictOpenedFile + finalizeEvicted (cache_pool.cpp:205-229) on this open store
            { photon::scoped_rwlock wl(store->rw_lock(), photon::WLOCK); store->evict(0); }
            find->second->truncate_done = false;
            tok = "0:-:";
        } else if (f[0] == "P") {
            // ICacheStore::prefetch -> do_prefetch -> try_refill_range -> do_refill_range(input == nullptr)
            ssize_t ret = store->prefetch((size_t)atoll(f[2].c_str()), atoll(f[1].c_str()), 0);
            for (int k = 0; k < 4; k++) photon::thread_yield();
            tok = ll(ret) + ":-:";
        } else { tok = "BADOP"; }
        std::string evs; for (auto& e : c.log) { if (!evs.empty()) evs += ","; evs += e; }
        tok += evs.empty() ? "-" : evs;
        if (!out.empty()) out += " ";
        out += tok;
    }
    out += " ST actual=" + ll(store->get_actual_size()) + " filled=[" + show_ivs(store->filledRanges_.intervals) + "] media="
        + hex(media->data.data(), media->data.size()) + " td=" + (find->second->truncate_done ? "1" : "0")
        + " refilling=" + ll(pool->m_refilling.load());
    store->pool_ = nullptr;
    delete store;
    delete pool;
    puts(out.c_str()); fflush(stdout);
}

int main(int argc, char** argv) {
    log_output_level = ALOG_FATAL + 1;
    std::ifstream in(argv[1]); std::string line;
    bool inited = false;
    while (std::getline(in, line)) {
        if (line.empty() || line[0] == '#') continue;
        std::istringstream ss(line); std::string kind; ss >> kind;
        if (kind == "RM") { std::string ops, qs; ss >> ops >> qs; run_rm(ops, qs); }
        else if (kind == "RD") {
            if (!inited) { photon::init(photon::INIT_EVENT_DEFAULT, photon::INIT_IO_NONE); inited = true; }
            std::map<std::string, std::string> kv; std::string t;
            while (ss >> t) { auto p = t.find('='); if (p != std::string::npos) kv[t.substr(0, p)] = t.substr(p + 1); }
            run_rd(kv);
        }
        else { puts("BADCASE"); fflush(stdout); }
    }
    if (inited) photon::fini();
    return 0;
}
