// C17 second engine: the REAL CachedFS / FileCachePool / FileCacheStore (new_full_file_cached_fs) over
//   - a scripted in-memory source file system (content = deterministic function; every read logged),
//   - a real media directory (localfs under $VERIF_MEDIA_DIR), wrapped so that every media I/O yields
//     (to interleave readers, write-back and eviction on one vCPU) and, when fiemap=0, fiemap fails so
//     that the in-memory filled-range path (RangeModule) is used; fiemap=1 uses the kernel's fiemap.
// No model: the output (every read's return value + FNV hash of the returned bytes, and the number of
// source reads that reached beyond the source size) is judged by the python oracle only.
//
// case:  PL unit=<bytes> cap=<GB> fiemap=<0|1> sizes=<s0,s1,..> phases=<phase>;<phase>;...
//   phase  = X (destroy the cached fs and create a new one over the same media directory)
//          | thread|thread|...      threads run concurrently (photon threads, one vCPU)
//   thread = op,op,...
//   op     = r<f>:<off>:<len>  pread through the cached file      e<f>  pool->evict(name)
//          | t<f>:<off>        fallocate(0, off, -1) (trim tail)   p<f>:<off>:<len>  fallocate(punch)
//          | y                 photon::thread_yield()
// output: one token per read `<phase>.<thread>.<op>=<ret>:<fnv>` in program order, then `beyond=<n> srcreads=<n>`.
#include <cstdio>
#include <cstdlib>
#include <cstring>
#include <cinttypes>
#include <string>
#include <vector>
#include <map>
#include <sstream>
#include <fstream>
#include <iostream>
#include <fcntl.h>
#include <unistd.h>
#include <sys/stat.h>
#include <sys/uio.h>
#include <photon/photon.h>
#include <photon/thread/thread.h>
#include <photon/thread/thread11.h>
#include <photon/common/alog.h>
#include <photon/common/io-alloc.h>
#include <photon/fs/filesystem.h>
#include <photon/fs/localfs.h>
#include <photon/fs/forwardfs.h>
#include <photon/fs/cache/cache.h>
#include <photon/fs/cache/pool_store.h>
using namespace photon::fs;

static std::vector<std::string> split(const std::string& s, char c) {
    std::vector<std::string> v; std::string t; std::stringstream ss(s);
    while (std::getline(ss, t, c)) if (!t.empty()) v.push_back(t);
    return v;
}
static inline uint8_t content(int k, uint64_t i) { return (uint8_t)((i * 131 + (uint64_t)k * 17 + (i >> 8) * 7 + 3) & 0xFF); }
static uint64_t fnv(const uint8_t* p, size_t n) { uint64_t h = 1469598103934665603ULL; for (size_t i = 0; i < n; i++) { h ^= p[i]; h *= 1099511628211ULL; } return h; }

struct SrcStats { uint64_t reads = 0, beyond = 0; };
static SrcStats g_stats;
static std::vector<uint64_t> g_sizes;

// ---- scripted source
struct SrcFile : public ForwardFile {
    int k; uint64_t size;
    SrcFile(int k, uint64_t size) : ForwardFile(nullptr), k(k), size(size) {}
    int close() override { return 0; }
    IFileSystem* filesystem() override { return nullptr; }
    ssize_t preadv(const struct iovec* iov, int n, off_t off) override {
        uint64_t len = 0; for (int i = 0; i < n; i++) len += iov[i].iov_len;
        g_stats.reads++; if ((uint64_t)off + len > size) g_stats.beyond++;
        photon::thread_yield();                       // a source read takes time
        uint64_t av = (uint64_t)off >= size ? 0 : std::min(len, size - off), pos = off, left = av;
        for (int i = 0; i < n && left; i++) {
            size_t c = std::min<uint64_t>(left, iov[i].iov_len);
            for (size_t j = 0; j < c; j++) ((uint8_t*)iov[i].iov_base)[j] = content(k, pos + j);
            pos += c; left -= c;
        }
        return av;
    }
    ssize_t preadv2(const struct iovec* iov, int n, off_t off, int) override { return preadv(iov, n, off); }
    ssize_t preadv_mutable(struct iovec* iov, int n, off_t off) override { return preadv(iov, n, off); }
    ssize_t preadv2_mutable(struct iovec* iov, int n, off_t off, int) override { return preadv(iov, n, off); }
    ssize_t pread(void* buf, size_t count, off_t off) override { struct iovec v{buf, count}; return preadv(&v, 1, off); }
    int fstat(struct stat* st) override { memset(st, 0, sizeof *st); st->st_size = size; st->st_mode = S_IFREG | 0644; return 0; }
};
struct SrcFS : public ForwardFS {
    SrcFS() : ForwardFS(nullptr) {}
    IFile* open(const char* path, int flags) override { return open(path, flags, 0); }
    IFile* open(const char* path, int, mode_t) override {
        int k = atoi(path + 2);                      // "/f<k>"
        if (k < 0 || (size_t)k >= g_sizes.size()) { errno = ENOENT; return nullptr; }
        return new SrcFile(k, g_sizes[k]);
    }
    int stat(const char* path, struct stat* st) override { int k = atoi(path + 2); memset(st, 0, sizeof *st); st->st_size = g_sizes[k]; st->st_mode = S_IFREG | 0644; return 0; }
};
// ---- media: localfs whose files yield at every I/O and optionally refuse fiemap
static bool g_fiemap = false;
struct YFile : public ForwardFile_Ownership {
    YFile(IFile* f) : ForwardFile_Ownership(f, true) {}
    ssize_t preadv(const struct iovec* iov, int n, off_t off) override { photon::thread_yield(); return m_file->preadv(iov, n, off); }
    ssize_t pwritev(const struct iovec* iov, int n, off_t off) override { photon::thread_yield(); return m_file->pwritev(iov, n, off); }
    ssize_t pread(void* b, size_t c, off_t off) override { photon::thread_yield(); return m_file->pread(b, c, off); }
    ssize_t pwrite(const void* b, size_t c, off_t off) override { photon::thread_yield(); return m_file->pwrite(b, c, off); }
    int ftruncate(off_t len) override { photon::thread_yield(); return m_file->ftruncate(len); }
    int fallocate(int mode, off_t off, off_t len) override { photon::thread_yield(); return m_file->fallocate(mode, off, len); }
    int fiemap(struct photon::fs::fiemap* map) override { if (!g_fiemap) { errno = ENOSYS; return -1; } photon::thread_yield(); return m_file->fiemap(map); }
};
struct YFS : public ForwardFS_Ownership {
    YFS(IFileSystem* fs) : ForwardFS_Ownership(fs, true) {}
    IFile* open(const char* p, int flags) override { auto f = m_fs->open(p, flags); return f ? new YFile(f) : nullptr; }
    IFile* open(const char* p, int flags, mode_t mode) override { auto f = m_fs->open(p, flags, mode); return f ? new YFile(f) : nullptr; }
};

struct Env {
    std::string dir; uint64_t unit; uint64_t cap; SrcFS* src = nullptr; ICachedFileSystem* cfs = nullptr;
    void up() {
        auto media = new YFS(new_localfs_adaptor(dir.c_str()));
        cfs = new_full_file_cached_fs(src, media, unit, cap, 1000ULL * 1000 * 3600, 0, nullptr, 0);
    }
    void down() { delete cfs; cfs = nullptr; }
};

static void run_pl(std::map<std::string, std::string>& kv, int serial) {
    const char* base = getenv("VERIF_MEDIA_DIR"); std::string root = base ? base : "/verif/.build/media";
    Env env; env.dir = root + "/c17_" + std::to_string(getpid()) + "_" + std::to_string(serial);
    std::string cmd = "rm -rf '" + env.dir + "' && mkdir -p '" + env.dir + "'"; if (system(cmd.c_str()) != 0) { puts("NODIR"); fflush(stdout); return; }
    env.unit = strtoull(kv["unit"].c_str(), 0, 10); env.cap = strtoull(kv["cap"].c_str(), 0, 10);
    g_fiemap = kv["fiemap"] == "1"; g_sizes.clear(); g_stats = SrcStats();
    for (auto& s : split(kv["sizes"], ',')) g_sizes.push_back(strtoull(s.c_str(), 0, 10));
    env.src = new SrcFS(); env.up();
    if (!env.cfs) { puts("NOFS"); fflush(stdout); return; }
    std::map<std::string, std::string> results;   // key "ph.th.op" -> "ret:fnv"
    auto phases = split(kv["phases"], ';');
    for (size_t ph = 0; ph < phases.size(); ph++) {
        if (phases[ph] == "X") { env.down(); env.up(); continue; }
        auto threads = split(phases[ph], '|');
        std::vector<photon::join_handle*> jhs;
        for (size_t ti = 0; ti < threads.size(); ti++) {
            std::string prog = threads[ti];
            auto th = photon::thread_create11([&env, &results, prog, ph, ti]() {
                std::map<int, IFile*> files;
                auto file = [&](int k) -> IFile* {
                    auto it = files.find(k); if (it != files.end()) return it->second;
                    std::string name = "/f" + std::to_string(k);
                    return files[k] = env.cfs->open(name.c_str(), O_RDONLY, 0644);
                };
                auto ops = split(prog, ',');
                for (size_t oi = 0; oi < ops.size(); oi++) {
                    auto& o = ops[oi]; auto f = split(o.substr(1), ':');
                    if (o[0] == 'y') { photon::thread_yield(); continue; }
                    int k = atoi(f[0].c_str());
                    if (o[0] == 'r') {
                        uint64_t off = strtoull(f[1].c_str(), 0, 10), len = strtoull(f[2].c_str(), 0, 10);
                        std::vector<uint8_t> buf(len, 0xAA);
                        auto fl = file(k);
                        ssize_t ret = fl ? fl->pread(buf.data(), len, off) : -9;
                        char b[96]; snprintf(b, sizeof b, "%zd:%016" PRIx64, ret, ret > 0 ? fnv(buf.data(), ret) : 0);
                        results[std::to_string(ph) + "." + std::to_string(ti) + "." + std::to_string(oi)] = b;
                    } else if (o[0] == 'e') {
                        std::string name = "/f" + std::to_string(k);
                        env.cfs->get_pool()->evict(name);
                    } else if (o[0] == 't') {
                        auto fl = file(k); if (fl) fl->fallocate(0, strtoull(f[1].c_str(), 0, 10), -1);
                    } else if (o[0] == 'p') {
                        auto fl = file(k); if (fl) fl->fallocate(0, strtoull(f[1].c_str(), 0, 10), strtoull(f[2].c_str(), 0, 10));
                    }
                }
                for (auto& kvp : files) delete kvp.second;
            });
            jhs.push_back(photon::thread_enable_join(th));
        }
        for (auto jh : jhs) photon::thread_join(jh);
        for (int i = 0; i < 20; i++) photon::thread_yield();      // let async write-back threads finish
    }
    env.down(); delete env.src;
    cmd = "rm -rf '" + env.dir + "'"; (void)!system(cmd.c_str());
    std::string out;
    for (size_t ph = 0; ph < phases.size(); ph++) {
        if (phases[ph] == "X") continue;
        auto threads = split(phases[ph], '|');
        for (size_t ti = 0; ti < threads.size(); ti++) { auto ops = split(threads[ti], ',');
            for (size_t oi = 0; oi < ops.size(); oi++) if (ops[oi][0] == 'r') {
                std::string key = std::to_string(ph) + "." + std::to_string(ti) + "." + std::to_string(oi);
                out += key + "=" + (results.count(key) ? results[key] : std::string("missing")) + " ";
            } }
    }
    out += "beyond=" + std::to_string(g_stats.beyond) + " srcreads=" + std::to_string(g_stats.reads);
    puts(out.c_str()); fflush(stdout);
}

int main(int argc, char** argv) {
    log_output_level = ALOG_FATAL + 1;
    photon::init(photon::INIT_EVENT_DEFAULT, photon::INIT_IO_NONE);
    std::ifstream in(argv[1]); std::string line; int serial = 0;
    while (std::getline(in, line)) {
        if (line.empty() || line[0] == '#') continue;
        std::istringstream ss(line); std::string kind; ss >> kind;
        std::map<std::string, std::string> kv; std::string t;
        while (ss >> t) { auto p = t.find('='); if (p != std::string::npos) kv[t.substr(0, p)] = t.substr(p + 1); }
        if (kind == "PL") run_pl(kv, serial++); else { puts("BADCASE"); fflush(stdout); }
    }
    photon::fini();
    return 0;
}
