// Lockset engine ("E4L"): validates, on real multi-vCPU runs of libphoton built from /repo's
// current tree with -DPHOTON_VERIF, the ATOMICITY ASSUMPTION of the fine-grained Coq models:
// every access the models treat as "inside a block protected by lock L" is performed while the
// executing OS thread holds L.  Lockset checking (Eraser style) is schedule-insensitive: a
// removed or narrowed lock is reported on any run that executes the access, whether or not a
// racing access actually happened.
//
// argv[1] = case file; one case per line:  <seed> <nvcpu> <nthreads_per_vcpu> <nops>
// one output line per case:  "checks <id>=<n> ... | viol <id>=<n> ... | first=<text>"
#include <cstdio>
#include <cstdlib>
#include <cstring>
#include <cinttypes>
#include <atomic>
#include <map>
#include <mutex>
#include <thread>
#include <vector>
#include <string>
#include <fstream>
#include <sstream>
#include <unordered_map>
#include <errno.h>
#define protected public
#define private public
#include <photon/photon.h>
#include <photon/thread/thread.h>
#include <photon/thread/thread11.h>
#include <photon/common/alog.h>
#undef protected
#undef private
using namespace photon;

enum { NID = 32 };
static std::atomic<uint64_t> g_checks[NID], g_viol[NID];
static std::mutex g_first_mtx;
static std::string g_first;
static thread_local std::vector<const void*> t_held;
static thread_local const void* t_sleeper;
static thread_local std::unordered_map<const void*, uint64_t> t_epoch;   // lock -> number of acquisitions by this OS thread
struct CasInfo { bool held; uint64_t epoch; };
static thread_local std::unordered_map<const void*, CasInfo> t_lastcas;  // mutex -> state at its last owner-CAS by this OS thread
static std::unordered_map<const void*, const void*> g_mutex_splock;       // mutex -> its splock (read-only during a run)
static std::unordered_map<const void*, const void*> g_q_mutex;            // mutex wait queue -> mutex   // the thread of the last LS_TH_SLEEP on this OS thread (CURRENT has already moved on at LS_WAITQ_PUSH)

// registry: wait-queue address -> what must ALSO be held when a thread is appended to it
struct Req { int kind; const void* p; };   // kind 1: spinlock p held; kind 2: photon mutex p owned by CURRENT
static std::unordered_map<const void*, Req> g_req;      // filled before the run, read-only during it
static std::unordered_map<const void*, const void*> g_rw; // rwlock -> its mutex

static bool held(const void* l) { for (auto x : t_held) if (x == l) return true; return false; }
static void viol(int id, const char* what, const void* obj) {
    g_viol[id]++;
    std::lock_guard<std::mutex> g(g_first_mtx);
    if (g_first.empty()) { char b[256]; snprintf(b, sizeof b, "rule %d: %s", id, what); g_first = b; }
}
static void ls_cb(int id, const void* obj, const void* l1, const void* l2) {
    if (id == LS_LOCK_ACQ) { t_held.push_back(obj); t_epoch[obj]++; return; }
    if (id == LS_LOCK_REL) {
        for (size_t i = t_held.size(); i-- > 0;) if (t_held[i] == obj) { t_held.erase(t_held.begin() + i); return; }
        g_checks[0]++;   // released by an OS thread that did not acquire it (informational, id 0)
        return;
    }
    if (id <= 0 || id >= NID) return;
    g_checks[id]++;
    if (id == LS_TH_SLEEP) t_sleeper = obj;
    if (l1 && !held(l1)) viol(id, "first protecting lock not held at the access", obj);
    if (l2 && !held(l2)) viol(id, "second protecting lock not held at the access", obj);
    if (id == LS_TH_DISPOSE) {   // the stack is released: the lock dies with the thread object
        for (size_t i = t_held.size(); i-- > 0;) if (t_held[i] == l1) { t_held.erase(t_held.begin() + i); break; }
    }
    if (id == LS_MUTEX_CAS) {
        auto it = g_mutex_splock.find(obj);
        if (it != g_mutex_splock.end()) t_lastcas[obj] = CasInfo{held(it->second), t_epoch[it->second]};
    }
    if (id == LS_WAITQ_PUSH) {
        auto qm = g_q_mutex.find(obj);
        if (qm != g_q_mutex.end()) {
            // mutex slow path: the failed owner-CAS and the enqueue are ONE block under splock
            auto sp = g_mutex_splock[qm->second];
            auto lc = t_lastcas.find(qm->second);
            if (lc == t_lastcas.end() || !lc->second.held || lc->second.epoch != t_epoch[sp])
                viol(LS_MUTEX_CAS, "mutex waiter enqueued although its last owner-CAS was not made in the same splock section (check-then-enqueue not atomic)", obj);
            else g_checks[LS_MUTEX_CAS]++;
        }
        auto it = g_req.find(obj);
        if (it != g_req.end()) {
            if (it->second.kind == 1 && !held(it->second.p))
                viol(id, "thread enqueued on a primitive's wait queue without the primitive's spinlock (release-and-wait not atomic)", obj);
            if (it->second.kind == 2 && (const void*)((photon::mutex*)it->second.p)->owner.load() != t_sleeper)
                viol(id, "thread enqueued on a condition variable after its mutex was already released", obj);
        }
    }
    if (id == LS_RWLOCK_STATE) {
        auto it = g_rw.find(obj);
        if (it != g_rw.end() && ((photon::mutex*)it->second)->owner.load() != photon::CURRENT)
            viol(id, "rwlock state changed without holding its internal mutex", obj);
    }
}

// ---------------------------------------------------------------- workload
struct World {
    photon::mutex m[2];
    photon::seq_mutex* dummy = nullptr;
    photon::semaphore s[2];
    photon::condition_variable cvm, cvs;
    photon::mutex cm;
    photon::spinlock cs;
    photon::rwlock rw;
    std::atomic<int> in_m[2]; std::atomic<int> excl_viol{0};
    std::atomic<int> rw_r{0}, rw_w{0};
    std::vector<photon::thread*> all;        // interrupt targets
    photon::spinlock all_lock_dummy;
    std::atomic<bool> stop{false};
    World() { in_m[0] = in_m[1] = 0; }
};
static uint64_t sm(uint64_t& x) { uint64_t z = (x += 0x9e3779b97f4a7c15ULL); z = (z ^ (z >> 30)) * 0xbf58476d1ce4e5b9ULL; z = (z ^ (z >> 27)) * 0x94d049bb133111ebULL; return z ^ (z >> 31); }

static void worker(World* w, uint64_t seed, int nops, std::vector<std::atomic<photon::thread*>>* slots, int myslot) {
    (*slots)[myslot] = photon::CURRENT;
    uint64_t r = seed;
    for (int i = 0; i < nops; i++) {
        uint64_t x = sm(r);
        int op = x % 12; uint64_t t = (x >> 8) % 300;   // microseconds
        switch (op) {
        case 0: case 1: { int k = (x >> 20) & 1;
            if (w->m[k].lock(t) == 0) { if (w->in_m[k].fetch_add(1) != 0) w->excl_viol++; if (x & 0x10000) photon::thread_yield(); if (x & 0x20000) photon::thread_usleep(t / 4); w->in_m[k].fetch_sub(1); w->m[k].unlock(); }
            break; }
        case 2: w->s[(x >> 20) & 1].wait_interruptible(1 + ((x >> 21) & 1), t); break;
        case 3: w->s[(x >> 20) & 1].signal(1 + ((x >> 21) & 1)); break;
        case 4: { if (w->cm.lock(1000) == 0) { w->cvm.wait(w->cm, t); w->cm.unlock(); } break; }
        case 5: w->cvm.notify_one(); if (x & 0x10000) w->cvm.notify_all(); break;
        case 6: { w->cs.lock(); w->cvs.wait(w->cs, t); w->cs.unlock(); break; }
        case 7: w->cvs.notify_all(); break;
        case 8: { int mode = (x & 0x10000) ? photon::RLOCK : photon::WLOCK;
            if (w->rw.lock(mode, t) == 0) { if (mode == photon::WLOCK) { if (w->rw_w.fetch_add(1) != 0 || w->rw_r.load() != 0) w->excl_viol++; } else { w->rw_r++; if (w->rw_w.load() != 0) w->excl_viol++; }
                photon::thread_yield(); if (mode == photon::WLOCK) w->rw_w--; else w->rw_r--; w->rw.unlock(); }
            break; }
        case 9: photon::thread_usleep(t); break;
        case 10: { auto th = (*slots)[(x >> 20) % slots->size()].load(); if (th && th != photon::CURRENT) photon::thread_interrupt(th, EINTR); break; }
        case 11: photon::thread_yield(); break;
        }
    }
    (*slots)[myslot] = nullptr;
}

static std::string run_case(uint64_t seed, int nvcpu, int nth, int nops) {
    for (int i = 0; i < NID; i++) { g_checks[i] = 0; g_viol[i] = 0; }
    g_first.clear();
    World* w = new World();
    g_req.clear(); g_rw.clear();
    for (int k = 0; k < 2; k++) {
        g_req[(const void*)&static_cast<photon::waitq&>(w->m[k]).q] = Req{1, &w->m[k].splock};
        g_req[(const void*)&static_cast<photon::waitq&>(w->s[k]).q] = Req{1, &w->s[k].splock};
    }
    g_req[(const void*)&static_cast<photon::waitq&>(w->cm).q] = Req{1, &w->cm.splock};
    g_mutex_splock.clear(); g_q_mutex.clear();
    { photon::mutex* ms[] = {&w->m[0], &w->m[1], &w->cm, &w->rw.mtx};
      for (auto m : ms) { g_mutex_splock[m] = &m->splock; g_q_mutex[(const void*)&static_cast<photon::waitq&>(*m).q] = m; } }
    g_req[(const void*)&static_cast<photon::waitq&>(w->cvm).q] = Req{2, &w->cm};
    g_req[(const void*)&static_cast<photon::waitq&>(w->cvs).q] = Req{1, &w->cs};
    g_req[(const void*)&static_cast<photon::waitq&>(w->rw.mtx).q] = Req{1, &w->rw.mtx.splock};
    g_req[(const void*)&static_cast<photon::waitq&>(w->rw.cvar).q] = Req{2, &w->rw.mtx};
    g_rw[(const void*)&w->rw] = &w->rw.mtx;
    std::vector<std::atomic<photon::thread*>> slots(nvcpu * nth);
    for (auto& s : slots) s = nullptr;
    std::atomic<int> ready{0};
    photon_verif_ls_cb = ls_cb;
    std::vector<std::thread> vcpus;
    for (int v = 0; v < nvcpu; v++) {
        vcpus.emplace_back([&, v] {
            photon::init(photon::INIT_EVENT_EPOLL, photon::INIT_IO_NONE);
            ready++; while (ready.load() < nvcpu) photon::thread_usleep(100);
            std::vector<photon::join_handle*> js;
            for (int t = 0; t < nth; t++) {
                uint64_t sd = seed * 1000003ULL + v * 1009 + t;
                js.push_back(photon::thread_enable_join(photon::thread_create11(worker, w, sd, nops, &slots, v * nth + t)));
            }
            for (auto j : js) photon::thread_join(j);
            // drain: release anybody still blocked on a semaphore / cvar from another vcpu
            for (int i = 0; i < 50; i++) { w->s[0].signal(2); w->s[1].signal(2); w->cvm.notify_all(); w->cvs.notify_all(); photon::thread_usleep(200); }
            photon::fini();
        });
    }
    // a plain (non-photon) OS thread signalling semaphores, as the API allows
    std::thread plain([&] { uint64_t r = seed ^ 0x5555; for (int i = 0; i < nops; i++) { w->s[sm(r) & 1].signal(1); std::this_thread::sleep_for(std::chrono::microseconds(50)); } });
    for (auto& t : vcpus) t.join();
    plain.join();
    photon_verif_ls_cb = nullptr;
    std::ostringstream o;
    o << "checks";
    for (int i = 0; i < NID; i++) if (g_checks[i]) o << " " << i << "=" << g_checks[i];
    o << " | viol";
    for (int i = 0; i < NID; i++) if (g_viol[i]) o << " " << i << "=" << g_viol[i];
    o << " | excl=" << w->excl_viol.load() << " | first=" << (g_first.empty() ? "-" : g_first);
    // World is leaked on purpose (primitives may still have internal state); one case per process is typical
    return o.str();
}

int main(int argc, char** argv) {
    log_output_level = ALOG_FATAL + 1;
    std::ifstream in(argv[1]); std::string line;
    while (std::getline(in, line)) {
        if (line.empty() || line[0] == '#') continue;
        std::istringstream ss(line); uint64_t seed; int nv, nt, no; ss >> seed >> nv >> nt >> no;
        printf("%s\n", run_case(seed, nv, nt, no).c_str()); fflush(stdout);
    }
    return 0;
}
