// informational probe (not part of the verdict): LockfreeMPMCRingQueue<T,1> has capacity 2 but SLOTS_NUM 1
// (finding C07-F1, repo_patches/C07-slots-num-n1.diff).  Built with ASan; prints OVERFLOW-FREE if the second
// push stays inside the object.
#include <cstdio>
#include <photon/common/lockfree_queue.h>
int main() {
    auto* q = new LockfreeMPMCRingQueue<int, 1>();
    printf("capacity=%zu slots=%zu\n", q->capacity, (size_t)LockfreeRingQueueBase<int, 1>::SLOTS_NUM);
    fflush(stdout);
    q->push(1); q->push(2);
    int x = 0, y = 0; q->pop(x); q->pop(y);
    printf("OVERFLOW-FREE %d %d\n", x, y);
    delete q;
    return 0;
}
